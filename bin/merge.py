#!/usr/bin/env python3
# merge.py ID TIER : fold evidence/ID.part-*.json into evidence/ID.json
import glob, json, sys
pid, tier = sys.argv[1], sys.argv[2]
evdir = sys.argv[3] if len(sys.argv) > 3 else "/verif/evidence"
parts = sorted(glob.glob(f"{evdir}/{pid}.part-*.json"))
if not parts:
    sys.stderr.write(f"merge: no part evidence for {pid}\n"); sys.exit(2)
out = None
for p in parts:
    e = json.load(open(p))
    c = e["coverage"]
    if out is None:
        out = {"property_id": pid, "tier": tier, "seed": e.get("seed", 0), "level": e["level"], "coverage": {"parts": {}}, "assumptions": [], "wall_s": 0.0, "violations": 0}
        oc = out["coverage"]
        for k in ("evaluations", "distinct_nontrivial", "states", "transitions", "traces_validated_against_impl"):
            oc[k] = 0
        oc["samples"] = []; oc["rule"] = ""; oc["exhaustive"] = True
    oc = out["coverage"]
    if e["level"] == "model_checking":
        out["level"] = "model_checking"
    for k in ("evaluations", "distinct_nontrivial", "states", "transitions", "traces_validated_against_impl"):
        oc[k] += int(c.get(k, 0))
    oc["samples"] += c.get("samples", [])[:6]
    oc["rule"] = (oc["rule"] + " || " if oc["rule"] else "") + f"[{e.get('part','')}] " + c.get("rule", "")
    oc["exhaustive"] = oc["exhaustive"] and bool(c.get("exhaustive", False))
    extra = {k: v for k, v in c.items() if k not in ("evaluations", "distinct_nontrivial", "states", "transitions", "traces_validated_against_impl", "samples", "rule", "exhaustive")}
    extra["evaluations"] = c.get("evaluations", 0)
    oc["parts"][e.get("part", p)] = extra
    out["assumptions"] += e.get("assumptions") or []
    out["wall_s"] += e.get("wall_s", 0.0)
    out["violations"] += e.get("violations", 0)
    if "harness_errors" in e:
        out.setdefault("harness_errors", []).extend(e["harness_errors"])
oc = out["coverage"]
if out["level"] != "model_checking":
    for k in ("states", "transitions", "traces_validated_against_impl"):
        if oc.get(k, 0) == 0:
            oc.pop(k, None)
else:
    oc["states"] = max(oc["states"], 1); oc["transitions"] = max(oc["transitions"], 1)
json.dump(out, open(f"{evdir}/{pid}.json", "w"), indent=1)
