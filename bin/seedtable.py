#!/usr/bin/env python3
# Regenerates the table of DESIGN.md section 10 from seeded/<property>-<k>/{meta.json,confirm.json,result.*.json}
import json, glob, os, re
rows=[]
for d in sorted(glob.glob('/verif/seeded/C??-[0-9]*')):
    try: meta=json.load(open(d+'/meta.json'))
    except Exception: continue
    pid, k = d.split('/')[-1].split('-')
    conf = json.load(open(d+'/confirm.json')) if os.path.exists(d+'/confirm.json') else {}
    confirmed = conf.get('build_rc')==0 and conf.get('unit_tests_rc')==0 and conf.get('demo_clean_rc')==0 and conf.get('demo_patched_rc') not in (0,99,None)
    caught=[]; missed=[]
    for rf in sorted(glob.glob(d+'/result.*.json')):
        tier=rf.split('.')[-2]
        for chk,r in json.load(open(rf)).items():
            (caught if r['violations']>0 else missed).append(f"{chk} {tier}")
    first=''
    for rf in sorted(glob.glob(d+'/result.*.json')):
        for chk,r in json.load(open(rf)).items():
            if r['violations']>0 and r['first'] and not first:
                first=re.sub(r'^\s*signature:\s*','',r['first'][0])[:110]
    note = open(d+'/note.txt').read().strip() if os.path.exists(d+'/note.txt') else ''
    rows.append((pid,k,meta.get('title','')[:140].replace('|','/'), ', '.join(meta.get('files',[]))[:80], 'yes' if confirmed else 'partly', ', '.join(caught) or '—', first.replace('|','/'), note))
out=['| seed | change (file) | demo confirmed | caught by | first signature | note |','|---|---|---|---|---|---|']
for r in rows:
    out.append(f"| {r[0]}-{r[1]} | {r[2]} (`{r[3]}`) | {r[4]} | {r[5]} | {r[6]} | {r[7]} |")
n=len(rows); c=sum(1 for r in rows if r[5]!='—')
out.append('')
out.append(f"{c} of {n} seeded changes are reported by at least one check (quick tier unless stated).")
md='\n'.join(out)
p='/verif/DESIGN.md'; s=open(p).read()
if '@@SEEDED@@' in s:
    s=s.replace('@@SEEDED@@','<!-- SEEDED-BEGIN -->\n'+md+'\n<!-- SEEDED-END -->')
else:
    s=re.sub(r'<!-- SEEDED-BEGIN -->.*<!-- SEEDED-END -->','<!-- SEEDED-BEGIN -->\n'+md.replace('\\','\\\\')+'\n<!-- SEEDED-END -->',s,flags=re.S)
open(p,'w').write(s)
print(f"{c}/{n}")
