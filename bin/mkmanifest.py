#!/usr/bin/env python3
# Regenerates MANIFEST.json from the claims table below (properties.jsonl is read-only input).
import json
E1_TRUST = "Trusted: the vs scheduler and source rewriter (mc/vs, mc/instr), the virtual network/clock (vnet/vtime) as model of the OS, scripted peers speaking the real wire protocol through pkg/msg. Every explored trace is an execution of /repo's working tree (no separate model)."
claims = {
 "C09": dict(level="model_checking", engine="E1",
   technique="explicit-state BFS over register/close histories on the real frps against a reference allocator + stateless deviation-bounded DFS over racing registrations (controlled scheduler, virtual port table)",
   text="(a) BFS over operation sequences on the real ports.Manager with external port squatting, every step compared with a reference allocator and the used/free partition invariant; (b) BFS over sequential register/close histories of two clients (tcp, udp, tcp group; ports 0 / in range / out of range; quota 2) on the real frps, deduplicated by the canonical dump of the server tables, with the oracle 'bound = accounted = reported, inside allowPorts, reachable at the reported address, quota respected, refused requests change nothing, previous port handed back'; (c) every schedule with at most B deviations of racing registrations, close-vs-reopen (tcp and udp), server-chosen vs fixed registration of the reserved port, and a port grabbed by another process between acquisition and listen.",
   note=E1_TRUST+" Bounds: 2 clients, 3 allowed ports, history depth 4 (quick) / 5 (thorough), deviation bound 2 / 3. The OS port table is vnet (port 0 = ephemeral port outside allowPorts, EADDRINUSE when bound or squatted).", ref="5/C09"),
 "C10": dict(level="model_checking", engine="E1",
   technique="fault enumeration + stateless deviation-bounded DFS over the real frps (controlled scheduler, virtual network and clock): every termination path x every proxy shape, control-connection cut injected at every scheduling point",
   text="For 13 proxy shapes (tcp fixed/server-chosen port, tcp group, udp, http with 2 domains x 2 locations, http sub-domain, http group, https, tcpmux, tcpmux group, stcp, sudp, xtcp) and termination by close request, connection cut, re-login with the same run id and heartbeat timeout (virtual clock): two identical register/use/terminate cycles, all schedules with at most B deviations; the control connection cut as a fault at every scheduling point of register/use/close; registrations failing part-way (second domain / location conflicts, listen fails after the port was granted, for plain and grouped proxies); connection wrappers closed 3 times from 2 threads. Oracles: canonical dump of all server tables equals the dump before the registration, bound ports equal, no server-side connection left open at the end, no server thread left, identical registration succeeds (same session right after close / new session after the old ended), an unrelated proxy keeps serving, census (server threads, non-pooled server-side connections, listeners, sockets) equal after cycle 1 and 2.",
   note=E1_TRUST+" Bounds: deviation bound 1 (quick) / 2 (thorough); 2 cycles; 90 virtual seconds allowed for 'shortly after'. HTTP idle backend connections of net/http's transport are outside E1 (checked with real sockets in C06).", ref="5/C10"),
 "C11": dict(level="model_checking", engine="E1",
   technique="stateless deviation-bounded DFS over all goroutine interleavings of the real frps (controlled scheduler, virtual network and clock) with scripted client behaviours",
   text="Every schedule with at most B deviations of user arrivals, work-connection arrivals, proxy close and session end, on four accept paths (direct listener, group listener, tcpmux vhost muxer, visitor listener) and for client behaviours {answers every request, never answers, offers a dead pooled connection, offers surplus connections}. Oracles: each user bridged to exactly one work connection announced with the right proxy name and the user's real address, or closed within userConnTimeout on the virtual clock; no work connection serves two users; advance requests = min(poolCount, maxPoolCount); pool never above capacity, surplus refused and closed; at session end every pooled or late work connection is closed; nothing is left open without a peer when a listener disappears mid hand-off.",
   note=E1_TRUST+" Bounds: 1-2 clients, 2-3 simultaneous users, deviation bound 2 (quick) / 3 (thorough); https muxer path not driven (same vhost.Muxer code as tcpmux).", ref="5/C11"),
 "C12": dict(level="model_checking", engine="E1",
   technique="stateless deviation-bounded DFS over all goroutine interleavings of the real frps (controlled scheduler, virtual network)",
   text="Every schedule with at most B deviations of: the same proxy name registered from two sessions at once; close request from a non-owner; re-login with the client's run id (once, while the old session is still registering, and two re-logins at once) followed at once by re-registration of the client's own names; session end racing with a take-over registration; concurrent fresh logins. Oracles: exactly one winner per name and the name table equals the union of the sessions' own tables; non-owner close changes nothing; after an acknowledged re-login the old control is closed, the run id maps to exactly one live session, the client's own names register at once and traffic reaches the new session; fresh run ids are distinct 16-hex strings.",
   note=E1_TRUST+" Bounds: 2-3 clients, deviation bound 2 (quick) / 3 (thorough). Unpredictability of run ids is a property of crypto/rand and is not enumerable.", ref="5/C12"),
 "C13": dict(level="model_checking", engine="E1",
   technique="stateless deviation-bounded DFS over all goroutine interleavings of the real frps (controlled scheduler, virtual network)",
   text="Every schedule of the real server code with at most B deviations (preemptions / environment choices) from the default schedule is executed for closed scenarios of join / leave / user arrival on tcp (fixed and server-chosen port), tcpmux and http groups; oracles are taken sentence by sentence from the property (keyed membership, refused join changes nothing, live member serves, endpoint exists iff members, re-creation after last leave, rotation, no panic, clean teardown).",
   note=E1_TRUST+" Bounds: 2 clients, 2-3 user connections, deviation bound 2 (quick) / 3 (thorough). HTTP requests enter at HTTPReverseProxy route lookup + ChooseEndpoint + CreateConnection (what the reverse proxy does per request), not through net/http.", ref="5/C13"),
}
props=[json.loads(l) for l in open('/verif/properties.jsonl')]
checks=[]
for p in props:
    c=claims.get(p['id'])
    if not c: continue
    checks.append({"property_id":p['id'],"quick_cmd":f"bin/check {p['id']} quick","thorough_cmd":f"bin/check {p['id']} thorough",
      "evidence_file":f"evidence/{p['id']}.json","replay_cmd_template":f"bin/check {p['id']} --replay {{path}}","engine":c['engine'],
      "level_claimed":{"category":c['level'],"text":c['text'],"design_ref":c['ref']},"level_note":c['note'],"technique":c['technique']})
na=[{"property_id":p['id'],"reason":"check not built yet in this session (planned: see DESIGN.md section 5)"} for p in props if p['id'] not in claims]
m={"version":1,"setup_cmd":"bin/setup",
 "hooks":{"guard":"verif-overlay (no source hooks in /repo: instrumentation is generated from the working tree at check time and injected with go build -overlay)",
          "enable":"bin/check runs mc/instr over /repo's working tree and builds with go build -overlay; /repo is never written",
          "baseline_off_cmd":"cd /repo && go test -mod=mod -json -vet=off -count=1 -timeout 25m ./...","source_commits":[],"add_only":True},
 "engines":[{"name":"E1","path":"mc/vs","serves_properties":sorted(k for k,v in claims.items() if v['engine'].startswith('E1')),"kind_free_text":"controlled scheduler + stateless deviation-bounded DFS / BFS over histories on auto-instrumented frp sources"},
            {"name":"E2","path":"mc/checks/*/e2*","serves_properties":sorted(k for k,v in claims.items() if 'E2' in v['engine']),"kind_free_text":"explicit-state BFS / exhaustive product enumeration on real objects vs reference models"}],
 "checks":checks,"not_applicable":na,
 "notes":"fix commits in /repo are listed in known_findings.json (status fixed)."}
json.dump(m,open('/verif/MANIFEST.json','w'),indent=1)
print("claimed:",sorted(claims))
