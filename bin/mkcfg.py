#!/usr/bin/env python3
# mkcfg.py base.json pkg : instrumentation config = base + all world packages + the check package
import json, os, sys
base = json.load(open(sys.argv[1]))
seen = {p["import"] for p in base["packages"]}
def add(imp):
    if imp not in seen:
        seen.add(imp); base["packages"].append({"import": imp, "nomaps": True})
for d in sorted(os.listdir("/verif/mc/worlds")):
    if os.path.isdir(os.path.join("/verif/mc/worlds", d)):
        add("verif/mc/worlds/" + d)
add(sys.argv[2])
json.dump(base, sys.stdout, indent=1)
