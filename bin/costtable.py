#!/usr/bin/env python3
# Regenerates the table of DESIGN.md section 9 from the evidence files of the last quick run.
import json, glob, re
rows=['| id | part(s) | evaluations / executions | states (sched. points) | wall |','|---|---|---|---|---|']
for f in sorted(glob.glob('/verif/evidence/C??.json')):
    e=json.load(open(f)); c=e['coverage']
    parts=' + '.join(sorted(c.get('parts',{}).keys())) or '-'
    ev=c.get('evaluations',0); st=c.get('states',0)
    def h(n):
        return f"{n/1e6:.1f} M" if n>=1e6 else (f"{n/1e3:.1f} k" if n>=1e3 else str(n))
    rows.append(f"| {e['property_id']} | {parts} | {h(ev)} | {h(st) if st else '–'} | {e['wall_s']:.0f} s |")
md='\n'.join(rows)
p='/verif/DESIGN.md'; s=open(p).read()
s=re.sub(r'\| id \| part\(s\) \| evaluations / executions \|.*?\n\n', md.replace('\\','\\\\')+'\n\n', s, count=1, flags=re.S)
open(p,'w').write(s)
print(md)
