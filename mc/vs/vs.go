// Package vs is the explorer runtime: a cooperative controlled scheduler for
// goroutines of instrumented code ("managed threads"), a virtual clock, and a
// stateless deviation-bounded depth-first search over scheduling choices.
//
// Exactly one managed thread executes user code at a time. Every blocking or
// synchronising operation of instrumented code is a *point*: the thread
// publishes the operation it is about to perform and parks; when no thread is
// running the scheduler builds the menu of enabled alternatives (from its own
// model of locks / channels / timers / virtual sockets), picks one (replaying a
// prefix of recorded choices, then always choice 0), and releases that thread,
// which then performs the real operation, guaranteed not to block.
//
// When no execution is active, or the calling goroutine is not a managed
// thread, every operation passes through to the plain Go primitive.
package vs

import (
	"fmt"
	"os"
	"strconv"
	"hash/fnv"
	"runtime"
	"sort"
	"strings"
	"sync"
	"sync/atomic"
	"time"
)

type OpKind uint8

const (
	OpStart OpKind = iota
	OpResume
	OpYield
	OpBlock // enabled iff pred()
	OpChan  // send / recv / select
	OpChoose
	OpFault // always enabled, never default, never fired at quiescence
)

var opNames = [...]string{"start", "resume", "yield", "block", "chan", "choose", "fault"}

type chanCase struct {
	send  bool
	id    uintptr // 0 = nil channel: never ready
	lenf  func() int
	capn  int
	probe func() bool // recv side: non-destructive "is closed" probe
	keep  any
}

type op struct {
	kind       OpKind
	cases      []chanCase
	hasDefault bool
	pred       func() bool
	n          int
	quiesce    bool
	what       string // short description for traces ("lock", "recv", "accept", …)
}

const (
	tsParked = iota
	tsRunning
	tsDone
)

// Thread is one managed goroutine.
type Thread struct {
	ID      int
	Name    string
	x       *Exec
	wake    chan struct{}
	st      int
	op      op
	alt     int
	passive bool
	parkSeq int
	Daemon  bool // expected to be parked forever at the end of an execution
	vc      VC
	Panic   any
	PanicSt string
	gid     int64
	noPre   bool
}

type entryKind uint8

const (
	eThread entryKind = iota
	eTick
)

type entry struct {
	kind       entryKind
	t          *Thread
	alt        int
	partner    *Thread
	partnerAlt int
	fault      bool
}

// PointRec describes one scheduling decision of an execution.
type PointRec struct {
	N      int // number of alternatives that may be branched on (1 outside the region of interest)
	Chosen int
	Desc   string // only filled when tracing
}

type Dev struct {
	Pos    int `json:"p"`
	Choice int `json:"c"`
}

type timer struct {
	when  time.Duration
	seq   int
	fire  func()
	dead  bool
	index int
}

// Exec is one execution (one run of the scenario under one choice sequence).
type Exec struct {
	mu       sync.Mutex
	threads  []*Thread
	byGid    map[int64]*Thread
	nrunning int
	current  *Thread
	parkCtr  int

	devs    []Dev
	devIdx  int
	Points  []PointRec
	sigHash uint32
	schedGid atomic.Int64
	sigs    []uint32
	wantSig uint32 // expected signature hash at the last deviation (0 = unchecked)

	interest bool
	trace    bool
	TraceLog []string

	now      time.Duration // virtual time since Epoch
	timers   []*timer
	timerSeq int
	Horizon  time.Duration
	NoEarlyTick bool // timers fire only when no thread is enabled
	Policy   int  // default order of the other threads: 0 = oldest first, 1 = newest first

	closed   map[uintptr]any
	chanVC   map[uintptr]VC
	MaxSteps int

	done     chan struct{}
	ended    bool
	EndWhy   string
	HarnessE string // harness/nondeterminism error (never a property violation)

	Obs     []string // observation trace recorded by the harness
	Fails   []string // property violations recorded by harness oracles
	Races   []string // happens-before detector reports
	Data    any      // harness world
	nextObj int
	ptrIDs  map[uintptr]int
	maps    map[uintptr]*mapState
	Steps   int
}

// Epoch is the wall-clock instant corresponding to virtual time 0.
var Epoch = time.Date(2030, 1, 1, 0, 0, 0, 0, time.UTC)

var cur atomic.Pointer[Exec]

// Active reports whether an execution is in progress.
func Active() bool { return cur.Load() != nil }

// Cur returns the active execution (nil if none).
func Cur() *Exec { return cur.Load() }

func goid() int64 {
	var buf [40]byte
	n := runtime.Stack(buf[:], false)
	// "goroutine 123 ["
	var id int64
	for i := 10; i < n; i++ {
		c := buf[i]
		if c < '0' || c > '9' {
			break
		}
		id = id*10 + int64(c-'0')
	}
	return id
}

// Me returns the managed thread of the calling goroutine, or nil.
func Me() *Thread {
	x := cur.Load()
	if x == nil {
		return nil
	}
	g := goid()
	x.mu.Lock()
	t := x.byGid[g]
	x.mu.Unlock()
	return t
}

func (x *Exec) newThread(name string, parent *Thread) *Thread {
	t := &Thread{ID: len(x.threads), Name: name, x: x, wake: make(chan struct{}, 1), st: tsParked, op: op{kind: OpStart, what: "start"}}
	x.parkCtr++
	t.parkSeq = x.parkCtr
	if parent != nil {
		t.vc = parent.vc.clone()
		parent.vc.tick(parent.ID)
		t.noPre = parent.noPre
	}
	t.vc.tick(t.ID)
	x.threads = append(x.threads, t)
	return t
}

func (x *Exec) startThread(t *Thread, f func()) {
	ready := make(chan struct{})
	go func() {
		g := goid()
		x.mu.Lock()
		x.byGid[g] = t
		t.gid = g
		x.mu.Unlock()
		close(ready)
		<-t.wake
		defer func() {
			if r := recover(); r != nil {
				t.Panic = r
				buf := make([]byte, 16<<10)
				t.PanicSt = string(buf[:runtime.Stack(buf, false)])
			}
			x.mu.Lock()
			t.st = tsDone
			delete(x.byGid, g)
			x.nrunning--
			if x.nrunning == 0 {
				x.schedule()
			}
			x.mu.Unlock()
		}()
		f()
	}()
	<-ready
}

// Go starts f as a managed thread when called from a managed thread, else as a plain goroutine.
func Go(f func()) { GoNamed("", f) }

func GoNamed(name string, f func()) *Thread {
	me := Me()
	if me == nil {
		go f()
		return nil
	}
	x := me.x
	if name == "" {
		name = callerName(3)
	}
	x.mu.Lock()
	t := x.newThread(name, me)
	x.mu.Unlock()
	x.startThread(t, f)
	return t
}

func callerName(skip int) string {
	pc, file, line, ok := runtime.Caller(skip)
	if !ok {
		return "?"
	}
	fn := runtime.FuncForPC(pc)
	name := "?"
	if fn != nil {
		name = fn.Name()
		if i := strings.LastIndex(name, "/"); i >= 0 {
			name = name[i+1:]
		}
	}
	if i := strings.LastIndex(file, "/"); i >= 0 {
		file = file[i+1:]
	}
	return fmt.Sprintf("%s@%s:%d", name, file, line)
}

// point parks the calling thread on o and returns the alternative chosen for it.
func (x *Exec) point(t *Thread, o op) int {
	if g := x.schedGid.Load(); g != 0 && g == goid() {
		panic("vs: blocking operation inside a scheduler predicate (Block/BlockOrIdle predicates must not lock, sleep or do I/O): " + o.what)
	}
	x.mu.Lock()
	t.op = o
	t.st = tsParked
	x.parkCtr++
	t.parkSeq = x.parkCtr
	x.nrunning--
	if x.nrunning == 0 {
		x.schedule()
	}
	x.mu.Unlock()
	<-t.wake
	return t.alt
}

func (x *Exec) altsOf(t *Thread, out []entry) []entry {
	o := &t.op
	switch o.kind {
	case OpStart, OpResume, OpYield:
		out = append(out, entry{t: t})
	case OpBlock:
		if o.pred() {
			out = append(out, entry{t: t})
		}
	case OpChoose:
		for i := 0; i < o.n; i++ {
			out = append(out, entry{t: t, alt: i})
		}
	case OpFault:
		out = append(out, entry{t: t, fault: true})
	case OpChan:
		n0 := len(out)
		for j := range o.cases {
			c := &o.cases[j]
			if c.id == 0 {
				continue
			}
			if c.send {
				if x.isClosed(c) || c.lenf() < c.capn {
					out = append(out, entry{t: t, alt: j})
				} else if p, pj := x.findPartner(t, c.id, false); p != nil {
					out = append(out, entry{t: t, alt: j, partner: p, partnerAlt: pj})
				}
			} else {
				if c.lenf() > 0 || x.isClosed(c) {
					out = append(out, entry{t: t, alt: j})
				} else if p, pj := x.findPartner(t, c.id, true); p != nil {
					out = append(out, entry{t: t, alt: j, partner: p, partnerAlt: pj})
				}
			}
		}
		if len(out) == n0 && o.hasDefault {
			out = append(out, entry{t: t, alt: -1})
		}
	}
	return out
}

func (x *Exec) isClosed(c *chanCase) bool {
	if _, ok := x.closed[c.id]; ok {
		return true
	}
	if c.probe != nil && c.lenf() == 0 && c.probe() {
		x.closed[c.id] = c.keep
		return true
	}
	return false
}

// findPartner returns the earliest-parked other thread with a pending case of
// the opposite direction on channel id.
func (x *Exec) findPartner(self *Thread, id uintptr, wantSend bool) (*Thread, int) {
	var best *Thread
	bj := 0
	for _, p := range x.threads {
		if p == self || p.st != tsParked || p.op.kind != OpChan {
			continue
		}
		for j := range p.op.cases {
			c := &p.op.cases[j]
			if c.id == id && c.send == wantSend {
				if best == nil || p.parkSeq < best.parkSeq {
					best, bj = p, j
				}
				break
			}
		}
	}
	return best, bj
}

func (x *Exec) buildMenu() []entry {
	var menu []entry
	c := x.current
	if c != nil && c.st == tsParked {
		menu = x.altsOf(c, menu)
	}
	var faults []entry
	for i := range x.threads {
		t := x.threads[i]
		if x.Policy == 1 { // newest thread first
			t = x.threads[len(x.threads)-1-i]
		}
		if t == c || t.st != tsParked {
			continue
		}
		n0 := len(menu)
		menu = x.altsOf(t, menu)
		if len(menu) > n0 && menu[n0].fault {
			faults = append(faults, menu[n0:]...)
			menu = menu[:n0]
		}
	}
	if c != nil && len(menu) > 0 && menu[0].fault {
		faults = append(faults, menu[0])
		menu = menu[1:]
	}
	if tm := x.nextTimer(); tm != nil && (x.Horizon == 0 || tm.when <= x.Horizon) && (len(menu) == 0 || !x.NoEarlyTick) {
		menu = append(menu, entry{kind: eTick})
	}
	if len(menu) == 0 {
		return nil // quiescent: faults alone never fire
	}
	return append(menu, faults...)
}

func (x *Exec) nextTimer() *timer {
	var best *timer
	for _, tm := range x.timers {
		if tm.dead {
			continue
		}
		if best == nil || tm.when < best.when || (tm.when == best.when && tm.seq < best.seq) {
			best = tm
		}
	}
	return best
}

func (x *Exec) gcTimers() {
	if len(x.timers) < 64 {
		return
	}
	j := 0
	for _, tm := range x.timers {
		if !tm.dead {
			x.timers[j] = tm
			j++
		}
	}
	x.timers = x.timers[:j]
}

func (e *entry) sig() uint32 {
	if e.kind == eTick {
		return 0xfffe
	}
	return uint32(e.t.ID)<<8 | uint32(e.t.op.kind)<<4 | uint32(e.alt+1)&0xf
}

func (x *Exec) descEntry(e *entry) string {
	if e.kind == eTick {
		tm := x.nextTimer()
		return fmt.Sprintf("tick->%v", tm.when)
	}
	s := fmt.Sprintf("T%d(%s) %s", e.t.ID, e.t.Name, e.t.op.what)
	if e.t.op.kind == OpChan || e.t.op.kind == OpChoose {
		s += fmt.Sprintf("#%d", e.alt)
	}
	if e.partner != nil {
		s += fmt.Sprintf(" <-> T%d", e.partner.ID)
	}
	if e.fault {
		s += " [fault]"
	}
	return s
}

// schedule is called with x.mu held and no thread running.
func (x *Exec) schedule() {
	x.schedGid.Store(goid())
	defer x.schedGid.Store(0)
	for {
		if x.ended {
			return
		}
		menu := x.buildMenu()
		if len(menu) == 0 {
			x.finish("quiescent")
			return
		}
		if x.MaxSteps > 0 && len(x.Points) >= x.MaxSteps {
			x.finish("steplimit")
			return
		}
		i := len(x.Points)
		idx := 0
		if x.devIdx < len(x.devs) && x.devs[x.devIdx].Pos == i {
			idx = x.devs[x.devIdx].Choice
			x.devIdx++
			if idx >= len(menu) {
				x.HarnessE = fmt.Sprintf("nondeterminism leak: replayed choice %d at point %d but menu has %d entries", idx, i, len(menu))
				x.finish("leak")
				return
			}
			if x.devIdx == len(x.devs) && x.wantSig != 0 {
				if x.sigAt(menu) != x.wantSig {
					x.HarnessE = fmt.Sprintf("nondeterminism leak: menu signature differs at point %d", i)
					x.finish("leak")
					return
				}
			}
		}
		h := x.sigHash
		for k := range menu {
			h = h*16777619 ^ menu[k].sig()
		}
		x.sigHash = h
		if h == 0 {
			h = 1
		}
		x.sigs = append(x.sigs, h)
		e := &menu[idx]
		n := 1
		if x.interest {
			n = len(menu)
			if x.current != nil && x.current.noPre && x.current.st == tsParked && len(menu) > 0 && menu[0].t == x.current {
				n = 1
			}
		}
		pr := PointRec{N: n, Chosen: idx}
		if x.trace {
			pr.Desc = x.descEntry(e)
			var all []string
			for k := range menu {
				all = append(all, x.descEntry(&menu[k]))
			}
			x.TraceLog = append(x.TraceLog, fmt.Sprintf("%4d t=%v choose %d/%d: %s   {%s}", i, x.now, idx, len(menu), pr.Desc, strings.Join(all, " | ")))
		}
		x.Points = append(x.Points, pr)
		if e.kind == eTick {
			tm := x.nextTimer()
			if tm.when > x.now {
				x.now = tm.when
			}
			tm.dead = true
			x.gcTimers()
			if tm.fire != nil {
				tm.fire()
			}
			continue
		}
		x.commit(e)
		return
	}
}

// SigAtNext is used by the explorer: signature of the menu at a point, for leak detection.
func (x *Exec) sigAt(menu []entry) uint32 {
	h := x.sigHash
	for k := range menu {
		h = h*16777619 ^ menu[k].sig()
	}
	if h == 0 {
		h = 1
	}
	return h
}

func (x *Exec) commit(e *entry) {
	t := e.t
	t.alt = e.alt
	t.st = tsRunning
	x.nrunning++
	x.current = t
	if p := e.partner; p != nil {
		// unbuffered rendezvous: both sides perform their native operation now.
		p.alt = e.partnerAlt
		p.passive = true
		p.st = tsRunning
		x.nrunning++
		// synchronises in both directions
		t.vc.join(p.vc)
		p.vc.join(t.vc)
		t.vc.tick(t.ID)
		p.vc.tick(p.ID)
		p.wake <- struct{}{}
	}
	t.wake <- struct{}{}
}

func (x *Exec) finish(why string) {
	if x.ended {
		return
	}
	x.ended = true
	x.EndWhy = why
	close(x.done)
}

// ---- public operations used by shims and harnesses ----

// Block parks the calling managed thread until pred() holds (evaluated by the
// scheduler while no thread runs). In pass-through mode it panics: shims must
// handle that mode themselves.
func Block(what string, pred func() bool) {
	t := Me()
	if t == nil {
		panic("vs.Block outside a managed thread: " + what)
	}
	t.x.point(t, op{kind: OpBlock, pred: pred, what: what})
}

// BlockT is Block for callers that already hold the thread.
func (t *Thread) Block(what string, pred func() bool) {
	t.x.point(t, op{kind: OpBlock, pred: pred, what: what})
}

func (t *Thread) Exec() *Exec { return t.x }

// Quiesce parks the calling thread until no other thread can make progress
// (timers are not considered): a deterministic "setup finished" barrier.
func Quiesce(what string) {
	t := Me()
	if t == nil {
		return
	}
	x := t.x
	x.point(t, op{kind: OpBlock, what: what, quiesce: true, pred: func() bool { return x.othersDisabled(t) }})
}

func (x *Exec) othersDisabled(me *Thread) bool {
	var tmp []entry
	for _, t := range x.threads {
		if t == me || t.st != tsParked || t.op.quiesce || t.op.kind == OpFault {
			continue
		}
		tmp = x.altsOf(t, tmp[:0])
		if len(tmp) > 0 {
			return false
		}
	}
	return true
}

// BlockOrIdle parks until pred() holds or the system is idle: no other thread can make progress
// and no timer is pending before the horizon. It reports whether pred() held.
func BlockOrIdle(what string, pred func() bool) bool {
	t := Me()
	if t == nil {
		return pred()
	}
	x := t.x
	x.point(t, op{kind: OpBlock, what: what, quiesce: true, pred: func() bool {
		if pred() {
			return true
		}
		if tm := x.nextTimer(); tm != nil && (x.Horizon == 0 || tm.when <= x.Horizon) {
			return false
		}
		return x.othersDisabled(t)
	}})
	return pred()
}

// BlockFor parks until pred() holds or d of virtual time has passed. It reports whether pred() held.
func BlockFor(what string, d time.Duration, pred func() bool) bool {
	t := Me()
	if t == nil {
		return pred()
	}
	x := t.x
	deadline := x.now + d
	tm := x.AddTimer(d, nil)
	x.point(t, op{kind: OpBlock, what: what, pred: func() bool { return pred() || x.now >= deadline }})
	x.StopTimer(tm)
	return pred()
}

// Yield is a pure scheduling point.
func Yield() {
	if t := Me(); t != nil {
		t.x.point(t, op{kind: OpYield, what: "yield"})
	}
}

// Choose is an environment choice point with n alternatives; 0 is the default.
func Choose(what string, n int) int {
	t := Me()
	if t == nil || n <= 1 {
		return 0
	}
	return t.x.point(t, op{kind: OpChoose, n: n, what: what})
}

// Fault parks the calling thread until the explorer decides to inject the
// fault (always a deviation; never fired by default nor at quiescence).
func Fault(what string) {
	t := Me()
	if t == nil {
		panic("vs.Fault outside a managed thread")
	}
	t.x.point(t, op{kind: OpFault, what: "fault:" + what})
}

// Post is called after the native channel operation of a rewritten send or
// select case: the passive side of a rendezvous re-parks here.
func Post() {
	t := Me()
	if t == nil || !t.passive {
		return
	}
	t.passive = false
	t.x.point(t, op{kind: OpResume, what: "resume"})
}

func (t *Thread) post() {
	if !t.passive {
		return
	}
	t.passive = false
	t.x.point(t, op{kind: OpResume, what: "resume"})
}

// SetInterest switches branching on/off (scheduling stays controlled either way).
func SetInterest(on bool) {
	if x := cur.Load(); x != nil {
		x.mu.Lock()
		x.interest = on
		x.mu.Unlock()
	}
}

// NoPreempt marks the calling thread (and threads it spawns later) as not
// preemptible: points where it is the running thread and still enabled are not branched on.
func NoPreempt(on bool) {
	if t := Me(); t != nil {
		t.noPre = on
	}
}

// SetDaemon marks the calling thread as an expected forever-parked thread.
func SetDaemon() {
	if t := Me(); t != nil {
		t.Daemon = true
	}
}

// Observe appends to the observation trace of the active execution.
func Observe(format string, a ...any) {
	if x := cur.Load(); x != nil {
		s := fmt.Sprintf(format, a...)
		x.mu.Lock()
		x.Obs = append(x.Obs, s)
		if x.trace {
			x.TraceLog = append(x.TraceLog, "       obs: "+s)
		}
		x.mu.Unlock()
	}
}

// Fail records a property violation found by a harness oracle during the execution.
func Fail(format string, a ...any) {
	if x := cur.Load(); x != nil {
		s := fmt.Sprintf(format, a...)
		x.mu.Lock()
		x.Fails = append(x.Fails, s)
		if x.trace {
			x.TraceLog = append(x.TraceLog, "       FAIL: "+s)
		}
		x.mu.Unlock()
	}
}

// Now returns the virtual time offset.
func (x *Exec) Now() time.Duration { return x.now }

// AddTimer registers a virtual timer. fire runs in scheduler context (no thread running).
func (x *Exec) AddTimer(d time.Duration, fire func()) *timer {
	if d < 0 {
		d = 0
	}
	x.timerSeq++
	tm := &timer{when: x.now + d, seq: x.timerSeq, fire: fire}
	x.timers = append(x.timers, tm)
	return tm
}

// StopTimer cancels; reports whether it was still pending.
func (x *Exec) StopTimer(tm *timer) bool {
	if tm == nil || tm.dead {
		return false
	}
	tm.dead = true
	return true
}

type Timer = timer

// SpawnFromScheduler creates a managed thread from scheduler context (timer fire functions).
func (x *Exec) SpawnFromScheduler(name string, f func()) {
	t := x.newThread(name, nil)
	x.mu.Unlock()
	x.startThread(t, f)
	x.mu.Lock()
}

// ObjID hands out small deterministic ids for world objects.
func (x *Exec) ObjID() int { x.nextObj++; return x.nextObj }

// Stuck lists threads that are parked at the end and are not daemons.
func (x *Exec) Stuck() []*Thread {
	var out []*Thread
	for _, t := range x.threads {
		if t.st == tsParked && !t.Daemon && t.op.kind != OpFault {
			out = append(out, t)
		}
	}
	return out
}

func (x *Exec) Threads() []*Thread { return x.threads }

func (t *Thread) Pending() string {
	if t.st == tsDone {
		return "done"
	}
	return opNames[t.op.kind] + ":" + t.op.what
}

// Panics lists unrecovered panics of managed threads.
func (x *Exec) Panics() []*Thread {
	var out []*Thread
	for _, t := range x.threads {
		if t.Panic != nil {
			out = append(out, t)
		}
	}
	return out
}

func (x *Exec) ObsHash() uint64 {
	h := fnv.New64a()
	for _, s := range x.Obs {
		h.Write([]byte(s))
		h.Write([]byte{0})
	}
	return h.Sum64()
}

// ---- running one execution ----

type RunOpts struct {
	Devs     []Dev
	WantSig  uint32
	Trace    bool
	Horizon  time.Duration
	MaxSteps int
	Watchdog time.Duration
	NoEarlyTick bool
	Policy   int
}

// RunOne executes body as thread 0 under the given deviations.
func RunOne(o RunOpts, body func(x *Exec)) *Exec {
	x := &Exec{
		byGid: map[int64]*Thread{}, devs: o.Devs, wantSig: o.WantSig, trace: o.Trace, Horizon: o.Horizon,
		closed: map[uintptr]any{}, chanVC: map[uintptr]VC{}, done: make(chan struct{}), MaxSteps: o.MaxSteps,
		maps: map[uintptr]*mapState{}, interest: false, NoEarlyTick: o.NoEarlyTick, Policy: o.Policy,
	}
	if x.MaxSteps == 0 {
		x.MaxSteps = 200000
	}
	if !cur.CompareAndSwap(nil, x) {
		panic("vs: an execution is already active in this process")
	}
	x.mu.Lock()
	t0 := x.newThread("main", nil)
	x.mu.Unlock()
	x.startThread(t0, func() { body(x) })
	x.mu.Lock()
	x.schedule()
	x.mu.Unlock()
	wd := o.Watchdog
	if wd == 0 {
		wd = 20 * time.Second
	}
	if e := os.Getenv("VS_WATCHDOG_S"); e != "" {
		if n, err := strconv.Atoi(e); err == nil {
			wd = time.Duration(n) * time.Second
		}
	}
	select {
	case <-x.done:
	case <-time.After(wd):
		buf := make([]byte, 1<<20)
		n := runtime.Stack(buf, true)
		x.mu.Lock()
		x.HarnessE = "watchdog: a managed thread blocked outside a gate (uninstrumented blocking call?)\n" + filterStacks(string(buf[:n]))
		x.ended = true
		x.EndWhy = "watchdog"
		x.mu.Unlock()
	}
	x.Steps = len(x.Points)
	cur.Store(nil)
	return x
}

func filterStacks(s string) string {
	parts := strings.Split(s, "\n\n")
	var keep []string
	for _, p := range parts {
		if strings.Contains(p, "vs.(*Exec).point") || strings.Contains(p, "vs.(*Exec).startThread") || strings.Contains(p, "vs.RunOne") {
			continue
		}
		keep = append(keep, p)
	}
	sort.Strings(keep)
	if len(keep) > 12 {
		keep = keep[:12]
	}
	return strings.Join(keep, "\n\n")
}
