package vs

import (
	"fmt"
	"reflect"
	"runtime"
	"strings"
)

// VC is a vector clock indexed by thread id.
type VC []uint32

func (v VC) clone() VC { return append(VC(nil), v...) }

func (v *VC) tick(id int) {
	for len(*v) <= id {
		*v = append(*v, 0)
	}
	(*v)[id]++
}

func (v *VC) join(o VC) {
	for len(*v) < len(o) {
		*v = append(*v, 0)
	}
	for i, c := range o {
		if c > (*v)[i] {
			(*v)[i] = c
		}
	}
}

func (v VC) at(i int) uint32 {
	if i < len(v) {
		return v[i]
	}
	return 0
}

// leq reports whether the epoch (tid, c) happened-before-or-equals clock v.
func (v VC) covers(tid int, c uint32) bool { return c <= v.at(tid) }

// SyncObj is embedded by shim objects (mutexes, wait groups, …) to carry a clock.
type SyncObj struct{ vc VC }

// Release publishes the calling thread's clock on the object.
func (s *SyncObj) Release(t *Thread) {
	s.vc.join(t.vc)
	t.vc.tick(t.ID)
}

// Acquire joins the object's clock into the thread's.
func (s *SyncObj) Acquire(t *Thread) { t.vc.join(s.vc) }

func (s *SyncObj) Reset() { s.vc = nil }

type mapState struct {
	keep    any
	wTid    int
	wClk    uint32
	wLoc    string
	hasW    bool
	readers map[int]readEpoch
}

type readEpoch struct {
	clk uint32
	loc string
}

func loc(skip int) string {
	var pcs [6]uintptr
	n := runtime.Callers(skip, pcs[:])
	fr := runtime.CallersFrames(pcs[:n])
	var parts []string
	for {
		f, more := fr.Next()
		file := f.File
		if i := strings.LastIndex(file, "/"); i >= 0 {
			file = file[i+1:]
		}
		fn := f.Function
		if i := strings.LastIndex(fn, "/"); i >= 0 {
			fn = fn[i+1:]
		}
		parts = append(parts, fmt.Sprintf("%s(%s:%d)", fn, file, f.Line))
		if !more || len(parts) >= 3 {
			break
		}
	}
	return strings.Join(parts, " < ")
}

func (x *Exec) mapAccess(t *Thread, m any, write bool) {
	rv := reflect.ValueOf(m)
	if rv.Kind() != reflect.Map || rv.IsNil() {
		return
	}
	id := rv.Pointer()
	ms := x.maps[id]
	if ms == nil {
		ms = &mapState{keep: m, readers: map[int]readEpoch{}}
		x.maps[id] = ms
	}
	here := ""
	// conflicting earlier write?
	if ms.hasW && ms.wTid != t.ID && !t.vc.covers(ms.wTid, ms.wClk) {
		here = loc(4)
		x.Races = append(x.Races, fmt.Sprintf("unsynchronised map access: %s by T%d at %s  ||  write by T%d at %s",
			rw(write), t.ID, here, ms.wTid, ms.wLoc))
	}
	if write {
		for rt, re := range ms.readers {
			if rt != t.ID && !t.vc.covers(rt, re.clk) {
				if here == "" {
					here = loc(4)
				}
				x.Races = append(x.Races, fmt.Sprintf("unsynchronised map access: write by T%d at %s  ||  read by T%d at %s", t.ID, here, rt, re.loc))
			}
		}
		ms.hasW, ms.wTid, ms.wClk = true, t.ID, t.vc.at(t.ID)
		ms.wLoc = loc(4)
		ms.readers = map[int]readEpoch{}
	} else {
		ms.readers[t.ID] = readEpoch{clk: t.vc.at(t.ID), loc: loc(4)}
	}
}

func rw(w bool) string {
	if w {
		return "write"
	}
	return "read"
}

// MR marks a read of struct-field map m (rewritten `m[k]`, len(m), range m).
func MR[M any](m M) M {
	if t := Me(); t != nil {
		t.x.mapAccess(t, m, false)
	}
	return m
}

// MW marks a write of struct-field map m (rewritten `m[k] = v`, delete(m, k)).
func MW[M any](m M) M {
	if t := Me(); t != nil {
		t.x.mapAccess(t, m, true)
	}
	return m
}
