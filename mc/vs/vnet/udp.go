package vnet

import (
	"errors"
	"fmt"
	"net"
	"strconv"
	"time"

	"verif/mc/vs"
	"verif/mc/vs/vtime"
)

type Dgram struct {
	From *UDPAddr
	Data []byte
}

// UDPConn is a virtual UDP socket (replaces *net.UDPConn in instrumented code).
type UDPConn struct {
	h      *Host
	ID     int
	local  *UDPAddr
	remote *UDPAddr // non-nil for connected sockets
	inbox  []Dgram
	closed bool
	rdl    time.Time
	rtm    *vs.Timer
	Sent   int
	Rcvd   int
	Tag    string
	// Drop, when set, decides whether a datagram sent *to* this socket is lost.
	Drop func(d Dgram) bool
}

func ListenUDP(network string, laddr *UDPAddr) (*UDPConn, error) {
	h := curHost()
	if h == nil {
		return nil, errors.New("vnet: ListenUDP outside an execution")
	}
	if laddr == nil {
		laddr = &UDPAddr{IP: net.IPv4zero}
	}
	return h.listenUDP(laddr.IP, laddr.Port)
}

func ListenPacket(network, address string) (PacketConn, error) {
	a, err := ResolveUDPAddr(network, address)
	if err != nil {
		return nil, err
	}
	return ListenUDP(network, a)
}

func (h *Host) listenUDP(ip IP, port int) (*UDPConn, error) {
	envPoint()
	if port == 0 {
		for {
			port = h.nextEph
			h.nextEph++
			if h.udp[port] == nil && !h.squat["udp:"+strconv.Itoa(port)] {
				break
			}
		}
	}
	a := &UDPAddr{IP: ip, Port: port}
	key := "udp:" + strconv.Itoa(port)
	if h.injected(key) {
		return nil, addrInUse("listen", "udp", a)
	}
	if h.udp[port] != nil || h.squat[key] {
		return nil, addrInUse("listen", "udp", a)
	}
	c := &UDPConn{h: h, ID: h.x.ObjID(), local: a}
	h.udp[port] = c
	h.UDPs = append(h.UDPs, c)
	h.ListenLog = append(h.ListenLog, fmt.Sprintf("listen udp %d", port))
	return c, nil
}

// UDPFrom creates a socket bound to an explicit source address (harness side: users with distinct addresses).
func (h *Host) UDPFrom(src string) (*UDPConn, error) {
	a, err := ResolveUDPAddr("udp", src)
	if err != nil {
		return nil, err
	}
	return h.listenUDP(a.IP, a.Port)
}

func DialUDP(network string, laddr, raddr *UDPAddr) (*UDPConn, error) {
	h := curHost()
	if h == nil {
		return nil, errors.New("vnet: DialUDP outside an execution")
	}
	ip, port := IP(net.IPv4(127, 0, 0, 1)), 0
	if laddr != nil {
		ip, port = laddr.IP, laddr.Port
	}
	c, err := h.listenUDP(ip, port)
	if err != nil {
		return nil, err
	}
	r := *raddr
	if r.IP == nil || r.IP.IsUnspecified() {
		r.IP = net.IPv4(127, 0, 0, 1)
	}
	c.remote = &r
	return c, nil
}

func (c *UDPConn) deliver(to *UDPAddr, b []byte) {
	dst := c.h.udp[to.Port]
	c.Sent++
	if dst == nil || dst.closed {
		return
	}
	from := &UDPAddr{IP: c.local.IP, Port: c.local.Port}
	if from.IP == nil || from.IP.IsUnspecified() {
		from.IP = net.IPv4(127, 0, 0, 1)
	}
	if dst.remote != nil && dst.remote.Port != from.Port {
		return // connected socket filters by peer
	}
	d := Dgram{From: from, Data: append([]byte(nil), b...)}
	if dst.Drop != nil && dst.Drop(d) {
		return
	}
	dst.inbox = append(dst.inbox, d)
}

func (c *UDPConn) wait() error {
	ready := func() bool {
		return c.closed || len(c.inbox) > 0 || (!c.rdl.IsZero() && !vtime.VNow(c.h.x).Before(c.rdl))
	}
	if t := vs.Me(); t != nil {
		t.Block("udpread", ready)
	} else if !ready() {
		return errors.New("vnet: UDP read would block outside a managed thread")
	}
	if c.closed {
		return &net.OpError{Op: "read", Net: "udp", Addr: c.local, Err: net.ErrClosed}
	}
	if len(c.inbox) == 0 {
		return &net.OpError{Op: "read", Net: "udp", Addr: c.local, Err: timeoutErr{}}
	}
	return nil
}

func (c *UDPConn) ReadFromUDP(b []byte) (int, *UDPAddr, error) {
	if err := c.wait(); err != nil {
		return 0, nil, err
	}
	d := c.inbox[0]
	c.inbox = c.inbox[1:]
	c.Rcvd++
	n := copy(b, d.Data) // excess is discarded, like a real datagram socket
	return n, d.From, nil
}

func (c *UDPConn) ReadFrom(b []byte) (int, Addr, error) {
	n, a, err := c.ReadFromUDP(b)
	if a == nil {
		return n, nil, err
	}
	return n, a, err
}

func (c *UDPConn) Read(b []byte) (int, error) {
	n, _, err := c.ReadFromUDP(b)
	return n, err
}

func (c *UDPConn) WriteToUDP(b []byte, addr *UDPAddr) (int, error) {
	if c.closed {
		return 0, &net.OpError{Op: "write", Net: "udp", Addr: c.local, Err: net.ErrClosed}
	}
	if addr == nil {
		return 0, &net.OpError{Op: "write", Net: "udp", Addr: c.local, Err: errors.New("missing address")}
	}
	c.deliver(addr, b)
	return len(b), nil
}

func (c *UDPConn) WriteTo(b []byte, addr Addr) (int, error) {
	ua, ok := addr.(*UDPAddr)
	if !ok {
		return 0, errors.New("vnet: WriteTo needs *UDPAddr")
	}
	return c.WriteToUDP(b, ua)
}

func (c *UDPConn) Write(b []byte) (int, error) {
	if c.remote == nil {
		return 0, &net.OpError{Op: "write", Net: "udp", Addr: c.local, Err: errors.New("destination address required")}
	}
	return c.WriteToUDP(b, c.remote)
}

func (c *UDPConn) Close() error {
	envPoint()
	if c.closed {
		return &net.OpError{Op: "close", Net: "udp", Addr: c.local, Err: net.ErrClosed}
	}
	c.closed = true
	if c.h.udp[c.local.Port] == c {
		delete(c.h.udp, c.local.Port)
	}
	c.h.ListenLog = append(c.h.ListenLog, fmt.Sprintf("close udp %d", c.local.Port))
	return nil
}

func (c *UDPConn) LocalAddr() Addr {
	return c.local
}
func (c *UDPConn) RemoteAddr() Addr {
	if c.remote == nil {
		return nil
	}
	return c.remote
}
func (c *UDPConn) wake(t time.Time) {
	if c.rtm != nil {
		c.h.x.StopTimer(c.rtm)
		c.rtm = nil
	}
	if !t.IsZero() {
		if d := t.Sub(vtime.VNow(c.h.x)); d > 0 {
			c.rtm = c.h.x.AddTimer(d, nil)
		}
	}
}
func (c *UDPConn) SetDeadline(t time.Time) error      { c.rdl = t; c.wake(t); return nil }
func (c *UDPConn) SetReadDeadline(t time.Time) error  { c.rdl = t; c.wake(t); return nil }
func (c *UDPConn) SetWriteDeadline(t time.Time) error { return nil }
func (c *UDPConn) SetReadBuffer(int) error            { return nil }
func (c *UDPConn) SetWriteBuffer(int) error           { return nil }
func (c *UDPConn) IsClosed() bool                     { return c.closed }
func (c *UDPConn) Inbox() int                         { return len(c.inbox) }
