// Package vnet is the drop-in replacement for "net" in instrumented code: a
// per-execution virtual host with a port table, in-memory TCP streams and UDP
// sockets whose blocking calls are scheduler-visible. It is the ground truth
// for "what is really bound / still open".
package vnet

import (
	"context"
	"errors"
	"fmt"
	"io"
	"net"
	"os"
	"runtime"
	"sort"
	"strconv"
	"sync"
	"syscall"
	"time"

	"verif/mc/vs"
	"verif/mc/vs/vtime"
)

type (
	Conn       = net.Conn
	Listener   = net.Listener
	Addr       = net.Addr
	TCPAddr    = net.TCPAddr
	UDPAddr    = net.UDPAddr
	UnixAddr   = net.UnixAddr
	IP         = net.IP
	IPNet      = net.IPNet
	IPMask     = net.IPMask
	OpError    = net.OpError
	Error      = net.Error
	PacketConn = net.PacketConn
	Interface  = net.Interface
	Resolver   = net.Resolver
	TCPConn    = net.TCPConn
	AddrError  = net.AddrError
)

// DebugDial logs the stack of refused dials as observations.
var DebugDial = false

var (
	DefaultResolver = net.DefaultResolver
	ErrClosed       = net.ErrClosed
	IPv4zero        = net.IPv4zero
)

func JoinHostPort(h, p string) string                  { return net.JoinHostPort(h, p) }
func SplitHostPort(hp string) (string, string, error)  { return net.SplitHostPort(hp) }
func ParseIP(s string) IP                              { return net.ParseIP(s) }
func ParseCIDR(s string) (IP, *IPNet, error)           { return net.ParseCIDR(s) }
func CIDRMask(o, b int) IPMask                         { return net.CIDRMask(o, b) }
func IPv4(a, b, c, d byte) IP                          { return net.IPv4(a, b, c, d) }
func InterfaceByName(n string) (*Interface, error)     { return net.InterfaceByName(n) }
func InterfaceAddrs() ([]Addr, error)                  { return net.InterfaceAddrs() }
func Pipe() (Conn, Conn)                               { return net.Pipe() }
func ResolveUnixAddr(n, a string) (*UnixAddr, error)   { return net.ResolveUnixAddr(n, a) }
func DialUnix(n string, l, r *UnixAddr) (*net.UnixConn, error) { return net.DialUnix(n, l, r) }
func LookupIP(h string) ([]IP, error)                  { return net.LookupIP(h) }

func parseHostPort(addr string) (IP, int, error) {
	h, p, err := net.SplitHostPort(addr)
	if err != nil {
		return nil, 0, &net.AddrError{Err: err.Error(), Addr: addr}
	}
	port, err := strconv.Atoi(p)
	if err != nil || port < 0 || port > 65535 {
		return nil, 0, &net.AddrError{Err: "invalid port", Addr: addr}
	}
	ip := net.ParseIP(h)
	if ip == nil {
		switch h {
		case "", "localhost":
			ip = net.IPv4(127, 0, 0, 1)
			if h == "" {
				ip = net.IPv4zero
			}
		default:
			return nil, 0, &net.DNSError{Err: "no such host (vnet resolves IP literals only)", Name: h, IsNotFound: true}
		}
	}
	return ip, port, nil
}

func ResolveUDPAddr(network, addr string) (*UDPAddr, error) {
	ip, port, err := parseHostPort(addr)
	if err != nil {
		return nil, err
	}
	return &UDPAddr{IP: ip, Port: port}, nil
}

func ResolveTCPAddr(network, addr string) (*TCPAddr, error) {
	ip, port, err := parseHostPort(addr)
	if err != nil {
		return nil, err
	}
	return &TCPAddr{IP: ip, Port: port}, nil
}

// ---- host ----

type Host struct {
	x        *vs.Exec
	tcp      map[int]*TCPListener
	udp      map[int]*UDPConn
	squat    map[string]bool // "tcp:port"
	failNext map[string]int  // "tcp:port" -> remaining failures
	failNth  map[string]int
	nextEph  int
	nextSrc  int
	Conns    []*StreamConn
	Lns      []*TCPListener
	UDPs     []*UDPConn
	ListenLog []string
	DialLog   []DialRec
	blackhole map[int]bool
}

// DialRec records one TCP connection attempt.
type DialRec struct {
	At   time.Duration
	Port int
	OK   bool
}

// Blackhole makes connection attempts to the port hang until the dialer's context expires.
func (h *Host) Blackhole(port int, on bool) {
	if h.blackhole == nil {
		h.blackhole = map[int]bool{}
	}
	h.blackhole[port] = on
}

var (
	hmu   sync.Mutex
	hosts = map[*vs.Exec]*Host{}
)

// HostOf returns the virtual host of execution x.
func HostOf(x *vs.Exec) *Host {
	hmu.Lock()
	defer hmu.Unlock()
	h := hosts[x]
	if h == nil {
		for k := range hosts {
			delete(hosts, k)
		}
		h = &Host{x: x, tcp: map[int]*TCPListener{}, udp: map[int]*UDPConn{}, squat: map[string]bool{}, failNext: map[string]int{}, nextEph: 49152, nextSrc: 40000}
		hosts[x] = h
	}
	return h
}

func curHost() *Host {
	x := vs.Cur()
	if x == nil {
		return nil
	}
	return HostOf(x)
}

// Squat marks a port as bound by another process.
func (h *Host) Squat(network string, port int, on bool) { h.squat[network+":"+strconv.Itoa(port)] = on }

// FailListen makes the next n Listen calls on the port fail.
func (h *Host) FailListen(network string, port int, n int) {
	h.failNext[network+":"+strconv.Itoa(port)] = n
}

// FailListenNth makes the nth Listen call (counting from now, 1-based) on the port fail once.
func (h *Host) FailListenNth(network string, port int, nth int) {
	if h.failNth == nil {
		h.failNth = map[string]int{}
	}
	h.failNth[network+":"+strconv.Itoa(port)] = nth
}

func (h *Host) injected(key string) bool {
	if n := h.failNext[key]; n > 0 {
		h.failNext[key] = n - 1
		return true
	}
	if n, ok := h.failNth[key]; ok {
		if n <= 1 {
			delete(h.failNth, key)
			return true
		}
		h.failNth[key] = n - 1
	}
	return false
}

// BoundTCP returns the sorted list of bound TCP ports.
func (h *Host) BoundTCP() []int {
	var out []int
	for p := range h.tcp {
		out = append(out, p)
	}
	sort.Ints(out)
	return out
}

func (h *Host) BoundUDP() []int {
	var out []int
	for p := range h.udp {
		out = append(out, p)
	}
	sort.Ints(out)
	return out
}

func (h *Host) TCPListenerOn(port int) *TCPListener { return h.tcp[port] }

func addrInUse(op, network string, a net.Addr) error {
	return &net.OpError{Op: op, Net: network, Addr: a, Err: os.NewSyscallError("bind", syscall.EADDRINUSE)}
}

type timeoutErr struct{}

func (timeoutErr) Error() string   { return "i/o timeout" }
func (timeoutErr) Timeout() bool   { return true }
func (timeoutErr) Temporary() bool { return true }
func (timeoutErr) Is(e error) bool { return e == os.ErrDeadlineExceeded }

// ---- TCP ----

type TCPListener struct {
	h       *Host
	addr    *TCPAddr
	backlog []*StreamConn
	closed  bool
	ID      int
	Accepted int
}

func Listen(network, address string) (Listener, error) {
	h := curHost()
	if h == nil {
		return net.Listen(network, address)
	}
	switch network {
	case "tcp", "tcp4", "tcp6":
	default:
		return nil, fmt.Errorf("vnet: Listen network %q not modelled", network)
	}
	ip, port, err := parseHostPort(address)
	if err != nil {
		return nil, &net.OpError{Op: "listen", Net: network, Err: err}
	}
	return h.listenTCP(ip, port)
}

// envPoint is a scheduling point in front of an operation that reads or changes the host's shared tables (bind,
// unbind, connect): another thread must be able to run between, say, the port manager's bookkeeping and the bind.
func envPoint() {
	if vs.Me() != nil {
		vs.Yield()
	}
}

func (h *Host) listenTCP(ip IP, port int) (*TCPListener, error) {
	envPoint()
	if port == 0 {
		for {
			port = h.nextEph
			h.nextEph++
			if h.tcp[port] == nil && !h.squat["tcp:"+strconv.Itoa(port)] {
				break
			}
		}
	}
	a := &TCPAddr{IP: ip, Port: port}
	key := "tcp:" + strconv.Itoa(port)
	if h.injected(key) {
		h.ListenLog = append(h.ListenLog, fmt.Sprintf("listen tcp %d: injected failure", port))
		return nil, addrInUse("listen", "tcp", a)
	}
	if h.tcp[port] != nil || h.squat[key] {
		return nil, addrInUse("listen", "tcp", a)
	}
	l := &TCPListener{h: h, addr: a, ID: h.x.ObjID()}
	h.tcp[port] = l
	h.Lns = append(h.Lns, l)
	h.ListenLog = append(h.ListenLog, fmt.Sprintf("listen tcp %d", port))
	return l, nil
}

func (l *TCPListener) Accept() (Conn, error) {
	t := vs.Me()
	if t == nil {
		if l.closed {
			return nil, net.ErrClosed
		}
		if len(l.backlog) == 0 {
			return nil, errors.New("vnet: Accept would block outside a managed thread")
		}
	} else {
		t.Block("accept", func() bool { return l.closed || len(l.backlog) > 0 })
	}
	if l.closed {
		return nil, &net.OpError{Op: "accept", Net: "tcp", Addr: l.addr, Err: net.ErrClosed}
	}
	c := l.backlog[0]
	l.backlog = l.backlog[1:]
	l.Accepted++
	return c, nil
}

func (l *TCPListener) Close() error {
	envPoint()
	if l.closed {
		return &net.OpError{Op: "close", Net: "tcp", Addr: l.addr, Err: net.ErrClosed}
	}
	l.closed = true
	if l.h.tcp[l.addr.Port] == l {
		delete(l.h.tcp, l.addr.Port)
	}
	l.h.ListenLog = append(l.h.ListenLog, fmt.Sprintf("close tcp %d", l.addr.Port))
	for _, c := range l.backlog {
		c.Close()
	}
	l.backlog = nil
	return nil
}

func (l *TCPListener) Addr() Addr    { return l.addr }
func (l *TCPListener) Closed() bool  { return l.closed }
func (l *TCPListener) Port() int     { return l.addr.Port }
func (l *TCPListener) Backlog() int  { return len(l.backlog) }

type half struct {
	hb      vs.SyncObj // data written happens-before the read that returns it
	buf     []byte
	wclosed bool // writer side closed: reader sees EOF after draining
	rclosed bool // reader side gone: writer gets EPIPE
}

const pipeCap = 1 << 20

// StreamConn is one endpoint of an in-memory TCP connection.
type StreamConn struct {
	h        *Host
	ID       int
	rd, wr   *half
	Peer     *StreamConn
	local    *TCPAddr
	remote   *TCPAddr
	closed   bool
	rdl, wdl time.Time
	rtm, wtm *vs.Timer
	In, Out  int64
	Tag      string
	ServerSide bool
	ClosedAt time.Duration
}

func (h *Host) pair(src, dst *TCPAddr) (*StreamConn, *StreamConn) {
	a2b, b2a := &half{}, &half{}
	a := &StreamConn{h: h, ID: h.x.ObjID(), rd: b2a, wr: a2b, local: src, remote: dst}
	b := &StreamConn{h: h, ID: h.x.ObjID(), rd: a2b, wr: b2a, local: dst, remote: src, ServerSide: true}
	a.Peer, b.Peer = b, a
	h.Conns = append(h.Conns, a, b)
	return a, b
}

// Pair creates a connected pair of endpoints that did not come through a listener.
func (h *Host) Pair(src, dst string) (*StreamConn, *StreamConn) {
	sa, _ := ResolveTCPAddr("tcp", src)
	da, _ := ResolveTCPAddr("tcp", dst)
	return h.pair(sa, da)
}

func refused(network string, a net.Addr) error {
	return &net.OpError{Op: "dial", Net: network, Addr: a, Err: os.NewSyscallError("connect", syscall.ECONNREFUSED)}
}

// DialFrom connects to a virtual listener using the given source address ("" = next ephemeral source).
func (h *Host) DialFrom(src string, address string) (*StreamConn, error) {
	envPoint()
	ip, port, err := parseHostPort(address)
	if err != nil {
		return nil, &net.OpError{Op: "dial", Net: "tcp", Err: err}
	}
	dst := &TCPAddr{IP: ip, Port: port}
	if ip.IsUnspecified() {
		dst.IP = net.IPv4(127, 0, 0, 1)
	}
	l := h.tcp[port]
	if l == nil || l.closed {
		h.DialLog = append(h.DialLog, DialRec{At: h.x.Now(), Port: port})
		if DebugDial {
			buf := make([]byte, 4096)
			vs.Observe("refused dial to %d from:\n%s", port, buf[:runtime.Stack(buf, false)])
		}
		return nil, refused("tcp", dst)
	}
	h.DialLog = append(h.DialLog, DialRec{At: h.x.Now(), Port: port, OK: true})
	var sa *TCPAddr
	if src != "" {
		sip, sport, err := parseHostPort(src)
		if err != nil {
			return nil, err
		}
		sa = &TCPAddr{IP: sip, Port: sport}
	} else {
		h.nextSrc++
		sa = &TCPAddr{IP: net.IPv4(127, 0, 0, 1), Port: h.nextSrc}
	}
	c, s := h.pair(sa, dst)
	l.backlog = append(l.backlog, s)
	return c, nil
}

func Dial(network, address string) (Conn, error) {
	h := curHost()
	if h == nil {
		return net.Dial(network, address)
	}
	switch network {
	case "tcp", "tcp4", "tcp6":
		c, err := h.DialFrom("", address)
		if err != nil {
			return nil, err
		}
		return c, nil
	case "udp", "udp4", "udp6":
		ra, err := ResolveUDPAddr(network, address)
		if err != nil {
			return nil, err
		}
		return DialUDP(network, nil, ra)
	}
	return nil, fmt.Errorf("vnet: Dial network %q not modelled", network)
}

func DialTimeout(network, address string, d time.Duration) (Conn, error) { return Dial(network, address) }

type Dialer struct {
	Timeout   time.Duration
	Deadline  time.Time
	LocalAddr Addr
	KeepAlive time.Duration
	Control   func(network, address string, c syscall.RawConn) error
}

func (d *Dialer) Dial(network, address string) (Conn, error) { return Dial(network, address) }
func (d *Dialer) DialContext(ctx context.Context, network, address string) (Conn, error) {
	if err := ctx.Err(); err != nil {
		return nil, err
	}
	if h := curHost(); h != nil && vs.Me() != nil {
		if _, port, err := parseHostPort(address); err == nil && h.blackhole[port] {
			// no answer at all: the attempt ends when the caller's context does
			h.DialLog = append(h.DialLog, DialRec{At: h.x.Now(), Port: port})
			done := ctx.Done()
			vs.Block("dial-blackhole", func() bool {
				select {
				case <-done:
					return true
				default:
					return false
				}
			})
			return nil, &net.OpError{Op: "dial", Net: network, Err: ctx.Err()}
		}
	}
	return Dial(network, address)
}

func (c *StreamConn) deadlineHit(d time.Time) bool {
	return !d.IsZero() && !vtime.VNow(c.h.x).Before(d)
}

func (c *StreamConn) Read(p []byte) (int, error) {
	if len(p) == 0 {
		return 0, nil
	}
	ready := func() bool {
		return c.closed || len(c.rd.buf) > 0 || c.rd.wclosed || c.deadlineHit(c.rdl)
	}
	if t := vs.Me(); t != nil {
		t.Block("read", ready)
	} else if !ready() {
		return 0, errors.New("vnet: Read would block outside a managed thread")
	}
	switch {
	case c.closed:
		return 0, &net.OpError{Op: "read", Net: "tcp", Source: c.local, Addr: c.remote, Err: net.ErrClosed}
	case c.deadlineHit(c.rdl):
		// like the real poller: an expired deadline fails the call even when data is waiting
		return 0, &net.OpError{Op: "read", Net: "tcp", Source: c.local, Addr: c.remote, Err: timeoutErr{}}
	case len(c.rd.buf) > 0:
		if t := vs.Me(); t != nil {
			c.rd.hb.Acquire(t)
		}
		n := copy(p, c.rd.buf)
		c.rd.buf = c.rd.buf[n:]
		if len(c.rd.buf) == 0 {
			c.rd.buf = nil
		}
		c.In += int64(n)
		return n, nil
	case c.rd.wclosed:
		if t := vs.Me(); t != nil {
			c.rd.hb.Acquire(t)
		}
		return 0, io.EOF
	default:
		return 0, &net.OpError{Op: "read", Net: "tcp", Source: c.local, Addr: c.remote, Err: timeoutErr{}}
	}
}

// ReadOrIdle is Read for harness users: instead of a deadline it gives up when the whole system
// is idle (nothing can ever arrive any more). idle=true means "no reply, ever".
func (c *StreamConn) ReadOrIdle(p []byte) (n int, idle bool, err error) {
	ok := vs.BlockOrIdle("read|idle", func() bool { return c.closed || len(c.rd.buf) > 0 || c.rd.wclosed })
	if !ok {
		return 0, true, nil
	}
	n, err = c.Read(p)
	return n, false, err
}

// ReadFullOrIdle reads exactly len(p) bytes unless the stream ends or the system goes idle first.
func (c *StreamConn) ReadFullOrIdle(p []byte) (n int, idle bool, err error) {
	for n < len(p) {
		m, idle, err := c.ReadOrIdle(p[n:])
		n += m
		if idle || err != nil {
			return n, idle, err
		}
	}
	return n, false, nil
}

func (c *StreamConn) Write(p []byte) (int, error) {
	total := 0
	for {
		ready := func() bool {
			return c.closed || c.wr.rclosed || len(c.wr.buf) < pipeCap || c.deadlineHit(c.wdl)
		}
		if t := vs.Me(); t != nil {
			t.Block("write", ready)
		} else if !ready() {
			return total, errors.New("vnet: Write would block outside a managed thread")
		}
		switch {
		case c.closed:
			return total, &net.OpError{Op: "write", Net: "tcp", Source: c.local, Addr: c.remote, Err: net.ErrClosed}
		case c.deadlineHit(c.wdl):
			// like the real poller: an expired deadline fails the call even when the peer could take the bytes
			return total, &net.OpError{Op: "write", Net: "tcp", Source: c.local, Addr: c.remote, Err: timeoutErr{}}
		case c.wr.rclosed:
			return total, &net.OpError{Op: "write", Net: "tcp", Source: c.local, Addr: c.remote, Err: os.NewSyscallError("write", syscall.EPIPE)}
		case len(c.wr.buf) < pipeCap:
			n := pipeCap - len(c.wr.buf)
			if n > len(p) {
				n = len(p)
			}
			if t := vs.Me(); t != nil {
				c.wr.hb.Release(t)
			}
			c.wr.buf = append(c.wr.buf, p[:n]...)
			c.Out += int64(n)
			total += n
			p = p[n:]
			if len(p) == 0 {
				return total, nil
			}
		default:
			return total, &net.OpError{Op: "write", Net: "tcp", Source: c.local, Addr: c.remote, Err: timeoutErr{}}
		}
	}
}

func (c *StreamConn) Close() error {
	envPoint()
	if c.closed {
		return &net.OpError{Op: "close", Net: "tcp", Source: c.local, Addr: c.remote, Err: net.ErrClosed}
	}
	c.closed = true
	c.ClosedAt = c.h.x.Now()
	if t := vs.Me(); t != nil {
		c.wr.hb.Release(t)
	}
	c.wr.wclosed = true
	c.rd.rclosed = true
	return nil
}

// Sever makes this endpoint fail like a connection whose path died: local reads and writes return an error from
// now on, while the peer notices nothing (its reads block, its writes are accepted and lost) — a half-open connection.
func (c *StreamConn) Sever() {
	if !c.closed {
		c.closed = true
		c.ClosedAt = c.h.x.Now()
	}
}

// CloseWrite half-closes the connection.
func (c *StreamConn) CloseWrite() error {
	if c.closed {
		return net.ErrClosed
	}
	c.wr.wclosed = true
	return nil
}

func (c *StreamConn) LocalAddr() Addr  { return c.local }
func (c *StreamConn) RemoteAddr() Addr { return c.remote }

func (c *StreamConn) addWake(slot **vs.Timer, t time.Time) {
	if *slot != nil {
		c.h.x.StopTimer(*slot)
		*slot = nil
	}
	if t.IsZero() {
		return
	}
	d := t.Sub(vtime.VNow(c.h.x))
	if d > 0 {
		*slot = c.h.x.AddTimer(d, nil)
	}
}

func (c *StreamConn) SetDeadline(t time.Time) error {
	c.rdl, c.wdl = t, t
	c.addWake(&c.rtm, t)
	c.addWake(&c.wtm, time.Time{})
	return nil
}
func (c *StreamConn) SetReadDeadline(t time.Time) error  { c.rdl = t; c.addWake(&c.rtm, t); return nil }
func (c *StreamConn) SetWriteDeadline(t time.Time) error { c.wdl = t; c.addWake(&c.wtm, t); return nil }

func (c *StreamConn) IsClosed() bool   { return c.closed }
func (c *StreamConn) Pending() int     { return len(c.rd.buf) }
func (c *StreamConn) PeerClosed() bool { return c.rd.wclosed }
func (c *StreamConn) String() string {
	return fmt.Sprintf("conn#%d[%s->%s %s closed=%v]", c.ID, c.local, c.remote, c.Tag, c.closed)
}

// OpenConns lists endpoints that are still open.
func (h *Host) OpenConns() []*StreamConn {
	var out []*StreamConn
	for _, c := range h.Conns {
		if !c.closed {
			out = append(out, c)
		}
	}
	return out
}
