package vs

import (
	"bufio"
	"encoding/gob"
	"fmt"
	"hash/fnv"
	"io"
	"os"
	"os/exec"
	"runtime"
	"sort"
	"strings"
	"sync"
	"time"
)

// Scenario is a closed system explored by E1.
type Scenario struct {
	Name     string
	Body     func(x *Exec)          // thread 0
	End      func(x *Exec) string   // harness-side oracle at quiescence; returns a canonical end-state string
	Horizon  time.Duration          // virtual-time horizon (0 = none)
	MaxSteps int
	NoEarlyTick bool // timers fire only at quiescence (for scenarios whose oracle is not about time)
	Watchdog time.Duration // real-time limit of one execution (default 20 s)
	// AllowStuck: scenario handles stuck threads itself in End (default: stuck non-daemon threads are reported in Result.Stuck only).
}

// ExecResult is what one execution reports back to the explorer.
type ExecResult struct {
	Scenario string
	Devs     []Dev
	Steps    int
	Alts     []uint8
	Sigs     []uint32
	EndWhy   string
	HarnessE string
	Fails    []string
	Races    []string
	Panics   []string
	Stuck    []string
	ObsHash  uint64
	EndHash  uint64
	EndState string
	Obs      []string
	Trace    []string
	Recycle  bool
	VNow     time.Duration
}

type job struct {
	Policy   int
	Scenario string
	Devs     []Dev
	WantSig  uint32
	Trace    bool
	KeepObs  bool
}

var registry = map[string]*Scenario{}

func Register(s *Scenario) { registry[s.Name] = s }

// ScenarioFactory lets checks create parameterised scenarios on demand by name.
var ScenarioFactory func(name string) *Scenario

func lookup(name string) *Scenario {
	if s := registry[name]; s != nil {
		return s
	}
	if ScenarioFactory != nil {
		if s := ScenarioFactory(name); s != nil {
			registry[name] = s
			return s
		}
	}
	return nil
}

func runJob(j job) ExecResult {
	sc := lookup(j.Scenario)
	if sc == nil {
		return ExecResult{HarnessE: "unknown scenario " + j.Scenario}
	}
	x := RunOne(RunOpts{Devs: j.Devs, WantSig: j.WantSig, Trace: j.Trace, Horizon: sc.Horizon, MaxSteps: sc.MaxSteps, NoEarlyTick: sc.NoEarlyTick, Policy: j.Policy, Watchdog: sc.Watchdog}, sc.Body)
	r := ExecResult{Devs: j.Devs, Steps: len(x.Points), EndWhy: x.EndWhy, HarnessE: x.HarnessE, VNow: x.now}
	if x.HarnessE == "" && sc.End != nil {
		func() {
			defer func() {
				if p := recover(); p != nil {
					buf := make([]byte, 8<<10)
					r.HarnessE = fmt.Sprintf("End oracle panicked: %v\n%s", p, buf[:runtime.Stack(buf, false)])
				}
			}()
			r.EndState = sc.End(x)
		}()
	}
	start := 0
	if n := len(j.Devs); n > 0 {
		start = j.Devs[n-1].Pos + 1
	}
	if start > len(x.Points) {
		start = len(x.Points)
	}
	r.Alts = make([]uint8, 0, len(x.Points)-start)
	for _, p := range x.Points[start:] {
		n := p.N
		if n > 255 {
			n = 255
		}
		r.Alts = append(r.Alts, uint8(n))
	}
	r.Sigs = x.sigs[start:]
	r.Fails = x.Fails
	if x.EndWhy == "quiescent" && len(x.threads) > 0 && x.threads[0].st == tsParked && x.threads[0].op.kind != OpFault {
		// the scenario body itself is parked and nothing can happen any more (no enabled thread, no timer): whatever
		// oracle follows in the body would never be evaluated — that must not pass silently
		r.Fails = append(r.Fails, fmt.Sprintf("the scenario did not run to its end: the system went quiet for good while its main thread waits in %s", x.threads[0].Pending()))
	}
	r.Races = x.Races
	for _, t := range x.Panics() {
		r.Panics = append(r.Panics, fmt.Sprintf("T%d(%s): %v\n%s", t.ID, t.Name, t.Panic, trimStack(t.PanicSt)))
	}
	if x.EndWhy == "quiescent" {
		for _, t := range x.Stuck() {
			r.Stuck = append(r.Stuck, fmt.Sprintf("T%d(%s) %s", t.ID, t.Name, t.Pending()))
		}
	}
	r.ObsHash = x.ObsHash()
	h := fnv.New64a()
	h.Write([]byte(r.EndState))
	r.EndHash = h.Sum64()
	if j.KeepObs || len(r.Fails) > 0 {
		r.Obs = x.Obs
	}
	if j.Trace {
		r.Trace = x.TraceLog
	}
	return r
}

func trimStack(s string) string {
	lines := strings.Split(s, "\n")
	var out []string
	for i := 0; i < len(lines) && len(out) < 24; i++ {
		l := lines[i]
		if strings.Contains(l, "runtime/debug") || strings.Contains(l, "runtime.gopanic") {
			continue
		}
		out = append(out, l)
	}
	return strings.Join(out, "\n")
}

// ---- worker side ----

// WorkerMain serves jobs on stdin/stdout (gob). Call it from main when os.Args[1]=="-worker".
func WorkerMain(maxExecs int) {
	dec := gob.NewDecoder(bufio.NewReader(os.Stdin))
	w := bufio.NewWriter(os.Stdout)
	enc := gob.NewEncoder(w)
	os.Stdout = os.Stderr // anything printed by instrumented code must not corrupt the pipe
	n := 0
	for {
		var j job
		if err := dec.Decode(&j); err != nil {
			return
		}
		r := runJob(j)
		n++
		var ms runtime.MemStats
		if n%64 == 0 {
			runtime.ReadMemStats(&ms)
		}
		if n >= maxExecs || ms.Sys > 1500<<20 || r.HarnessE != "" {
			r.Recycle = true
		}
		if err := enc.Encode(&r); err != nil {
			return
		}
		w.Flush()
		if r.Recycle {
			return
		}
	}
}

type worker struct {
	cmd *exec.Cmd
	enc *gob.Encoder
	dec *gob.Decoder
	in  io.WriteCloser
}

func spawnWorker() (*worker, error) {
	cmd := exec.Command(os.Args[0], "-worker")
	cmd.Env = append(os.Environ(), "GOMAXPROCS=2")
	in, err := cmd.StdinPipe()
	if err != nil {
		return nil, err
	}
	out, err := cmd.StdoutPipe()
	if err != nil {
		return nil, err
	}
	cmd.Stderr = io.Discard
	if os.Getenv("VS_WORKER_STDERR") != "" {
		cmd.Stderr = os.Stderr
	}
	if err := cmd.Start(); err != nil {
		return nil, err
	}
	return &worker{cmd: cmd, enc: gob.NewEncoder(in), dec: gob.NewDecoder(bufio.NewReader(out)), in: in}, nil
}

func (w *worker) kill() {
	if w == nil {
		return
	}
	w.in.Close()
	if os.Getenv("GOCOVERDIR") != "" { // coverage measurement: let the worker return from main so its counters are written
		done := make(chan struct{})
		go func() { _ = w.cmd.Wait(); close(done) }()
		select {
		case <-done:
			return
		case <-time.After(3 * time.Second):
		}
	}
	_ = w.cmd.Process.Kill()
	_ = w.cmd.Wait()
}

// ---- master side ----

type ExploreOpts struct {
	Bound    int           // maximal number of deviations
	Deadline time.Time     // stop dispatching after this instant (zero = none)
	Workers  int           // subprocess workers (0 = in-process, sequential)
	MaxExecs int           // cap on executions (0 = none)
	KeepObs  bool
	Policy   int // default thread order (see Exec.Policy)
	OnResult func(r *ExecResult) // called for every execution (master side, serialised)
}

type Violation struct {
	Kind   string // "fail", "race", "panic", "stuck"
	Msg    string
	Devs   []Dev
	Sig    string // normalised signature for known-finding matching
}

type Summary struct {
	Scenario       string
	Policy         int
	Execs          int
	Transitions    int64 // total scheduling steps executed
	TreeNodes      int64 // distinct schedule prefixes visited (states of the unfolded system)
	BoundCompleted int   // -1 if not even bound 0
	BoundTarget    int
	Exhaustive     bool // all executions up to BoundTarget were run
	PerLevel       []int
	DistinctEnd    int
	DistinctObs    int
	MaxSteps       int
	BranchPoints   int64
	Violations     []Violation
	HarnessErr     string
	Samples        []string
	Stopped        string
	Wall           float64
	MaxVNow        time.Duration
}

type parentRec struct {
	devs []Dev
	alts []uint8
	sigs []uint32
	base int
}

type res struct {
	r   ExecResult
	err error
}

// Pool is a set of worker subprocesses (or an in-process runner) shared by explorations.
type Pool struct {
	n       int
	inproc  bool
	jobs    chan job
	results chan res
	wg      sync.WaitGroup
}

var defaultPool *Pool

// GetPool returns the process-wide pool with n workers (n <= 0: in-process, sequential).
func GetPool(n int) *Pool {
	if defaultPool != nil && (defaultPool.n == n || (n <= 0 && defaultPool.inproc)) {
		return defaultPool
	}
	if defaultPool != nil {
		defaultPool.Close()
	}
	p := &Pool{n: n, inproc: n <= 0, jobs: make(chan job, 256), results: make(chan res, 256)}
	if p.inproc {
		p.n = 1
	}
	for i := 0; i < p.n; i++ {
		p.wg.Add(1)
		go p.serve()
	}
	defaultPool = p
	return p
}

func (p *Pool) Close() {
	close(p.jobs)
	p.wg.Wait()
	if defaultPool == p {
		defaultPool = nil
	}
}

func (p *Pool) serve() {
	defer p.wg.Done()
	var w *worker
	defer func() { w.kill() }()
	for j := range p.jobs {
		if p.inproc {
			p.results <- res{r: runJob(j)}
			continue
		}
		var r ExecResult
		var err error
		for attempt := 0; attempt < 2; attempt++ {
			if w == nil {
				if w, err = spawnWorker(); err != nil {
					break
				}
			}
			if err = w.enc.Encode(&j); err == nil {
				r = ExecResult{}
				err = w.dec.Decode(&r)
			}
			if err == nil {
				break
			}
			w.kill()
			w = nil
		}
		if err != nil {
			p.results <- res{err: fmt.Errorf("worker failed on %s %v: %v", j.Scenario, j.Devs, err)}
			continue
		}
		if r.Recycle {
			w.kill()
			w = nil
		}
		r.Scenario = j.Scenario
		p.results <- res{r: r}
	}
}

// RunBatch executes each named scenario once (no deviations) and returns the results in order.
func (p *Pool) RunBatch(names []string, keepObs bool) ([]ExecResult, error) {
	out := make([]ExecResult, len(names))
	idx := map[string][]int{}
	for i, n := range names {
		idx[n] = append(idx[n], i)
	}
	sent, got := 0, 0
	for got < len(names) {
		for sent < len(names) && sent-got < p.n*4 {
			p.jobs <- job{Scenario: names[sent], KeepObs: keepObs}
			sent++
		}
		rr := <-p.results
		got++
		if rr.err != nil {
			return nil, rr.err
		}
		l := idx[rr.r.Scenario]
		out[l[0]] = rr.r
		idx[rr.r.Scenario] = l[1:]
	}
	return out, nil
}

// Explore runs the iterative deviation-bounded search.
func Explore(scn string, o ExploreOpts) *Summary {
	t0 := time.Now()
	sum := &Summary{Scenario: scn, Policy: o.Policy, BoundTarget: o.Bound, BoundCompleted: -1}
	endSet := map[uint64]struct{}{}
	obsSet := map[uint64]struct{}{}
	seenViol := map[string]bool{}

	pool := GetPool(o.Workers)
	jobs, results, nw := pool.jobs, pool.results, pool.n

	level := []parentRec{}
	stop := func() bool {
		if sum.HarnessErr != "" {
			return true
		}
		if !o.Deadline.IsZero() && time.Now().After(o.Deadline) {
			sum.Stopped = "deadline"
			return true
		}
		if o.MaxExecs > 0 && sum.Execs >= o.MaxExecs {
			sum.Stopped = "maxexecs"
			return true
		}
		return false
	}

	handle := func(r *ExecResult, next *[]parentRec, lvl int) {
		sum.Execs++
		sum.Transitions += int64(r.Steps)
		sum.TreeNodes += int64(len(r.Alts))
		if r.Steps > sum.MaxSteps {
			sum.MaxSteps = r.Steps
		}
		if r.VNow > sum.MaxVNow {
			sum.MaxVNow = r.VNow
		}
		if r.HarnessE != "" {
			if sum.HarnessErr == "" {
				sum.HarnessErr = fmt.Sprintf("devs=%v: %s", r.Devs, r.HarnessE)
			}
			return
		}
		endSet[r.EndHash] = struct{}{}
		obsSet[r.ObsHash] = struct{}{}
		add := func(kind, msg string) {
			sig := kind + ":" + NormalizeMsg(msg)
			if kind == "race" {
				sig = "race:" + RaceSig(msg)
			}
			if seenViol[sig] {
				return
			}
			seenViol[sig] = true
			sum.Violations = append(sum.Violations, Violation{Kind: kind, Msg: msg, Devs: r.Devs, Sig: sig})
		}
		for _, f := range r.Fails {
			add("fail", f)
		}
		for _, f := range r.Races {
			add("race", f)
		}
		for _, f := range r.Panics {
			add("panic", f)
		}
		if r.EndWhy == "steplimit" {
			add("livelock", "step limit reached")
		}
		if len(sum.Samples) < 3 && (lvl > 0 || len(sum.Samples) == 0) {
			sum.Samples = append(sum.Samples, fmt.Sprintf("devs=%v steps=%d end=%q", r.Devs, r.Steps, clip(r.EndState, 300)))
		}
		if o.OnResult != nil {
			o.OnResult(r)
		}
		for _, a := range r.Alts {
			if a > 1 {
				sum.BranchPoints++
			}
		}
		if lvl < o.Bound {
			base := 0
			if n := len(r.Devs); n > 0 {
				base = r.Devs[n-1].Pos + 1
			}
			*next = append(*next, parentRec{devs: r.Devs, alts: r.Alts, sigs: r.Sigs, base: base})
		}
	}

	// level 0
	var next []parentRec
	jobs <- job{Scenario: scn, KeepObs: o.KeepObs, Policy: o.Policy}
	r0 := <-results
	if r0.err != nil {
		sum.HarnessErr = r0.err.Error()
	} else {
		handle(&r0.r, &next, 0)
		sum.PerLevel = append(sum.PerLevel, 1)
		if sum.HarnessErr == "" {
			sum.BoundCompleted = 0
		}
	}
	for lvl := 1; lvl <= o.Bound && sum.HarnessErr == "" && sum.Stopped == ""; lvl++ {
		level, next = next, nil
		inflight := 0
		count := 0
		complete := true
		drain := func(block bool) {
			for inflight > 0 {
				if block {
					rr := <-results
					inflight--
					if rr.err != nil {
						if sum.HarnessErr == "" {
							sum.HarnessErr = rr.err.Error()
						}
						continue
					}
					handle(&rr.r, &next, lvl)
					return
				}
				select {
				case rr := <-results:
					inflight--
					if rr.err != nil {
						if sum.HarnessErr == "" {
							sum.HarnessErr = rr.err.Error()
						}
						continue
					}
					handle(&rr.r, &next, lvl)
				default:
					return
				}
			}
		}
	outer:
		for _, p := range level {
			for i, n := range p.alts {
				for alt := 1; alt < int(n); alt++ {
					if stop() {
						complete = false
						break outer
					}
					devs := append(append([]Dev(nil), p.devs...), Dev{Pos: p.base + i, Choice: alt})
					var want uint32
					if i < len(p.sigs) {
						want = p.sigs[i]
					}
					for inflight >= nw*4 {
						drain(true)
					}
					jobs <- job{Scenario: scn, Devs: devs, WantSig: want, KeepObs: o.KeepObs, Policy: o.Policy}
					inflight++
					count++
					drain(false)
				}
			}
		}
		for inflight > 0 {
			drain(true)
		}
		sum.PerLevel = append(sum.PerLevel, count)
		if complete && sum.HarnessErr == "" {
			sum.BoundCompleted = lvl
		}
	}
	sum.DistinctEnd = len(endSet)
	sum.DistinctObs = len(obsSet)
	sum.Exhaustive = sum.BoundCompleted == o.Bound
	sum.Wall = time.Since(t0).Seconds()
	sort.Slice(sum.Violations, func(i, j int) bool { return len(sum.Violations[i].Devs) < len(sum.Violations[j].Devs) })
	return sum
}

func clip(s string, n int) string {
	if len(s) > n {
		return s[:n] + "…"
	}
	return s
}

// NormalizeMsg strips volatile parts (thread ids, addresses, numbers after T) for signatures.
func NormalizeMsg(s string) string {
	if i := strings.Index(s, "\n"); i >= 0 {
		s = s[:i]
	}
	var b strings.Builder
	for i := 0; i < len(s); i++ {
		c := s[i]
		if c == 'T' && i+1 < len(s) && s[i+1] >= '0' && s[i+1] <= '9' && (i == 0 || !isAlnum(s[i-1])) {
			b.WriteString("T#")
			i++
			for i+1 < len(s) && s[i+1] >= '0' && s[i+1] <= '9' {
				i++
			}
			continue
		}
		if isHex(c) && (i == 0 || !isAlnum(s[i-1])) {
			j := i
			for j < len(s) && isHex(s[j]) {
				j++
			}
			if j-i >= 12 && (j == len(s) || !isAlnum(s[j])) {
				b.WriteString("<id>")
				i = j - 1
				continue
			}
		}
		if c == '0' && i+1 < len(s) && s[i+1] == 'x' {
			b.WriteString("0x#")
			i++
			for i+1 < len(s) && isHex(s[i+1]) {
				i++
			}
			continue
		}
		b.WriteByte(c)
	}
	return b.String()
}

func isAlnum(c byte) bool {
	return c >= 'a' && c <= 'z' || c >= 'A' && c <= 'Z' || c >= '0' && c <= '9'
}
func isHex(c byte) bool { return c >= '0' && c <= '9' || c >= 'a' && c <= 'f' }

// Replay runs one execution in-process with tracing.
func Replay(scn string, devs []Dev) ExecResult {
	return runJob(job{Scenario: scn, Devs: devs, Trace: true, KeepObs: true})
}

// ReplayP replays under a given default-order policy.
func ReplayP(scn string, devs []Dev, policy int, trace bool) ExecResult {
	return runJob(job{Scenario: scn, Devs: devs, Trace: trace, KeepObs: true, Policy: policy})
}

// ReplayQuiet runs one execution in-process without tracing.
func ReplayQuiet(scn string, devs []Dev) ExecResult {
	return runJob(job{Scenario: scn, Devs: devs, KeepObs: true})
}

// RaceSig reduces a race report to the unordered pair of innermost source locations.
func RaceSig(msg string) string {
	var locs []string
	for _, part := range strings.Split(msg, " at ")[1:] {
		f := part
		if i := strings.Index(f, " < "); i >= 0 {
			f = f[:i]
		}
		if i := strings.Index(f, "  ||"); i >= 0 {
			f = f[:i]
		}
		if i := strings.Index(f, ":"); i >= 0 { // drop the line number
			f = f[:i] + ")"
		}
		locs = append(locs, strings.TrimSpace(f))
	}
	sort.Strings(locs)
	return strings.Join(locs, " || ")
}
