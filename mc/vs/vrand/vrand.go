// Package vrand replaces "math/rand/v2" in instrumented code: inside an
// execution every draw is an environment choice between the two extremes.
package vrand

import (
	"math/rand/v2"

	"verif/mc/vs"
)

func IntN(n int) int {
	if vs.Me() == nil {
		return rand.IntN(n)
	}
	if vs.Choose("rand.IntN", 2) == 1 {
		return n - 1
	}
	return 0
}

func Int64N(n int64) int64 {
	if vs.Me() == nil {
		return rand.Int64N(n)
	}
	if vs.Choose("rand.Int64N", 2) == 1 {
		return n - 1
	}
	return 0
}

func Float64() float64 {
	if vs.Me() == nil {
		return rand.Float64()
	}
	if vs.Choose("rand.Float64", 2) == 1 {
		return 0.999999
	}
	return 0
}

func Int() int       { return IntN(1 << 30) }
func Uint32() uint32 { return uint32(IntN(1 << 30)) }
