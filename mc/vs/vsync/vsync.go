// Package vsync is the drop-in replacement for "sync" in instrumented code.
package vsync

import (
	"sync"
	"sync/atomic"

	"verif/mc/vs"
)

type (
	Pool   = sync.Pool
	Map    = sync.Map
	Locker = sync.Locker
)

// obj holds the per-execution model state; it is reset lazily when touched by a newer execution.
type obj struct {
	x *vs.Exec
	vs.SyncObj
}

func (o *obj) fresh(x *vs.Exec) bool {
	if o.x != x {
		o.x = x
		o.SyncObj.Reset()
		return true
	}
	return false
}

type Mutex struct {
	real   sync.Mutex
	o      obj
	locked bool
}

func (m *Mutex) Lock() {
	t := vs.Me()
	if t == nil {
		m.real.Lock()
		return
	}
	if m.o.fresh(t.Exec()) {
		m.locked = false
	}
	t.Block("lock", func() bool { return !m.locked })
	m.locked = true
	m.o.Acquire(t)
}

func (m *Mutex) TryLock() bool {
	t := vs.Me()
	if t == nil {
		return m.real.TryLock()
	}
	if m.o.fresh(t.Exec()) {
		m.locked = false
	}
	if m.locked {
		return false
	}
	m.locked = true
	m.o.Acquire(t)
	return true
}

func (m *Mutex) Unlock() {
	t := vs.Me()
	if t == nil {
		m.real.Unlock()
		return
	}
	if m.o.fresh(t.Exec()) || !m.locked {
		panic("sync: unlock of unlocked mutex")
	}
	m.o.Release(t)
	m.locked = false
}

type RWMutex struct {
	real    sync.RWMutex
	o       obj
	writer  bool
	readers int
	rvc     vs.SyncObj
}

func (m *RWMutex) reset(t *vs.Thread) {
	if m.o.fresh(t.Exec()) {
		m.writer, m.readers = false, 0
		m.rvc.Reset()
	}
}

func (m *RWMutex) Lock() {
	t := vs.Me()
	if t == nil {
		m.real.Lock()
		return
	}
	m.reset(t)
	t.Block("wlock", func() bool { return !m.writer && m.readers == 0 })
	m.writer = true
	m.o.Acquire(t)
	m.rvc.Acquire(t)
}

func (m *RWMutex) Unlock() {
	t := vs.Me()
	if t == nil {
		m.real.Unlock()
		return
	}
	m.reset(t)
	if !m.writer {
		panic("sync: Unlock of unlocked RWMutex")
	}
	m.o.Release(t)
	m.writer = false
}

func (m *RWMutex) RLock() {
	t := vs.Me()
	if t == nil {
		m.real.RLock()
		return
	}
	m.reset(t)
	t.Block("rlock", func() bool { return !m.writer })
	m.readers++
	m.o.Acquire(t)
}

func (m *RWMutex) RUnlock() {
	t := vs.Me()
	if t == nil {
		m.real.RUnlock()
		return
	}
	m.reset(t)
	if m.readers <= 0 {
		panic("sync: RUnlock of unlocked RWMutex")
	}
	m.rvc.Release(t)
	m.readers--
}

func (m *RWMutex) RLocker() Locker { return (*rlocker)(m) }

type rlocker RWMutex

func (r *rlocker) Lock()   { (*RWMutex)(r).RLock() }
func (r *rlocker) Unlock() { (*RWMutex)(r).RUnlock() }

type WaitGroup struct {
	real sync.WaitGroup
	o    obj
	n    int
}

func (w *WaitGroup) Add(d int) {
	t := vs.Me()
	if t == nil {
		w.real.Add(d)
		return
	}
	if w.o.fresh(t.Exec()) {
		w.n = 0
	}
	w.n += d
	if w.n < 0 {
		panic("sync: negative WaitGroup counter")
	}
	if d < 0 {
		w.o.Release(t)
	}
}

func (w *WaitGroup) Done() { w.Add(-1) }

func (w *WaitGroup) Wait() {
	t := vs.Me()
	if t == nil {
		w.real.Wait()
		return
	}
	if w.o.fresh(t.Exec()) {
		w.n = 0
	}
	t.Block("wgwait", func() bool { return w.n == 0 })
	w.o.Acquire(t)
}

type Once struct {
	passDone atomic.Bool
	real    sync.Once
	o       obj
	done    bool
	running bool
}

func (c *Once) Do(f func()) {
	t := vs.Me()
	if t == nil {
		c.real.Do(f)
		c.passDone.Store(true)
		return
	}
	if c.passDone.Load() {
		return
	}
	if c.o.fresh(t.Exec()) {
		c.done, c.running = false, false
	}
	if c.done {
		c.o.Acquire(t)
		return
	}
	if c.running {
		t.Block("once", func() bool { return c.done })
		c.o.Acquire(t)
		return
	}
	c.running = true
	defer func() {
		c.done = true
		c.running = false
		c.o.Release(t)
	}()
	f()
}

func OnceFunc(f func()) func() {
	var o Once
	return func() { o.Do(f) }
}

func NewCond(l Locker) *sync.Cond { return sync.NewCond(l) }
