package vs_test

import (
	"fmt"
	"testing"
	"time"

	"verif/mc/vs"
	"verif/mc/vs/vsync"
	"verif/mc/vs/vtime"
)

func TestLostUpdate(t *testing.T) {
	vs.Register(&vs.Scenario{Name: "lost", Body: func(x *vs.Exec) {
		n := 0
		var wg vsync.WaitGroup
		vs.SetInterest(true)
		for i := 0; i < 2; i++ {
			wg.Add(1)
			vs.Go(func() {
				defer wg.Done()
				v := n
				vs.Yield()
				n = v + 1
			})
		}
		wg.Wait()
		if n != 2 {
			vs.Fail("lost update n=%d", n)
		}
		vs.Observe("n=%d", n)
	}})
	s0 := vs.Explore("lost", vs.ExploreOpts{Bound: 0})
	if len(s0.Violations) != 0 || s0.Execs != 1 {
		t.Fatalf("bound 0: %+v", s0)
	}
	s := vs.Explore("lost", vs.ExploreOpts{Bound: 1})
	if len(s.Violations) == 0 {
		t.Fatalf("expected lost update; %+v", s)
	}
	t.Logf("execs=%d nodes=%d viol=%v", s.Execs, s.TreeNodes, s.Violations[0])
	r1 := vs.Replay("lost", s.Violations[0].Devs)
	r2 := vs.Replay("lost", s.Violations[0].Devs)
	if len(r1.Fails) == 0 || r1.ObsHash != r2.ObsHash {
		t.Fatalf("replay mismatch")
	}
	for _, l := range r1.Trace {
		t.Log(l)
	}
}

func TestChannels(t *testing.T) {
	vs.Register(&vs.Scenario{Name: "chan", Horizon: time.Hour, Body: func(x *vs.Exec) {
		vs.SetInterest(true)
		ch := make(chan int)
		buf := make(chan int, 1)
		done := make(chan struct{})
		vs.Go(func() {
			vs.S(ch) <- 1
			vs.Post()
			vs.S(buf) <- 2
			vs.Post()
			vs.Close(done)
		})
		got := []int{}
		vs.Go(func() {
			for len(got) < 2 {
				c1, c2 := ch, buf
				switch vs.Select(false, vs.CR(c1), vs.CR(c2), vs.CR(vtime.After(time.Second))) {
				case 0:
					v := <-c1
					vs.Post()
					got = append(got, v)
				case 1:
					v := <-c2
					vs.Post()
					got = append(got, v)
				case 2:
					vs.Post()
					got = append(got, -1)
				}
			}
			vs.Observe("got=%v", got)
		})
		vs.Recv(done)
		var mu vsync.Mutex
		mu.Lock()
		mu.Unlock()
	}, End: func(x *vs.Exec) string {
		if len(x.Stuck()) > 0 {
			return fmt.Sprint("stuck ", len(x.Stuck()))
		}
		return fmt.Sprint(x.Obs)
	}})
	s := vs.Explore("chan", vs.ExploreOpts{Bound: 2})
	t.Logf("%+v", s)
	if s.HarnessErr != "" || len(s.Violations) != 0 {
		t.Fatal(s.HarnessErr, s.Violations)
	}
	if s.DistinctObs < 2 {
		t.Fatalf("expected several outcomes (timer early), got %d", s.DistinctObs)
	}
}
