// Package vtime is the drop-in replacement for "time" in instrumented code:
// types and constants are aliases; Now/Sleep/After/timers run on the
// explorer's virtual clock when called from a managed thread.
package vtime

import (
	"time"

	"verif/mc/vs"
)

type (
	Duration = time.Duration
	Time     = time.Time
	Month    = time.Month
	Weekday  = time.Weekday
	Location = time.Location
)

const (
	Nanosecond  = time.Nanosecond
	Microsecond = time.Microsecond
	Millisecond = time.Millisecond
	Second      = time.Second
	Minute      = time.Minute
	Hour        = time.Hour
	RFC3339     = time.RFC3339
	RFC1123     = time.RFC1123
	DateTime    = time.DateTime
)

var (
	Local = time.Local
	UTC   = time.UTC
)

func Date(y int, m Month, d, h, mi, s, ns int, loc *Location) Time {
	return time.Date(y, m, d, h, mi, s, ns, loc)
}
func LoadLocation(n string) (*Location, error)  { return time.LoadLocation(n) }
func Unix(s, ns int64) Time                     { return time.Unix(s, ns) }
func ParseDuration(s string) (Duration, error)  { return time.ParseDuration(s) }
func Parse(l, v string) (Time, error)           { return time.Parse(l, v) }

// VNow converts the virtual clock of x into a wall-clock instant.
func VNow(x *vs.Exec) Time { return vs.Epoch.Add(x.Now()) }

func Now() Time {
	if t := vs.Me(); t != nil {
		return VNow(t.Exec())
	}
	if x := vs.Cur(); x != nil {
		// harness goroutine during an execution (end-of-run inspection)
		return VNow(x)
	}
	return time.Now()
}

func Since(t Time) Duration { return Now().Sub(t) }
func Until(t Time) Duration { return t.Sub(Now()) }

func Sleep(d Duration) {
	t := vs.Me()
	if t == nil {
		time.Sleep(d)
		return
	}
	if d <= 0 {
		// like the real one: returns at once (timers otherwise fire only when nothing else can run, which would make a
		// zero sleep wait for the whole system to go quiet)
		vs.Yield()
		return
	}
	x := t.Exec()
	fired := false
	x.AddTimer(d, func() { fired = true })
	t.Block("sleep", func() bool { return fired })
}

func After(d Duration) <-chan Time {
	t := vs.Me()
	if t == nil {
		return time.After(d)
	}
	return NewTimer(d).C
}

func Tick(d Duration) <-chan Time { return NewTicker(d).C }

type Timer struct {
	C  <-chan Time
	c  chan Time
	x  *vs.Exec
	tm *vs.Timer
	rt *time.Timer
	f  func()
}

func NewTimer(d Duration) *Timer {
	t := vs.Me()
	if t == nil {
		rt := time.NewTimer(d)
		return &Timer{C: rt.C, rt: rt}
	}
	x := t.Exec()
	c := make(chan Time, 1)
	tm := &Timer{C: c, c: c, x: x}
	tm.arm(d)
	return tm
}

func (t *Timer) arm(d Duration) {
	x := t.x
	t.tm = x.AddTimer(d, func() {
		if t.f != nil {
			x.SpawnFromScheduler("afterfunc", t.f)
			return
		}
		select {
		case t.c <- VNow(x):
		default:
		}
	})
}

func AfterFunc(d Duration, f func()) *Timer {
	t := vs.Me()
	if t == nil {
		return &Timer{rt: time.AfterFunc(d, f)}
	}
	tm := &Timer{x: t.Exec(), f: f}
	tm.arm(d)
	return tm
}

func (t *Timer) Stop() bool {
	if t.rt != nil {
		return t.rt.Stop()
	}
	return t.x.StopTimer(t.tm)
}

func (t *Timer) Reset(d Duration) bool {
	if t.rt != nil {
		return t.rt.Reset(d)
	}
	was := t.x.StopTimer(t.tm)
	// Go 1.23 semantics: Reset drains nothing but a stale value cannot be received after Reset.
	select {
	case <-t.c:
	default:
	}
	t.arm(d)
	return was
}

type Ticker struct {
	C    <-chan Time
	c    chan Time
	x    *vs.Exec
	tm   *vs.Timer
	rt   *time.Ticker
	d    Duration
	dead bool
}

func NewTicker(d Duration) *Ticker {
	t := vs.Me()
	if t == nil {
		rt := time.NewTicker(d)
		return &Ticker{C: rt.C, rt: rt}
	}
	if d <= 0 {
		panic("non-positive interval for NewTicker")
	}
	c := make(chan Time, 1)
	tk := &Ticker{C: c, c: c, x: t.Exec(), d: d}
	tk.arm()
	return tk
}

func (t *Ticker) arm() {
	x := t.x
	t.tm = x.AddTimer(t.d, func() {
		if t.dead {
			return
		}
		select {
		case t.c <- VNow(x):
		default:
		}
		t.arm()
	})
}

func (t *Ticker) Stop() {
	if t.rt != nil {
		t.rt.Stop()
		return
	}
	t.dead = true
	t.x.StopTimer(t.tm)
}

func (t *Ticker) Reset(d Duration) {
	if t.rt != nil {
		t.rt.Reset(d)
		return
	}
	t.x.StopTimer(t.tm)
	t.d = d
	t.arm()
}
