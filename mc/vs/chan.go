package vs

import (
	"fmt"
	"reflect"
	"sort"
	"unsafe"
)

func chanID[T any](ch <-chan T) uintptr { return *(*uintptr)(unsafe.Pointer(&ch)) }

func recvCase[T any](ch <-chan T) chanCase {
	if ch == nil {
		return chanCase{}
	}
	return chanCase{
		id: chanID(ch), lenf: func() int { return len(ch) }, capn: cap(ch), keep: ch,
		probe: func() bool {
			select {
			case _, ok := <-ch:
				if ok {
					panic("vs: closed-probe consumed a value: an unmanaged goroutine is sending on an instrumented channel")
				}
				return true
			default:
				return false
			}
		},
	}
}

func sendCase[T any](ch chan<- T) chanCase {
	if ch == nil {
		return chanCase{send: true}
	}
	return chanCase{send: true, id: *(*uintptr)(unsafe.Pointer(&ch)), lenf: func() int { return len(ch) }, capn: cap(ch), keep: ch}
}

func (x *Exec) hbSend(t *Thread, id uintptr) {
	x.mu.Lock()
	defer x.mu.Unlock()
	v := x.chanVC[id]
	v.join(t.vc)
	x.chanVC[id] = v
	t.vc.tick(t.ID)
}

func (x *Exec) hbRecv(t *Thread, id uintptr) {
	x.mu.Lock()
	defer x.mu.Unlock()
	if v, ok := x.chanVC[id]; ok {
		t.vc.join(v)
	}
}

// Recv is the rewritten `<-ch`.
func Recv[T any](ch <-chan T) T {
	v, _ := Recv2(ch)
	return v
}

// Recv2 is the rewritten `v, ok := <-ch`.
func Recv2[T any](ch <-chan T) (T, bool) {
	t := Me()
	if t == nil {
		v, ok := <-ch
		return v, ok
	}
	c := recvCase(ch)
	t.x.point(t, op{kind: OpChan, cases: []chanCase{c}, what: "recv"})
	v, ok := <-ch
	t.x.hbRecv(t, c.id)
	t.post()
	return v, ok
}

// S is the gate of a rewritten send statement: `vs.S(ch) <- v; vs.Post()`.
func S[T any](ch chan<- T) chan<- T {
	t := Me()
	if t == nil {
		return ch
	}
	c := sendCase(ch)
	t.x.point(t, op{kind: OpChan, cases: []chanCase{c}, what: "send"})
	t.x.hbSend(t, c.id)
	return ch
}

// Close is the rewritten close(ch).
func Close[T any](ch chan<- T) {
	// a close is visible to every thread selecting on the channel: other threads must be able to run between
	// whatever the closing thread did before (an unlock, say) and the close
	Yield()
	if t := Me(); t != nil && ch != nil {
		id := *(*uintptr)(unsafe.Pointer(&ch))
		x := t.x
		x.mu.Lock()
		x.closed[id] = ch
		x.mu.Unlock()
		x.hbSend(t, id)
	}
	close(ch)
}

// SelCase describes one communication clause of a rewritten select.
type SelCase struct{ c chanCase }

func CR[T any](ch <-chan T) SelCase { return SelCase{recvCase(ch)} }
func CS[T any](ch chan<- T) SelCase { return SelCase{sendCase(ch)} }

// Select decides which clause of a rewritten select fires: the index of the
// clause, or -1 for default. The caller then performs that clause's native
// operation (guaranteed ready) and calls Post().
// Outside managed threads it returns -2 and the caller falls back to the native select.
func Select(hasDefault bool, cases ...SelCase) int {
	t := Me()
	if t == nil {
		return -2
	}
	cs := make([]chanCase, len(cases))
	for i := range cases {
		cs[i] = cases[i].c
	}
	alt := t.x.point(t, op{kind: OpChan, cases: cs, hasDefault: hasDefault, what: "select"})
	if alt >= 0 {
		if cs[alt].send {
			t.x.hbSend(t, cs[alt].id)
		} else {
			t.x.hbRecv(t, cs[alt].id)
		}
	}
	return alt
}

// RangeCh is the rewritten `for v := range ch`.
func RangeCh[T any](ch <-chan T) func(yield func(T) bool) {
	return func(yield func(T) bool) {
		for {
			v, ok := Recv2(ch)
			if !ok {
				return
			}
			if !yield(v) {
				return
			}
		}
	}
}

// ---- map iteration order ----

// MapKeys returns the keys of m in a deterministic order (sorted by a stable
// rendering). When the execution is inside the region of interest and
// MapOrderChoice is set, the first key is an environment choice.
func MapKeys[M ~map[K]V, K comparable, V any](m M) []K {
	keys := make([]K, 0, len(m))
	for k := range m {
		keys = append(keys, k)
	}
	if len(keys) < 2 {
		return keys
	}
	x := cur.Load()
	rk := make([]string, len(keys))
	stable := true
	for i, k := range keys {
		rk[i], stable = renderKey(any(k), x, stable)
	}
	idx := make([]int, len(keys))
	for i := range idx {
		idx[i] = i
	}
	sort.SliceStable(idx, func(a, b int) bool { return rk[idx[a]] < rk[idx[b]] })
	out := make([]K, len(keys))
	for i, j := range idx {
		out[i] = keys[j]
	}
	if x != nil && x.mapOrderChoice() {
		if c := Choose("maporder", len(out)); c > 0 {
			out[0], out[c] = out[c], out[0]
		}
	}
	return out
}

func (x *Exec) mapOrderChoice() bool { return MapOrderChoice && x.interest }

// MapOrderChoice makes map iteration order an explored choice (first element).
var MapOrderChoice = false

func renderKey(k any, x *Exec, stable bool) (string, bool) {
	switch v := k.(type) {
	case string:
		return v, stable
	case int:
		return fmt.Sprintf("%020d", v), stable
	case fmt.Stringer:
		rv := reflect.ValueOf(k)
		if rv.Kind() == reflect.Pointer {
			break
		}
		return v.String(), stable
	}
	rv := reflect.ValueOf(k)
	if rv.Kind() == reflect.Pointer || rv.Kind() == reflect.Chan || rv.Kind() == reflect.UnsafePointer {
		// pointer keys: order by first-seen sequence inside this execution (deterministic under replay)
		if x != nil {
			return fmt.Sprintf("p%012d", x.ptrSeq(rv.Pointer())), stable
		}
		return fmt.Sprintf("p%x", rv.Pointer()), false
	}
	return fmt.Sprintf("%v", k), stable
}

func (x *Exec) ptrSeq(p uintptr) int {
	x.mu.Lock()
	defer x.mu.Unlock()
	if x.ptrIDs == nil {
		x.ptrIDs = map[uintptr]int{}
	}
	if id, ok := x.ptrIDs[p]; ok {
		return id
	}
	id := len(x.ptrIDs) + 1
	x.ptrIDs[p] = id
	return id
}
