// Package vctx replaces "context" in instrumented code: deadlines run on the virtual clock.
package vctx

import (
	"context"
	"time"

	"verif/mc/vs"
	"verif/mc/vs/vtime"
)

type (
	Context         = context.Context
	CancelFunc      = context.CancelFunc
	CancelCauseFunc = context.CancelCauseFunc
)

var (
	Canceled         = context.Canceled
	DeadlineExceeded = context.DeadlineExceeded
)

func Background() Context                                   { return context.Background() }
func TODO() Context                                         { return context.TODO() }
func WithCancel(p Context) (Context, CancelFunc)            { return context.WithCancel(p) }
func WithValue(p Context, k, v any) Context                 { return context.WithValue(p, k, v) }
func WithCancelCause(p Context) (Context, CancelCauseFunc)  { return context.WithCancelCause(p) }
func Cause(c Context) error                                 { return context.Cause(c) }
func WithoutCancel(p Context) Context                       { return context.WithoutCancel(p) }
func AfterFunc(c Context, f func()) (stop func() bool)      { return context.AfterFunc(c, f) }

type dctx struct {
	context.Context
	deadline time.Time
}

func (d *dctx) Deadline() (time.Time, bool) { return d.deadline, true }
func (d *dctx) Err() error {
	if err := d.Context.Err(); err != nil {
		if context.Cause(d.Context) == context.DeadlineExceeded {
			return context.DeadlineExceeded
		}
		return err
	}
	return nil
}

func WithDeadline(p Context, t time.Time) (Context, CancelFunc) {
	me := vs.Me()
	if me == nil {
		return context.WithDeadline(p, t)
	}
	inner, cancel := context.WithCancelCause(p)
	d := t.Sub(vtime.Now())
	tm := me.Exec().AddTimer(d, func() { cancel(context.DeadlineExceeded) })
	x := me.Exec()
	return &dctx{Context: inner, deadline: t}, func() { x.StopTimer(tm); cancel(context.Canceled) }
}

func WithTimeout(p Context, d time.Duration) (Context, CancelFunc) {
	if vs.Me() == nil {
		return context.WithTimeout(p, d)
	}
	return WithDeadline(p, vtime.Now().Add(d))
}
