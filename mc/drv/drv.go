// Package drv is the common driver of the per-property check binaries: tiers,
// budgets, evidence files, replay artefacts, known findings, exit codes.
package drv

import (
	"crypto/sha256"
	"encoding/hex"
	"encoding/json"
	"fmt"
	"os"
	"path/filepath"
	"sort"
	"strconv"
	"strings"
	"time"

	"verif/mc/covrt"
	"verif/mc/vs"
)

const Root = "/verif"

type Ctx struct {
	// ConfirmTimes may lower the number of confirming replays for a scenario (default 5).
	ConfirmTimes func(scenario string) int
	ID       string
	Part     string
	Tier     string
	Seed     int
	Level    string
	Start    time.Time
	Deadline time.Time
	Workers  int

	evals       int64
	states      int64
	transitions int64
	traces      int64
	distinct    map[string]struct{}
	distinctN   int64
	samples     []any
	rules       []string
	assumptions []string
	exhaustive  bool
	notes       map[string]any
	viols       []viol
	known       []Known
	harnessErr  []string
	caps        []string
}

type viol struct {
	Sig    string
	Msg    string
	Replay string
}

type Known struct {
	Property  string `json:"property"`
	Status    string `json:"status"` // "known" | "fixed"
	Signature string `json:"signature"`
	What      string `json:"what"`
	Commit    string `json:"commit,omitempty"`
}

type ReplayFile struct {
	Property string   `json:"property"`
	Part     string   `json:"part,omitempty"`
	Kind     string   `json:"kind"` // "e1" | "e2"
	Scenario string   `json:"scenario,omitempty"`
	Devs     []vs.Dev `json:"devs,omitempty"`
	Policy   int      `json:"policy,omitempty"`
	Case     any      `json:"case,omitempty"`
	Sig      string   `json:"signature"`
	Msg      string   `json:"message"`
	Trace    []string `json:"trace,omitempty"`
}

// Quick reports whether the quick tier was requested.
func (c *Ctx) Quick() bool { return c.Tier != "thorough" }

// Pick returns q for the quick tier and t for thorough.
func Pick[T any](c *Ctx, q, t T) T {
	if c.Quick() {
		return q
	}
	return t
}

// Setup parses the command line shared by all check binaries. It returns nil
// after having served a -worker / -replay invocation (the caller just returns).
func Setup(id, part, level string, scenarios func()) *Ctx {
	if scenarios != nil {
		scenarios()
	}
	args := os.Args[1:]
	if len(args) > 0 && args[0] == "-worker" {
		vs.WorkerMain(1500)
		covrt.Flush()
		return nil
	}
	c := &Ctx{ID: id, Part: part, Level: level, Tier: "quick", Start: time.Now(), distinct: map[string]struct{}{}, notes: map[string]any{}, exhaustive: true, Workers: 16}
	if t := os.Getenv("VERIF_TIER"); t != "" {
		c.Tier = t
	}
	if s := os.Getenv("VERIF_SEED"); s != "" {
		c.Seed, _ = strconv.Atoi(s)
	}
	for i := 0; i < len(args); i++ {
		switch args[i] {
		case "quick", "thorough":
			c.Tier = args[i]
		case "-replay", "--replay":
			if i+1 < len(args) {
				c.replay(args[i+1])
			}
			return nil
		case "-budget":
			i++
		}
	}
	budget := 100 * time.Second
	if c.Tier == "thorough" {
		budget = 20 * time.Minute
	}
	if b := os.Getenv("VERIF_BUDGET_S"); b != "" {
		if n, err := strconv.Atoi(b); err == nil {
			budget = time.Duration(n) * time.Second
		}
	}
	c.Deadline = c.Start.Add(budget)
	if w := os.Getenv("VERIF_WORKERS"); w != "" {
		c.Workers, _ = strconv.Atoi(w)
	}
	c.loadKnown()
	return c
}

func (c *Ctx) loadKnown() {
	b, err := os.ReadFile(filepath.Join(Root, "known_findings.json"))
	if err != nil {
		return
	}
	var all []Known
	if err := json.Unmarshal(b, &all); err != nil {
		fmt.Fprintf(os.Stderr, "known_findings.json: %v\n", err)
		os.Exit(2)
	}
	for _, k := range all {
		if k.Property == c.ID {
			c.known = append(c.known, k)
		}
	}
}

// E2Replayers maps E2 case kinds to functions that re-run one case and return a violation message ("" = holds).
var E2Replayers = map[string]func(raw json.RawMessage) string{}

func (c *Ctx) replay(path string) {
	b, err := os.ReadFile(path)
	if err != nil {
		fmt.Fprintln(os.Stderr, err)
		os.Exit(2)
	}
	var rf struct {
		ReplayFile
		Case json.RawMessage `json:"case"`
	}
	if err := json.Unmarshal(b, &rf); err != nil {
		fmt.Fprintln(os.Stderr, err)
		os.Exit(2)
	}
	if rf.Part != "" && rf.Part != c.Part {
		fmt.Printf("replay file belongs to part %q; this binary is part %q: skipped\n", rf.Part, c.Part)
		os.Exit(0)
	}
	if rf.Kind == "e1" {
		r := vs.ReplayP(rf.Scenario, rf.Devs, rf.Policy, true)
		for _, l := range r.Trace {
			fmt.Println(l)
		}
		if r.HarnessE != "" {
			fmt.Println("HARNESS ERROR:", r.HarnessE)
			os.Exit(2)
		}
		bad := append(append(append([]string{}, r.Fails...), r.Races...), r.Panics...)
		if len(bad) > 0 {
			for _, m := range bad {
				fmt.Println("REPRODUCED:", m)
			}
			fmt.Printf("VIOLATION property=%s replay=%s\n", c.ID, path)
			os.Exit(1)
		}
		fmt.Println("not reproduced: the execution satisfies the oracle")
		os.Exit(0)
	}
	parts := strings.SplitN(rf.Scenario, ":", 2)
	f := E2Replayers[parts[0]]
	if f == nil {
		fmt.Fprintf(os.Stderr, "no E2 replayer for %q\n", rf.Scenario)
		os.Exit(2)
	}
	if m := f(rf.Case); m != "" {
		fmt.Println("REPRODUCED:", m)
		fmt.Printf("VIOLATION property=%s replay=%s\n", c.ID, path)
		os.Exit(1)
	}
	fmt.Println("not reproduced")
	os.Exit(0)
}

func (c *Ctx) Rule(s string)        { c.rules = append(c.rules, s) }
func (c *Ctx) Assume(s string)      { c.assumptions = append(c.assumptions, s) }
func (c *Ctx) Note(k string, v any) { c.notes[k] = v }
func (c *Ctx) Cap(s string)         { c.caps = append(c.caps, s); c.exhaustive = false }
func (c *Ctx) Sample(v any) {
	if len(c.samples) < 8 {
		c.samples = append(c.samples, v)
	}
}
func (c *Ctx) TimeUp() bool { return time.Now().After(c.Deadline) }

// Count records E2 work: n evaluations; key identifies a distinct non-trivial case ("" = trivial).
func (c *Ctx) Count(key string) {
	c.evals++
	if key != "" {
		if len(c.distinct) < 2_000_000 {
			c.distinct[key] = struct{}{}
		} else {
			c.distinctN++ // beyond the cap distinctness is no longer tracked (counted conservatively as not distinct)
		}
	}
}

// Distinct registers a distinct non-trivial case without counting an evaluation.
func (c *Ctx) Distinct(key string) {
	if len(c.distinct) < 2_000_000 {
		c.distinct[key] = struct{}{}
	}
}

// States records explicit-state search statistics (E2 BFS).
func (c *Ctx) States(states, transitions int64) {
	c.states += states
	c.transitions += transitions
	c.traces += transitions
}

// ViolateConfirmed is Violate for free-running (real socket) parts: the case is re-run `times` times through its
// registered E2 replayer first and only reported when it fails every time; otherwise it is recorded as
// unreproducible (inconclusive) in the evidence and does not affect the verdict.
func (c *Ctx) ViolateConfirmed(kind, sig, msg string, cs any, times int) {
	f := E2Replayers[kind]
	if f == nil {
		c.Violate(kind, sig, msg, cs)
		return
	}
	// A change that breaks many cases at once would spend its time re-running all of them one after the other: once
	// five failures of a kind are confirmed, further failing cases of that kind are counted but not re-run or listed.
	if confirmedByKind[kind] >= 5 {
		n, _ := c.notes["further_failing_cases_not_rerun:"+kind].(int)
		c.notes["further_failing_cases_not_rerun:"+kind] = n + 1
		return
	}
	raw, _ := json.Marshal(cs)
	for i := 0; i < times; i++ {
		if m := f(raw); m == "" {
			l, _ := c.notes["unreproducible"].([]string)
			c.notes["unreproducible"] = append(l, fmt.Sprintf("%s (failed once, passed on re-run %d)", msg, i+1))
			c.Cap("a failure did not reproduce on re-run: " + clipStr(msg, 160))
			return
		}
	}
	confirmedByKind[kind]++
	c.Violate(kind, sig, msg, cs)
}

var confirmedByKind = map[string]int{}

func clipStr(s string, n int) string {
	if len(s) > n {
		return s[:n] + "..."
	}
	return s
}

// Violate records an E2 violation with a replayable case.
func (c *Ctx) Violate(kind string, sig, msg string, cs any) {
	for _, v := range c.viols {
		if v.Sig == sig {
			return
		}
	}
	rf := ReplayFile{Property: c.ID, Part: c.Part, Kind: "e2", Scenario: kind, Case: cs, Sig: sig, Msg: msg}
	c.viols = append(c.viols, viol{Sig: sig, Msg: msg, Replay: c.writeReplay(rf)})
}

func (c *Ctx) writeReplay(rf ReplayFile) string {
	h := sha256.Sum256([]byte(rf.Sig))
	rdir := filepath.Join(Root, "replays")
	if d := os.Getenv("VERIF_REPLAY_DIR"); d != "" {
		rdir = d
	}
	_ = os.MkdirAll(rdir, 0o755)
	p := filepath.Join(rdir, fmt.Sprintf("%s-%s.json", c.ID, hex.EncodeToString(h[:5])))
	b, _ := json.MarshalIndent(rf, "", " ")
	_ = os.WriteFile(p, b, 0o644)
	return p
}

// Explore runs one E1 scenario with the remaining budget share and folds the result in.
// share is the fraction of the remaining budget this exploration may use.
func (c *Ctx) Explore(scn string, bound int, share float64) *vs.Summary {
	return c.ExploreP(scn, bound, share, 0)
}

// ExploreBoth explores the scenario under both default thread orders (oldest-first and newest-first):
// the deviation bound is counted from the default schedule, so two different defaults reach
// different interleavings within the same bound.
func (c *Ctx) ExploreBoth(scn string, bound int, share float64) {
	c.ExploreP(scn, bound, share/2, 0)
	c.ExploreP(scn, bound, share, 1)
}

// ExploreP is Explore under a given default thread order (0 = oldest first, 1 = newest first).
func (c *Ctx) ExploreP(scn string, bound int, share float64, policy int) *vs.Summary {
	rem := time.Until(c.Deadline)
	if rem < 2*time.Second {
		rem = 2 * time.Second
	}
	d := time.Duration(float64(rem) * share)
	// a floor: scenarios that finish early leave their time to the later ones, so a small share must not starve a
	// slow scenario while most of the budget is still unused
	if floor := rem / 3; d < floor {
		if floor > 15*time.Second && c.Quick() {
			floor = 15 * time.Second
		}
		if d < floor {
			d = floor
		}
	}
	dl := time.Now().Add(d)
	s := vs.Explore(scn, vs.ExploreOpts{Bound: bound, Workers: c.Workers, Deadline: dl, Policy: policy})
	c.fold(s)
	return s
}

func (c *Ctx) fold(s *vs.Summary) {
	c.evals += int64(s.Execs)
	c.states += s.TreeNodes
	c.transitions += s.Transitions
	c.traces += int64(s.Execs)
	for i := 0; i < s.DistinctEnd; i++ {
		c.distinct[fmt.Sprintf("%s/end%d", s.Scenario, i)] = struct{}{}
	}
	for i := 0; i < s.DistinctObs; i++ {
		c.distinct[fmt.Sprintf("%s/obs%d", s.Scenario, i)] = struct{}{}
	}
	info := map[string]any{
		"executions": s.Execs, "bound_target": s.BoundTarget, "bound_completed": s.BoundCompleted, "per_level": s.PerLevel,
		"distinct_end_states": s.DistinctEnd, "distinct_observation_traces": s.DistinctObs, "max_steps": s.MaxSteps,
		"branch_points": s.BranchPoints, "schedule_prefixes": s.TreeNodes, "steps": s.Transitions, "wall_s": s.Wall, "max_virtual_time": s.MaxVNow.String(),
	}
	if s.Stopped != "" {
		info["stopped"] = s.Stopped
	}
	sc, _ := c.notes["scenarios"].(map[string]any)
	if sc == nil {
		sc = map[string]any{}
		c.notes["scenarios"] = sc
	}
	skey := s.Scenario
	if s.Policy != 0 {
		skey = fmt.Sprintf("%s@policy%d", s.Scenario, s.Policy)
		info["default_order"] = "newest thread first"
	}
	sc[skey] = info
	if !s.Exhaustive {
		c.Cap(fmt.Sprintf("%s: bound %d not completed (completed %d, %s)", s.Scenario, s.BoundTarget, s.BoundCompleted, s.Stopped))
	}
	if len(c.samples) < 8 && len(s.Samples) > 0 {
		c.samples = append(c.samples, map[string]any{"scenario": s.Scenario, "executions": s.Samples})
	}
	if s.HarnessErr != "" {
		c.harnessErr = append(c.harnessErr, s.Scenario+": "+s.HarnessErr)
		return
	}
	for _, v := range s.Violations {
		c.e1ViolationP(s.Scenario, v, s.Policy)
	}
}

// FoldExec folds one batch execution (RunBatch) into the counters and reports its violations.
func (c *Ctx) FoldExec(r *vs.ExecResult) {
	c.evals++
	c.states += int64(r.Steps)
	c.transitions += int64(r.Steps)
	c.traces++
	if r.EndState != "" {
		h := sha256.Sum256([]byte(r.EndState))
		c.distinct[hex.EncodeToString(h[:8])] = struct{}{}
	}
	if r.Scenario != "" && r.HarnessE == "" {
		c.Distinct("case:" + r.Scenario) // every enumerated case is a distinct input of the lattice
	}
	if r.HarnessE != "" {
		c.harnessErr = append(c.harnessErr, r.Scenario+": "+r.HarnessE)
		return
	}
	add := func(kind, m string) {
		sig := kind + ":" + vs.NormalizeMsg(m)
		if kind == "race" {
			sig = "race:" + vs.RaceSig(m)
		}
		c.e1Violation(r.Scenario, vs.Violation{Kind: kind, Msg: m, Devs: r.Devs, Sig: sig})
	}
	for _, m := range r.Fails {
		add("fail", m)
	}
	for _, m := range r.Races {
		add("race", m)
	}
	for _, m := range r.Panics {
		add("panic", m)
	}
}

func (c *Ctx) e1Violation(scn string, v vs.Violation) { c.e1ViolationP(scn, v, 0) }

func (c *Ctx) e1ViolationP(scn string, v vs.Violation, policy int) {
	sig := scn + "|" + v.Sig
	if len(c.viols) >= 25 {
		c.Note("violations_not_confirmed_beyond", 25)
		return
	}
	for _, old := range c.viols {
		if old.Sig == sig {
			return
		}
	}
	// replay before report: 5 re-executions must reproduce the same finding (fewer for scenarios a check declares
	// expensive, e.g. a whole breadth-first search running inside one execution)
	times := 5
	if c.ConfirmTimes != nil {
		if n := c.ConfirmTimes(scn); n > 0 {
			times = n
		}
	}
	var last vs.ExecResult
	for i := 0; i < times; i++ {
		var r vs.ExecResult
		r = vs.ReplayP(scn, v.Devs, policy, i == times-1 && times >= 5) // no step trace for scenarios declared expensive
		if r.HarnessE != "" {
			c.harnessErr = append(c.harnessErr, fmt.Sprintf("%s: replay of %v: %s", scn, v.Devs, r.HarnessE))
			return
		}
		found := false
		for _, m := range append(append(append([]string{}, r.Fails...), r.Races...), r.Panics...) {
			if vs.NormalizeMsg(m) == vs.NormalizeMsg(v.Msg) || (v.Kind == "race" && vs.RaceSig(m) == vs.RaceSig(v.Msg)) {
				found = true
			}
		}
		if v.Kind == "livelock" && r.EndWhy == "steplimit" {
			found = true
		}
		if !found {
			c.harnessErr = append(c.harnessErr, fmt.Sprintf("%s: violation %q did not reproduce on replay %d of %v (nondeterminism leak)", scn, v.Msg, i, v.Devs))
			return
		}
		last = r
	}
	rf := ReplayFile{Property: c.ID, Part: c.Part, Kind: "e1", Scenario: scn, Devs: v.Devs, Policy: policy, Sig: sig, Msg: v.Msg, Trace: last.Trace}
	c.viols = append(c.viols, viol{Sig: sig, Msg: v.Msg, Replay: c.writeReplay(rf)})
}

func (c *Ctx) matchKnown(sig string) *Known {
	for i := range c.known {
		k := &c.known[i]
		if k.Status == "known" && k.Signature != "" && strings.Contains(sig, k.Signature) {
			return k
		}
	}
	return nil
}

// Finish writes the evidence file, prints the verdict lines and exits.
func (c *Ctx) Finish() {
	unknown := 0
	seenKnown := map[string]bool{}
	for _, v := range c.viols {
		if k := c.matchKnown(v.Sig); k != nil {
			if !seenKnown[k.Signature] {
				seenKnown[k.Signature] = true
				fmt.Printf("KNOWN-FINDING: property=%s %s\n", c.ID, k.What)
			}
			continue
		}
		unknown++
		fmt.Printf("VIOLATION property=%s replay=%s\n", c.ID, v.Replay)
		fmt.Printf("  signature: %s\n  message: %s\n", v.Sig, firstLines(v.Msg, 12))
	}
	cov := map[string]any{
		"evaluations":         c.evals,
		"distinct_nontrivial": int64(len(c.distinct)),
		"rule":                strings.Join(c.rules, " | "),
		"samples":             c.samples,
		"exhaustive":          c.exhaustive && len(c.harnessErr) == 0,
	}
	if c.Level == "model_checking" {
		cov["states"] = c.states
		cov["transitions"] = c.transitions
		cov["traces_validated_against_impl"] = c.traces
	}
	if len(c.caps) > 0 {
		cov["caps_hit"] = c.caps
	}
	for k, v := range c.notes {
		cov[k] = v
	}
	if len(c.samples) == 0 {
		cov["samples"] = []any{"(no sample recorded)"}
	}
	ev := map[string]any{
		"property_id": c.ID, "tier": c.Tier, "seed": c.Seed, "level": c.Level, "coverage": cov,
		"assumptions": c.assumptions, "wall_s": time.Since(c.Start).Seconds(), "violations": unknown,
	}
	if c.Part != "" {
		ev["part"] = c.Part
	}
	if len(c.harnessErr) > 0 {
		ev["harness_errors"] = c.harnessErr
	}
	evdir := filepath.Join(Root, "evidence")
	if d := os.Getenv("VERIF_EVIDENCE_DIR"); d != "" { // side runs (coverage measurement) must not overwrite the registered evidence
		evdir = d
	}
	_ = os.MkdirAll(evdir, 0o755)
	name := c.ID + ".json"
	if c.Part != "" {
		name = c.ID + ".part-" + c.Part + ".json"
	}
	b, _ := json.MarshalIndent(ev, "", " ")
	if err := os.WriteFile(filepath.Join(evdir, name), b, 0o644); err != nil {
		fmt.Fprintln(os.Stderr, err)
		os.Exit(2)
	}
	covrt.Flush()
	fmt.Printf("%s[%s] %s: evaluations=%d states=%d transitions=%d distinct=%d exhaustive=%v wall=%.1fs\n", c.ID, c.Part, c.Tier, c.evals, c.states, c.transitions, len(c.distinct), cov["exhaustive"], time.Since(c.Start).Seconds())
	if len(c.harnessErr) > 0 {
		sort.Strings(c.harnessErr)
		for _, e := range c.harnessErr {
			fmt.Fprintf(os.Stderr, "HARNESS ERROR (not a property verdict): %s\n", firstLines(e, 40))
		}
		if unknown == 0 {
			os.Exit(2)
		}
	}
	if unknown > 0 {
		// a violation that reproduced on every re-execution stands, whatever went wrong in another scenario
		os.Exit(1)
	}
	os.Exit(0)
}

func firstLines(s string, n int) string {
	l := strings.Split(s, "\n")
	if len(l) > n {
		l = l[:n]
	}
	return strings.Join(l, "\n    ")
}
