// Package peek reads unexported fields of live objects (reflect + unsafe) so
// that oracles can inspect the private tables of the code under test.
package peek

import (
	"fmt"
	"reflect"
	"sort"
	"strings"
	"unsafe"
)

// F follows a dotted path of field names starting at v (a pointer or interface to a struct).
// It panics with a clear message when the path no longer exists (tree refactored).
func F(v any, path string) reflect.Value {
	rv := reflect.ValueOf(v)
	return Walk(rv, path)
}

func Walk(rv reflect.Value, path string) reflect.Value {
	for _, name := range strings.Split(path, ".") {
		for rv.Kind() == reflect.Pointer || rv.Kind() == reflect.Interface {
			if rv.IsNil() {
				return reflect.Value{}
			}
			rv = rv.Elem()
		}
		if rv.Kind() != reflect.Struct {
			panic(fmt.Sprintf("peek: %q: not a struct at %q (%s)", path, name, rv.Kind()))
		}
		f := rv.FieldByName(name)
		if !f.IsValid() {
			panic(fmt.Sprintf("peek: field %q of path %q not found in %s", name, path, rv.Type()))
		}
		if !f.CanAddr() {
			panic(fmt.Sprintf("peek: %q not addressable; start from a pointer", path))
		}
		rv = reflect.NewAt(f.Type(), unsafe.Pointer(f.UnsafeAddr())).Elem()
	}
	return rv
}

// Open makes a value obtained from a map/slice element readable (strips the read-only flag).
func Open(rv reflect.Value) reflect.Value {
	if !rv.IsValid() {
		return rv
	}
	if rv.CanInterface() {
		return rv
	}
	if rv.CanAddr() {
		return reflect.NewAt(rv.Type(), unsafe.Pointer(rv.UnsafeAddr())).Elem()
	}
	// copy through a fresh addressable value
	n := reflect.New(rv.Type()).Elem()
	switch rv.Kind() {
	case reflect.Pointer, reflect.Map, reflect.Chan, reflect.Func, reflect.UnsafePointer:
		*(*unsafe.Pointer)(unsafe.Pointer(n.UnsafeAddr())) = rv.UnsafePointer()
		return n
	case reflect.String:
		n.SetString(rv.String())
		return n
	case reflect.Int, reflect.Int8, reflect.Int16, reflect.Int32, reflect.Int64:
		n.SetInt(rv.Int())
		return n
	case reflect.Uint, reflect.Uint8, reflect.Uint16, reflect.Uint32, reflect.Uint64:
		n.SetUint(rv.Uint())
		return n
	case reflect.Bool:
		n.SetBool(rv.Bool())
		return n
	}
	return rv
}

// MapKeys returns the keys of a map value, rendered and sorted.
func MapKeys(m reflect.Value) []string {
	if !m.IsValid() || m.Kind() != reflect.Map {
		return nil
	}
	var out []string
	for _, k := range m.MapKeys() {
		out = append(out, Str(k))
	}
	sort.Strings(out)
	return out
}

// Str renders basic kinds without needing CanInterface.
func Str(v reflect.Value) string {
	switch v.Kind() {
	case reflect.String:
		return v.String()
	case reflect.Int, reflect.Int8, reflect.Int16, reflect.Int32, reflect.Int64:
		return fmt.Sprint(v.Int())
	case reflect.Uint, reflect.Uint8, reflect.Uint16, reflect.Uint32, reflect.Uint64:
		return fmt.Sprint(v.Uint())
	case reflect.Bool:
		return fmt.Sprint(v.Bool())
	case reflect.Pointer:
		return fmt.Sprintf("%p", v.UnsafePointer())
	}
	return fmt.Sprint(Open(v))
}

// Each iterates a map value in sorted key order.
func Each(m reflect.Value, f func(key string, k, v reflect.Value)) {
	if !m.IsValid() || m.Kind() != reflect.Map {
		return
	}
	keys := m.MapKeys()
	sort.Slice(keys, func(i, j int) bool { return Str(keys[i]) < Str(keys[j]) })
	for _, k := range keys {
		f(Str(k), k, Open(m.MapIndex(k)))
	}
}

// Len of map/slice/chan (0 for invalid).
func Len(v reflect.Value) int {
	if !v.IsValid() {
		return 0
	}
	switch v.Kind() {
	case reflect.Map, reflect.Slice, reflect.Chan, reflect.Array, reflect.String:
		return v.Len()
	}
	return 0
}
