// C05 — configured encryption really protects the wire; TLS identity rules are enforced.
// E2 with real sockets: real frps and real frpc in-process, connected through a recording TCP relay (the observer).
package main

import (
	"bytes"
	"encoding/base64"
	"encoding/hex"
	"encoding/json"
	"fmt"
	"io"
	"net"
	"net/http"
	"strings"
	"sync"
	"time"

	"github.com/samber/lo"
	"golang.org/x/net/websocket"

	"github.com/fatedier/frp/pkg/config/types"
	v1 "github.com/fatedier/frp/pkg/config/v1"
	netpkg "github.com/fatedier/frp/pkg/util/net"

	"verif/mc/drv"
	"verif/mc/peek"
	_ "verif/mc/quiet"
	rw "verif/mc/worlds/realworld"
)

const (
	tokenMarker   = "TOKENmarker9f8e7d6c5b4a3928"
	skMarker      = "SECRETKEYmarker1a2b3c4d5e6f"
	httpPwdMarker = "HTTPPWDmarker5e6f7a8b9c0d"
	payloadMarker = "PAYLOADmarker77aa88bb99cc00dd"
)

// ---- recording relay ----

type relay struct {
	ln     net.Listener
	target string
	mu     sync.Mutex
	log    bytes.Buffer // everything seen on the path, both directions
	c2s    bytes.Buffer
}

func startRelay(target string) *relay {
	l, err := net.Listen("tcp", "127.0.0.1:0")
	if err != nil {
		panic(err)
	}
	r := &relay{ln: l, target: target}
	go func() {
		for {
			c, err := l.Accept()
			if err != nil {
				return
			}
			go func() {
				s, err := net.Dial("tcp", target)
				if err != nil {
					c.Close()
					return
				}
				cp := func(dst, src net.Conn, c2s bool) {
					buf := make([]byte, 32*1024)
					for {
						n, err := src.Read(buf)
						if n > 0 {
							r.mu.Lock()
							r.log.Write(buf[:n])
							if c2s {
								r.c2s.Write(buf[:n])
							}
							r.mu.Unlock()
							dst.Write(buf[:n])
						}
						if err != nil {
							dst.Close()
							src.Close()
							return
						}
					}
				}
				go cp(s, c, true)
				cp(c, s, false)
			}()
		}
	}()
	return r
}

func (r *relay) port() int { return r.ln.Addr().(*net.TCPAddr).Port }
func (r *relay) bytes() []byte {
	r.mu.Lock()
	defer r.mu.Unlock()
	return append([]byte(nil), r.log.Bytes()...)
}
func (r *relay) clientBytes() []byte {
	r.mu.Lock()
	defer r.mu.Unlock()
	return append([]byte(nil), r.c2s.Bytes()...)
}

// forms under which a secret could appear in clear
func forms(s string) map[string][]byte {
	out := map[string][]byte{"raw": []byte(s), "hex": []byte(hex.EncodeToString([]byte(s))), "HEX": []byte(strings.ToUpper(hex.EncodeToString([]byte(s))))}
	for pad := 0; pad < 3; pad++ {
		e := base64.StdEncoding.EncodeToString(append(bytes.Repeat([]byte{'x'}, pad), s...))
		// drop the characters influenced by the padding prefix / suffix
		core := e[4 : len(e)-4]
		out[fmt.Sprintf("base64/%d", pad)] = []byte(core)
	}
	j, _ := json.Marshal(s)
	out["json"] = j[1 : len(j)-1]
	return out
}

func findMarker(wire []byte, s string) string {
	for name, f := range forms(s) {
		if bytes.Contains(wire, f) {
			return name
		}
	}
	return ""
}

var frameTypes = []byte("o1p2cwrsv3h4uinm56")

// looksLikeFrame reports a recognisable control frame header: [type][8-byte big-endian length < 10240]{
func looksLikeFrame(wire []byte) int {
	for i := 0; i+10 < len(wire); i++ {
		if bytes.IndexByte(frameTypes, wire[i]) >= 0 && wire[i+1] == 0 && wire[i+2] == 0 && wire[i+3] == 0 && wire[i+4] == 0 && wire[i+5] == 0 && wire[i+6] == 0 && wire[i+7] < 0x28 && wire[i+9] == '{' {
			return i
		}
	}
	return -1
}

type cell struct {
	TLS     bool   `json:"tls"`
	NoFirst bool   `json:"disableCustomTLSFirstByte"`
	Force   bool   `json:"force"`
	Enc     bool   `json:"enc"`
	Comp    bool   `json:"comp"`
	Proto   string `json:"proto"`
	Mux     bool   `json:"mux"`
	NoToken bool   `json:"emptyToken,omitempty"`
}

func runCell(c cell) (viol []string, inconclusive string) {
	httpPort := rw.FreePort()
	srv, err := rw.StartServer(func(s *v1.ServerConfig) {
		s.Auth.Token = tokenMarker
		if c.NoToken {
			s.Auth.Token = ""
		}
		s.Transport.TCPMux = lo.ToPtr(c.Mux)
		s.Transport.TLS.Force = c.Force
		s.VhostHTTPPort = httpPort
	})
	if err != nil {
		return nil, "server: " + err.Error()
	}
	defer srv.Close()
	rl := startRelay(fmt.Sprintf("127.0.0.1:%d", srv.Cfg.BindPort))
	defer rl.ln.Close()
	be := rw.StartEcho()
	defer be.Close()
	hb := newHTTPBackend()
	defer hb.Close()
	remote, vport := rw.FreePort(), rw.FreePort()
	tcp := &v1.TCPProxyConfig{}
	tcp.Name, tcp.Type, tcp.LocalIP, tcp.LocalPort, tcp.RemotePort = "t", "tcp", "127.0.0.1", be.Port, remote
	tcp.Transport.UseEncryption, tcp.Transport.UseCompression = c.Enc, c.Comp
	// a (generous) bandwidth limit puts one more wrapper around the stream on one side: enforced by the server in the
	// cells with stream multiplexing, by the client in the others
	tcp.Transport.BandwidthLimit, _ = types.NewBandwidthQuantity("50MB")
	tcp.Transport.BandwidthLimitMode = map[bool]string{true: "server", false: "client"}[c.Mux]
	st := &v1.STCPProxyConfig{}
	st.Name, st.Type, st.LocalIP, st.LocalPort, st.Secretkey = "s", "stcp", "127.0.0.1", be.Port, skMarker
	st.Transport.UseEncryption, st.Transport.UseCompression = c.Enc, c.Comp
	hp := &v1.HTTPProxyConfig{}
	hp.Name, hp.Type, hp.LocalIP, hp.LocalPort = "h", "http", "127.0.0.1", hb.Addr().(*net.TCPAddr).Port
	hp.CustomDomains = []string{"web.example.com"}
	hp.HTTPUser, hp.HTTPPassword = "alice", httpPwdMarker
	hp.Transport.UseEncryption, hp.Transport.UseCompression = c.Enc, c.Comp
	mut := func(cc *v1.ClientCommonConfig) {
		cc.Auth.Token = tokenMarker
		if c.NoToken {
			cc.Auth.Token = ""
		}
		cc.ServerPort = rl.port()
		cc.Transport.Protocol = c.Proto
		cc.Transport.TCPMux = lo.ToPtr(c.Mux)
		cc.Transport.TLS.Enable = lo.ToPtr(c.TLS)
		cc.Transport.TLS.DisableCustomTLSFirstByte = lo.ToPtr(c.NoFirst)
		cc.LoginFailExit = lo.ToPtr(true)
	}
	cl, err := rw.StartClient(srv, "", []v1.ProxyConfigurer{tcp, st, hp}, nil, mut)
	if err != nil {
		return nil, "client: " + err.Error()
	}
	defer cl.Close()
	up := cl.WaitRunning(6*time.Second, "t", "s", "h")
	expectUp := c.TLS || !c.Force
	if !expectUp {
		if up {
			viol = append(viol, "server forces TLS, client without TLS: the client got a session and running proxies")
		}
		if n := peek.F(srv.Svc, "ctlManager.ctlsByRunID").Len(); n != 0 {
			viol = append(viol, fmt.Sprintf("server forces TLS, client without TLS: %d sessions exist", n))
		}
	} else if !up {
		return nil, "proxies did not come up"
	}
	if up {
		// visitor for the stcp proxy, also through the relay
		v := &v1.STCPVisitorConfig{}
		v.Name, v.Type, v.ServerName, v.SecretKey, v.BindAddr, v.BindPort = "sv", "stcp", "s", skMarker, "127.0.0.1", vport
		v.Transport.UseEncryption, v.Transport.UseCompression = c.Enc, c.Comp
		vc, err := rw.StartClient(srv, "", nil, []v1.VisitorConfigurer{v}, mut)
		if err == nil {
			defer vc.Close()
		}
		payload := []byte(strings.Repeat(payloadMarker+"|", 40))
		move := func(port int) string {
			if !rw.WaitPort(port, 4*time.Second) {
				return "port not listening"
			}
			u, err := net.DialTimeout("tcp", fmt.Sprintf("127.0.0.1:%d", port), 2*time.Second)
			if err != nil {
				return err.Error()
			}
			defer u.Close()
			_ = u.SetDeadline(time.Now().Add(8 * time.Second))
			u.Write(payload)
			got := make([]byte, len(payload))
			if _, err := io.ReadFull(u, got); err != nil {
				return "echo: " + err.Error()
			}
			return ""
		}
		if e := move(remote); e != "" {
			return nil, "tcp payload: " + e
		}
		if e := move(vport); e != "" {
			return nil, "stcp payload: " + e
		}
		req, _ := http.NewRequest("POST", fmt.Sprintf("http://127.0.0.1:%d/", httpPort), bytes.NewReader(payload))
		req.Host = "web.example.com"
		// no credentials in the user's request: only the registration carries the http password across the path
		resp, err := (&http.Client{Timeout: 8 * time.Second}).Do(req)
		if err != nil {
			return nil, "http request: " + err.Error()
		}
		io.Copy(io.Discard, resp.Body)
		resp.Body.Close()
		if resp.StatusCode != 401 {
			return nil, fmt.Sprintf("http request without credentials: status %d", resp.StatusCode)
		}
		time.Sleep(50 * time.Millisecond)
	}
	wire := rl.bytes()
	for name, m := range map[string]string{"authentication token": tokenMarker, "stcp secret key": skMarker, "http password of the registration": httpPwdMarker} {
		if f := findMarker(wire, m); f != "" {
			viol = append(viol, fmt.Sprintf("the %s appears on the frpc-frps path in clear (%s form)", name, f))
		}
	}
	if c.TLS || c.Enc {
		if f := findMarker(wire, payloadMarker); f != "" {
			viol = append(viol, fmt.Sprintf("tunnelled payload appears on the frpc-frps path in clear (%s form) although TLS=%v proxy encryption=%v", f, c.TLS, c.Enc))
		}
	}
	if c.TLS {
		if i := looksLikeFrame(wire); i >= 0 {
			viol = append(viol, fmt.Sprintf("with TLS enabled a control-message frame header is recognisable on the path at offset %d: %q", i, wire[i:min(i+40, len(wire))]))
		}
		for _, w := range []string{`"version"`, `"proxy_name"`, `"run_id"`, `"privilege_key"`} {
			if bytes.Contains(wire, []byte(w)) {
				viol = append(viol, "with TLS enabled control-message content appears in clear: "+w)
			}
		}
	}
	if len(wire) == 0 {
		return viol, "nothing crossed the relay"
	}
	return viol, ""
}

func newHTTPBackend() net.Listener {
	l, _ := net.Listen("tcp", "127.0.0.1:0")
	go http.Serve(l, http.HandlerFunc(func(w http.ResponseWriter, r *http.Request) {
		b, _ := io.ReadAll(r.Body)
		w.Write(b)
	}))
	return l
}

// firstByte: a peer without TLS / without an acceptable certificate cannot get any protocol message interpreted.
func runFirstBytes(mode string) (viol []string, n int, inconclusive string) {
	srv, err := rw.StartServer(func(s *v1.ServerConfig) {
		s.Auth.Token = tokenMarker
		s.Transport.TCPMux = lo.ToPtr(false)
		switch mode {
		case "force":
			s.Transport.TLS.Force = true
		case "trustedca":
			s.Transport.TLS.TrustedCaFile = rw.TestdataDir + "/ca.crt"
		case "trustedca-autocert":
			// a trusted CA with the server's own certificate left to be generated
			s.Transport.TLS.TrustedCaFile = rw.TestdataDir + "/ca.crt"
			s.Transport.TLS.CertFile, s.Transport.TLS.KeyFile = "", ""
		}
	})
	if err != nil {
		return nil, 0, err.Error()
	}
	defer srv.Close()
	login := []byte(`{"version":"0.62.0","user":"mallory","privilege_key":"00000000000000000000000000000000","timestamp":1}`)
	for b := 0; b < 256; b++ {
		n++
		c, err := net.DialTimeout("tcp", fmt.Sprintf("127.0.0.1:%d", srv.Cfg.BindPort), 2*time.Second)
		if err != nil {
			continue
		}
		frame := append([]byte{byte(b)}, make([]byte, 8)...)
		frame[8] = byte(len(login))
		frame = append(frame, login...)
		if b == 'o' {
			// a perfectly formed plain-text Login frame
		}
		c.Write(frame)
		_ = c.SetReadDeadline(time.Now().Add(1500 * time.Millisecond))
		reply, _ := io.ReadAll(c)
		c.Close()
		// allowed replies: nothing, or a TLS alert record (0x15 0x03 ..)
		if len(reply) > 0 && !(reply[0] == 0x15 && len(reply) >= 2 && reply[1] == 0x03) {
			if bytes.Contains(reply, []byte(`"error"`)) || bytes.Contains(reply, []byte(`"version"`)) || looksLikeFrame(reply) >= 0 {
				viol = append(viol, fmt.Sprintf("%s: first byte 0x%02x: the server interpreted a plain-text message and answered %q", mode, b, reply[:min(len(reply), 60)]))
			}
		}
		if ns := peek.F(srv.Svc, "ctlManager.ctlsByRunID").Len(); ns != 0 {
			viol = append(viol, fmt.Sprintf("%s: first byte 0x%02x: a session was created for a peer without TLS", mode, b))
			break
		}
	}
	if mode == "force" {
		// a peer that stays silent for longer than the server's first-byte wait (10 s) and then speaks plain text
		var dmu sync.Mutex
		var dwg sync.WaitGroup
		for _, first := range []byte{'o', 0x17} {
			n++
			dwg.Add(1)
			go func(first byte) {
				defer dwg.Done()
				c, err := net.DialTimeout("tcp", fmt.Sprintf("127.0.0.1:%d", srv.Cfg.BindPort), 2*time.Second)
				if err != nil {
					return
				}
				time.Sleep(11 * time.Second)
				frame := append([]byte{first}, make([]byte, 8)...)
				frame[8] = byte(len(login))
				c.Write(append(frame, login...))
				_ = c.SetReadDeadline(time.Now().Add(1500 * time.Millisecond))
				reply, _ := io.ReadAll(c)
				c.Close()
				if bytes.Contains(reply, []byte(`"error"`)) || bytes.Contains(reply, []byte(`"version"`)) || looksLikeFrame(reply) >= 0 {
					dmu.Lock()
					viol = append(viol, fmt.Sprintf("%s: first byte 0x%02x sent after 11 s of silence: the server interpreted a plain-text message and answered %q", mode, first, reply[:min(len(reply), 60)]))
					dmu.Unlock()
				}
			}(first)
		}
		// the same through the websocket front door, where the connection exists (after the HTTP upgrade) before the
		// peer has sent a single byte of the frp protocol
		n++
		dwg.Add(1)
		go func() {
			defer dwg.Done()
			addr := fmt.Sprintf("127.0.0.1:%d", srv.Cfg.BindPort)
			wcfg, err := websocket.NewConfig("ws://"+addr+netpkg.FrpWebsocketPath, "http://"+addr)
			if err != nil {
				return
			}
			raw, err := net.DialTimeout("tcp", addr, 2*time.Second)
			if err != nil {
				return
			}
			defer raw.Close()
			ws, err := websocket.NewClient(wcfg, raw)
			if err != nil {
				return
			}
			ws.PayloadType = websocket.BinaryFrame
			time.Sleep(11 * time.Second)
			frame := append([]byte{'o'}, make([]byte, 8)...)
			frame[8] = byte(len(login))
			ws.Write(append(frame, login...))
			_ = raw.SetReadDeadline(time.Now().Add(1500 * time.Millisecond))
			reply, _ := io.ReadAll(ws)
			if bytes.Contains(reply, []byte(`"error"`)) || bytes.Contains(reply, []byte(`"version"`)) || looksLikeFrame(reply) >= 0 {
				dmu.Lock()
				viol = append(viol, fmt.Sprintf("%s: a websocket peer that sent its first byte ('o', plain text) after 11 s of silence: the server interpreted a plain-text message and answered %q", mode, reply[:min(len(reply), 60)]))
				dmu.Unlock()
			}
		}()
		dwg.Wait()
	}
	if strings.HasPrefix(mode, "trustedca") {
		// TLS peers: no certificate / a certificate of another CA must be refused, a certificate of the CA accepted
		try := func(certName string) (loggedIn bool) {
			var proxies []v1.ProxyConfigurer
			cl, err := rw.StartClient(srv, "", proxies, nil, func(cc *v1.ClientCommonConfig) {
				cc.Auth.Token = tokenMarker
				cc.Transport.TCPMux = lo.ToPtr(false)
				cc.Transport.TLS.Enable = lo.ToPtr(true)
				if certName != "" {
					cc.Transport.TLS.CertFile = rw.TestdataDir + "/" + certName + ".crt"
					cc.Transport.TLS.KeyFile = rw.TestdataDir + "/" + certName + ".key"
				}
			})
			if err != nil {
				return false
			}
			defer func() {
				cl.Close()
				// let the server forget this client's session before the next attempt is judged
				for i := 0; i < 150 && peek.F(srv.Svc, "ctlManager.ctlsByRunID").Len() > 0; i++ {
					time.Sleep(20 * time.Millisecond)
				}
			}()
			for i := 0; i < 100; i++ {
				if peek.F(srv.Svc, "ctlManager.ctlsByRunID").Len() > 0 {
					return true
				}
				time.Sleep(20 * time.Millisecond)
			}
			return false
		}
		n += 3
		if try("") {
			viol = append(viol, mode+": server with a trusted CA accepted a TLS client without certificate")
		}
		if try("other") {
			viol = append(viol, mode+": server with a trusted CA accepted a client certificate signed by another CA")
		}
		if !try("client") {
			viol = append(viol, mode+": server with a trusted CA refused a client certificate signed by that CA")
		}
	}
	return
}

// identity: a client given a trusted CA and server name refuses a server that presents another identity.
func runIdentity(variant string) (viol []string, inconclusive string) {
	srv, err := rw.StartServer(func(s *v1.ServerConfig) {
		s.Auth.Token = tokenMarker
		s.Transport.TCPMux = lo.ToPtr(false)
		if strings.HasPrefix(variant, "other-ca") {
			s.Transport.TLS.CertFile = rw.TestdataDir + "/other.crt"
			s.Transport.TLS.KeyFile = rw.TestdataDir + "/other.key"
		}
	})
	if err != nil {
		return nil, err.Error()
	}
	defer srv.Close()
	rl := startRelay(fmt.Sprintf("127.0.0.1:%d", srv.Cfg.BindPort))
	defer rl.ln.Close()
	cl, err := rw.StartClient(srv, "", nil, nil, func(cc *v1.ClientCommonConfig) {
		cc.Auth.Token = tokenMarker
		cc.ServerPort = rl.port()
		cc.Transport.TCPMux = lo.ToPtr(false)
		cc.Transport.TLS.Enable = lo.ToPtr(true)
		cc.Transport.TLS.TrustedCaFile = rw.TestdataDir + "/ca.crt"
		switch variant {
		case "good":
			cc.Transport.TLS.ServerName = "frps.example.com"
		case "wrong-name":
			cc.Transport.TLS.ServerName = "someone-else.example.com"
		case "other-ca":
			cc.Transport.TLS.ServerName = "evil.example.com"
		case "other-ca-noname":
			// no server name configured and the server addressed by IP literal: the CA check still applies
			cc.Transport.TLS.ServerName = ""
		case "missing-ca":
			// the configured CA file cannot be read when the client dials: the client must not fall back to a
			// connection without the identity check (or without TLS)
			cc.Transport.TLS.ServerName = "frps.example.com"
			cc.Transport.TLS.TrustedCaFile = rw.TestdataDir + "/no-such-ca.crt"
		case "missing-cert":
			cc.Transport.TLS.ServerName = "frps.example.com"
			cc.Transport.TLS.CertFile = rw.TestdataDir + "/no-such-client.crt"
			cc.Transport.TLS.KeyFile = rw.TestdataDir + "/client.key"
		}
	})
	if err != nil {
		return nil, err.Error()
	}
	defer cl.Close()
	logged := false
	for i := 0; i < 100; i++ {
		if peek.F(srv.Svc, "ctlManager.ctlsByRunID").Len() > 0 {
			logged = true
			break
		}
		time.Sleep(20 * time.Millisecond)
	}
	if variant == "good" {
		if !logged {
			return nil, "client with the right CA and name did not log in"
		}
		return nil, ""
	}
	if logged {
		viol = append(viol, fmt.Sprintf("client with trusted CA (%s) logged in to a server presenting another identity", variant))
	}
	// nothing but TLS handshake records may have left the client
	cb := rl.clientBytes()
	if strings.HasPrefix(variant, "missing-") && bytes.Contains(cb, []byte("privilege_key")) {
		viol = append(viol, fmt.Sprintf("client (%s) whose TLS configuration cannot be built sent its login in clear", variant))
	}
	appData := 0
	defer func() {
		if appData > 100 {
			viol = append(viol, fmt.Sprintf("client (%s) sent %d bytes of application data (its login) to a server whose identity it must refuse", variant, appData))
		}
	}()
	for off := 0; off+5 <= len(cb); {
		if off == 0 && cb[0] == 0x17 {
			off++ // frp's custom first byte announcing TLS
			continue
		}
		typ := cb[off]
		ln := int(cb[off+3])<<8 | int(cb[off+4])
		if typ == 0x17 {
			// TLS 1.3 wraps the client's own alert in an application-data record (a few dozen bytes);
			// a login message would be several hundred bytes
			appData += ln
		}
		if typ != 0x16 && typ != 0x15 && typ != 0x14 && typ != 0x17 {
			break
		}
		off += 5 + ln
	}
	return viol, ""
}

func main() {
	drv.E2Replayers["cell"] = func(raw json.RawMessage) string {
		var c cell
		json.Unmarshal(raw, &c)
		v, inc := runCell(c)
		if inc != "" {
			fmt.Println("inconclusive:", inc)
		}
		return strings.Join(v, "; ")
	}
	c := drv.Setup("C05", "e2", "exploration", nil)
	if c == nil {
		return
	}
	c.Rule("complete lattice tls.enable x disableCustomTLSFirstByte x server tls.force x proxy encryption x compression x protocol {tcp, websocket} x tcpMux (128 cells): real frps and frpc through a recording relay, a tcp, an stcp(+visitor) and an http proxy with high-entropy token / secret key / http password / payload markers searched in the relay log in raw, hex, base64 (3 alignments) and JSON forms; every first byte 0..255 against a server forcing TLS / with a trusted CA; client certificate matrix; client-side identity check (right name, wrong name, other CA, a CA / certificate file that cannot be read at dial time: no login, nothing in clear); non-trivial = distinct cell / first byte")
	var cells []cell
	for m := 0; m < 128; m++ {
		cl := cell{TLS: m&1 != 0, NoFirst: m&2 != 0, Force: m&4 != 0, Enc: m&8 != 0, Comp: m&16 != 0, Mux: m&64 != 0, Proto: "tcp"}
		if m&32 != 0 {
			cl.Proto = "websocket"
		}
		cells = append(cells, cl)
	}
	// no authentication token configured (the control-channel cipher is then keyed by the empty string): the
	// registration secrets must still not cross in clear
	for m := 0; m < 8; m++ {
		cl := cell{NoToken: true, Enc: m&1 != 0, Mux: m&2 != 0, Proto: "tcp"}
		if m&4 != 0 {
			cl.Proto = "websocket"
		}
		cells = append(cells, cl)
	}
	type res struct {
		c   cell
		v   []string
		inc string
	}
	out := make(chan res, len(cells))
	sem := make(chan struct{}, 8)
	var wg sync.WaitGroup
	for _, cl := range cells {
		wg.Add(1)
		go func(cl cell) {
			defer wg.Done()
			sem <- struct{}{}
			defer func() { <-sem }()
			if c.TimeUp() {
				out <- res{cl, nil, "time budget"}
				return
			}
			v, inc := runCell(cl)
			out <- res{cl, v, inc}
		}(cl)
	}
	wg.Wait()
	close(out)
	inconclusive := 0
	for r := range out {
		key := fmt.Sprintf("%+v", r.c)
		if r.inc != "" && len(r.v) == 0 {
			inconclusive++
			c.Count("")
			c.Note("inconclusive:"+key, r.inc)
			continue
		}
		c.Count(key)
		for _, v := range r.v {
			c.ViolateConfirmed("cell", "cell:"+v, key+": "+v, r.c, 2)
		}
	}
	c.Sample(cells[1])
	c.Note("cells", len(cells))
	c.Note("inconclusive_cells", inconclusive)
	if inconclusive > 0 {
		c.Cap(fmt.Sprintf("%d of %d cells inconclusive", inconclusive, len(cells)))
	}
	type fbRes struct {
		v   []string
		n   int
		inc string
	}
	modes := []string{"force", "trustedca", "trustedca-autocert"}
	fb := make([]fbRes, len(modes))
	var fwg sync.WaitGroup
	for i, mode := range modes {
		fwg.Add(1)
		go func(i int, mode string) {
			defer fwg.Done()
			fb[i].v, fb[i].n, fb[i].inc = runFirstBytes(mode)
		}(i, mode)
	}
	fwg.Wait()
	for k, mode := range modes {
		v, n, inc := fb[k].v, fb[k].n, fb[k].inc
		for i := 0; i < n; i++ {
			c.Count(fmt.Sprintf("firstbyte:%s:%d", mode, i))
		}
		if inc != "" {
			c.Cap("first-byte sweep (" + mode + ") inconclusive: " + inc)
		}
		for _, x := range v {
			c.Violate("firstbyte", "firstbyte:"+x, x, mode)
		}
	}
	for _, variant := range []string{"good", "wrong-name", "other-ca", "other-ca-noname", "missing-ca", "missing-cert"} {
		v, inc := runIdentity(variant)
		c.Count("identity:" + variant)
		if inc != "" {
			c.Cap("identity " + variant + " inconclusive: " + inc)
		}
		for _, x := range v {
			c.Violate("identity", "identity:"+x, x, variant)
		}
	}
	c.Finish()
}
