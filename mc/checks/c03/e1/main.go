// C03 — UDP tunnels preserve datagram payloads, boundaries and reply addressing.
// E1: real frps + real frpc (udp proxy; sudp proxy + real frpc visitor) on the virtual network.
package main

import (
	"bytes"
	"fmt"
	"sort"
	"strings"
	"sync"
	"time"

	v1 "github.com/fatedier/frp/pkg/config/v1"

	"verif/mc/drv"
	"verif/mc/vs"
	"verif/mc/vs/vnet"
	sw "verif/mc/worlds/srvworld"
	tw "verif/mc/worlds/tunworld"
)

const packetSize = 1500

type udpBackend struct {
	c    *vnet.UDPConn
	got  [][]byte
	from []string
}

func startBackend(w *tw.World, port int) *udpBackend {
	c, err := w.H.UDPFrom(fmt.Sprintf("127.0.0.1:%d", port))
	if err != nil {
		panic(err)
	}
	b := &udpBackend{c: c}
	go func() {
		vs.SetDaemon()
		buf := make([]byte, 4096)
		for {
			n, from, err := c.ReadFromUDP(buf)
			if err != nil {
				return
			}
			p := append([]byte(nil), buf[:n]...)
			b.got = append(b.got, p)
			b.from = append(b.from, from.String())
			c.WriteToUDP(reply(p), from)
		}
	}()
	return b
}

// reply is the backend's answer: same length as the request (so that it also fits the packet size), every byte complemented.
func reply(p []byte) []byte {
	r := make([]byte, len(p))
	for i, b := range p {
		r[i] = ^b
	}
	return r
}

func pattern(tag byte, n int) []byte {
	b := make([]byte, n)
	for i := range b {
		b[i] = tag + byte(i*31)
	}
	return b
}

type user struct {
	sock  *vnet.UDPConn
	addr  string
	sent  [][]byte
	recvd [][]byte
}

func sizes(set string) []int {
	switch set {
	case "small":
		return []int{1, 64}
	case "edge":
		return []int{0, packetSize}
	case "mix":
		return []int{7, 64, packetSize}
	}
	return []int{64}
}

// scUDP: nUsers users send datagrams; optional cut of the work connection as a fault.
func scUDP(kind string, enc, comp bool, nUsers int, sizeSet string, cut bool) func(x *vs.Exec) {
	return func(x *vs.Exec) {
		defer sw.Guard()
		w := tw.New(x, sw.Opt{AllowPorts: sw.P(20000, 20003), UserConnTimeout: 5, HeartbeatTimeout: -1})
		be := startBackend(w, 9000)
		target := 20001
		var proxies []v1.ProxyConfigurer
		var visitors []v1.VisitorConfigurer
		if kind == "udp" {
			p := &v1.UDPProxyConfig{}
			p.Name, p.Type, p.LocalIP, p.LocalPort, p.RemotePort = "u", "udp", "127.0.0.1", 9000, 20001
			p.Transport.UseEncryption, p.Transport.UseCompression = enc, comp
			proxies = append(proxies, p)
		} else {
			p := &v1.SUDPProxyConfig{}
			p.Name, p.Type, p.LocalIP, p.LocalPort, p.Secretkey = "u", "sudp", "127.0.0.1", 9000, "sk"
			p.Transport.UseEncryption, p.Transport.UseCompression = enc, comp
			proxies = append(proxies, p)
			v := &v1.SUDPVisitorConfig{}
			v.Name, v.Type, v.ServerName, v.SecretKey, v.BindAddr, v.BindPort = "uv", "sudp", "u", "sk", "127.0.0.1", 6000
			v.Transport.UseEncryption, v.Transport.UseCompression = comp, enc
			visitors = append(visitors, v)
			target = 6000
		}
		cl := w.StartClient("owner", "", proxies, nil, nil)
		if !w.AwaitRunning(cl, 30*time.Second, "u") {
			vs.Fail("setup: proxy not running")
			return
		}
		if len(visitors) > 0 {
			w.StartClient("visitor", "", nil, visitors, nil)
		}
		// let the work connection of the udp proxy come up (the server waits 500 ms before asking for it)
		time.Sleep(3 * time.Second)
		w.Quiesce()
		users := make([]*user, nUsers)
		for i := range users {
			// users 0 and 1 share an IP (different ports); the virtual host keys UDP sockets by port, so ports are distinct
			addr := []string{"10.4.0.1:4000", "10.4.0.1:4001", "10.4.0.2:4002"}[i]
			s, err := w.H.UDPFrom(addr)
			if err != nil {
				vs.Fail("user socket: %v", err)
				return
			}
			users[i] = &user{sock: s, addr: addr}
		}
		dst := &vnet.UDPAddr{IP: vnet.ParseIP("127.0.0.1"), Port: target}
		var wg sync.WaitGroup
		vs.SetInterest(true)
		if cut {
			go func() {
				vs.Fault("cut the udp work connection")
				for _, victim := range w.InUseWorkConns() {
					vs.Observe("cut %v", victim.LocalAddr())
					victim.Close()
					victim.Peer.Close()
				}
			}()
		}
		for i, u := range users {
			wg.Add(1)
			go func(i int, u *user) {
				defer wg.Done()
				for k, n := range sizes(sizeSet) {
					if n == 0 && i > 0 {
						n = 2 + i // only one user sends the empty datagram: equal payloads from two users could not be told apart
					}
					p := pattern(byte(16*(i+1)+k), n)
					u.sent = append(u.sent, p)
					u.sock.WriteToUDP(p, dst)
				}
				// collect replies until the system is idle
				buf := make([]byte, 4096)
				for len(u.recvd) < len(u.sent) {
					if !vs.BlockFor("udp-reply", 20*time.Second, func() bool { return u.sock.Inbox() > 0 }) {
						return // nothing for 20 s: the datagram or its reply was dropped
					}
					n, _, err := u.sock.ReadFromUDP(buf)
					if err != nil {
						return
					}
					u.recvd = append(u.recvd, append([]byte(nil), buf[:n]...))
				}
			}(i, u)
		}
		wg.Wait()
		w.Quiesce()
		vs.SetInterest(false)
		// everything that reached the backend is exactly one datagram some user sent, at most once
		sentAll := map[string]int{}
		owner := map[string]string{}
		for _, u := range users {
			for _, p := range u.sent {
				sentAll[string(p)]++
				owner[string(p)] = u.addr
			}
		}
		seen := map[string]int{}
		for _, p := range be.got {
			if sentAll[string(p)] == 0 {
				vs.Fail("backend received a datagram of %d bytes that no user sent (corrupted, truncated, merged or split): %q...", len(p), clip(p))
			}
			seen[string(p)]++
			if seen[string(p)] > sentAll[string(p)] {
				vs.Fail("datagram of %d bytes delivered to the backend %d times, sent %d times", len(p), seen[string(p)], sentAll[string(p)])
			}
		}
		for _, u := range users {
			for _, r := range u.recvd {
				body := string(reply(r))
				if o, ok := owner[body]; !ok {
					vs.Fail("user %s received a %d-byte datagram that is not the reply to any datagram sent: %q", u.addr, len(r), clip(r))
				} else if o != u.addr {
					vs.Fail("user %s received the reply to a datagram of %s (%d bytes)", u.addr, o, len(body))
				}
			}
			if !cut {
				if len(u.recvd) != len(u.sent) {
					vs.Fail("light load, no fault: user %s sent %d datagrams and got %d replies (backend saw %d datagrams in total)", u.addr, len(u.sent), len(u.recvd), len(be.got))
				}
			}
		}
		total := 0
		for _, n := range sentAll {
			total += n
		}
		if !cut && len(be.got) != total {
			vs.Fail("light load, no fault: %d datagrams sent, backend received %d", total, len(be.got))
		}
		var lens []int
		for _, p := range be.got {
			lens = append(lens, len(p))
		}
		sort.Ints(lens)
		vs.Observe("backend=%v", lens)
		if cut {
			// after the work connection was replaced, traffic flows again
			time.Sleep(5 * time.Second)
			w.Quiesce()
			u := users[0]
			p := pattern(0xEE, 33)
			n0 := len(be.got)
			u.sock.WriteToUDP(p, dst)
			vs.BlockFor("after-cut", 20*time.Second, func() bool { return len(be.got) > n0 })
			if len(be.got) == n0 || !bytes.Equal(be.got[len(be.got)-1], p) {
				vs.Fail("after the work connection was cut and 5 s passed, a new datagram does not reach the backend")
			}
		}
		for _, u := range users {
			u.sock.Close()
		}
		be.c.Close()
		w.StopAll()
	}
}

func clip(b []byte) []byte {
	if len(b) > 24 {
		return b[:24]
	}
	return b
}

func scenarios() {
	vs.ScenarioFactory = func(name string) *vs.Scenario {
		s := &vs.Scenario{Name: name, Horizon: 600 * time.Second, MaxSteps: 2_000_000, NoEarlyTick: true, Watchdog: 2 * time.Minute, End: sw.StdEnd}
		f := strings.Split(name, "/")
		if f[0] != "udp" && f[0] != "sudp" {
			return nil
		}
		var n int
		fmt.Sscanf(f[2], "%d", &n)
		s.Body = scUDP(f[0], f[1][0] == '1', f[1][1] == '1', n, f[3], len(f) > 4 && f[4] == "cut")
		return s
	}
}

func main() {
	c := drv.Setup("C03", "e1", "model_checking", scenarios)
	if c == nil {
		return
	}
	c.Rule("E1: real frps + real frpc (udp proxy; sudp proxy + real frpc visitor) on the virtual network; 2-3 user sockets with distinct source addresses, datagram sizes {0,1,7,64,packetSize}, 4 enc/comp combinations; all schedules with at most B deviations of the socket readers, reply writers and work-connection reader/sender pairs on both ends, the work connection cut as a fault at any point; non-trivial = distinct end state / observation trace")
	pool := vs.GetPool(c.Workers)
	var names []string
	for _, k := range []string{"udp", "sudp"} {
		for ec := 0; ec < 4; ec++ {
			for _, n := range []int{1, 2, 3} {
				for _, ss := range []string{"small", "edge", "mix"} {
					names = append(names, fmt.Sprintf("%s/%d%d/%d/%s", k, ec&1, ec>>1, n, ss))
				}
			}
		}
	}
	rs, err := pool.RunBatch(names, false)
	if err != nil {
		c.Cap("harness error: " + err.Error())
	} else {
		for k := range rs {
			c.FoldExec(&rs[k])
		}
	}
	c.Sample(map[string]any{"cases": names[:3]})
	b := drv.Pick(c, 1, 2)
	c.ExploreBoth("udp/00/1/small", b+1, 0.3)
	runs := []string{"udp/00/2/small", "udp/11/2/edge", "sudp/00/2/small", "udp/00/2/small/cut", "sudp/10/2/small/cut", "udp/00/3/mix"}
	for i, r := range runs {
		c.ExploreBoth(r, b, 1.0/float64(len(runs)-i))
	}
	c.Finish()
}
