// C03 part e2real — supplementary, free-running (real goroutines, real UDP sockets on loopback): several users talk to
// one udp proxy at the same time. The explorer of part e1 schedules at synchronisation operations and I/O; two reply
// readers that share plain memory (a buffer) and overwrite each other between a socket read and its encoding are
// outside its alphabet. Here the real scheduler runs them truly in parallel: every reply a user receives must be the
// payload that user sent ("delivered, with identical payload, to the user address whose datagram it answers and to no
// other user"). Not exhaustive; a failure must show again in each of two re-runs before it is reported.
package main

import (
	"encoding/json"
	"fmt"
	"net"
	"sync"
	"time"

	v1 "github.com/fatedier/frp/pkg/config/v1"

	"verif/mc/drv"
	_ "verif/mc/quiet"
	rw "verif/mc/worlds/realworld"
)

type ucase struct {
	Users int  `json:"users"`
	Enc   bool `json:"enc"`
	Comp  bool `json:"comp"`
}

func run(uc ucase) (viol, inconclusive string) {
	be, err := net.ListenUDP("udp4", &net.UDPAddr{IP: net.IPv4(127, 0, 0, 1)})
	if err != nil {
		return "", err.Error()
	}
	defer be.Close()
	go func() { // echo backend
		buf := make([]byte, 2048)
		for {
			n, from, err := be.ReadFromUDP(buf)
			if err != nil {
				return
			}
			be.WriteToUDP(buf[:n], from)
		}
	}()
	srv, err := rw.StartServer(func(s *v1.ServerConfig) { s.AllowPorts = nil })
	if err != nil {
		return "", "server: " + err.Error()
	}
	defer srv.Close()
	remote := rw.FreePort()
	p := &v1.UDPProxyConfig{}
	p.Name, p.Type, p.LocalIP, p.LocalPort, p.RemotePort = "u", "udp", "127.0.0.1", be.LocalAddr().(*net.UDPAddr).Port, remote
	p.Transport.UseEncryption, p.Transport.UseCompression = uc.Enc, uc.Comp
	cl, err := rw.StartClient(srv, "", []v1.ProxyConfigurer{p}, nil, nil)
	if err != nil {
		return "", "client: " + err.Error()
	}
	defer cl.Close()
	if !cl.WaitRunning(8*time.Second, "u") {
		return "", "proxy did not come up"
	}
	const rounds = 400
	var mu sync.Mutex
	var bad []string
	answered := make([]int, uc.Users)
	var wg sync.WaitGroup
	for u := 0; u < uc.Users; u++ {
		wg.Add(1)
		go func(u int) {
			defer wg.Done()
			c, err := net.DialUDP("udp4", nil, &net.UDPAddr{IP: net.IPv4(127, 0, 0, 1), Port: remote})
			if err != nil {
				return
			}
			defer c.Close()
			buf := make([]byte, 2048)
			for i := 0; i < rounds; i++ {
				// payloads of different users differ in every byte and in length
				pl := []byte(fmt.Sprintf("user-%d-datagram-%04d-%s", u, i, string(make([]byte, 0))))
				for len(pl) < 60+u*17 {
					pl = append(pl, byte('A'+u))
				}
				c.Write(pl)
				_ = c.SetReadDeadline(time.Now().Add(300 * time.Millisecond))
				n, err := c.Read(buf)
				if err != nil {
					continue // a lost datagram is allowed
				}
				answered[u]++
				// a reply must be one of THIS user's payloads (a late reply to an earlier datagram of the same user
				// is fine): right prefix, right length, padding of this user only
				got := buf[:n]
				own := n == len(pl) && string(got[:len(fmt.Sprintf("user-%d-datagram-", u))]) == fmt.Sprintf("user-%d-datagram-", u)
				for k := len(fmt.Sprintf("user-%d-datagram-0000-", u)); own && k < n; k++ {
					own = got[k] == byte('A'+u)
				}
				if !own {
					mu.Lock()
					if len(bad) < 3 {
						bad = append(bad, fmt.Sprintf("user %d sent %q and received %q", u, pl, got))
					}
					mu.Unlock()
				}
			}
		}(u)
	}
	wg.Wait()
	viols := bad
	total := 0
	for _, a := range answered {
		total += a
	}
	if total < uc.Users*rounds/4 {
		return "", fmt.Sprintf("only %d of %d datagrams were answered", total, uc.Users*rounds)
	}
	if len(viols) > 0 {
		return fmt.Sprintf("%d users talking to one udp proxy at the same time (enc=%v comp=%v): %s", uc.Users, uc.Enc, uc.Comp, viols[0]), ""
	}
	return "", ""
}

func main() {
	drv.E2Replayers["udpusers"] = func(raw json.RawMessage) string {
		var uc ucase
		json.Unmarshal(raw, &uc)
		v, _ := run(uc)
		return v
	}
	c := drv.Setup("C03", "e2real", "exploration", nil)
	if c == nil {
		return
	}
	c.Rule("supplementary, free-running: real frps + real frpc (udp proxy) + echo backend on loopback, 3 and 4 users x encryption / compression on and off, 400 request-reply rounds per user truly in parallel; every reply a user receives is one of that user's own payloads (users' payloads differ in every position and in length); non-trivial = distinct case. Not exhaustive: it complements part e1 for interleavings between synchronisation points")
	c.Assume("lost datagrams are allowed (a case with fewer than a quarter of the datagrams answered is inconclusive); a late reply to an earlier datagram of the same user is not a violation; a violation is re-run twice and must fail every time")
	var cases []ucase
	for _, n := range []int{3, 4} {
		for e := 0; e < 4; e++ {
			if c.Quick() && n == 4 && e != 0 && e != 3 {
				continue
			}
			cases = append(cases, ucase{n, e&1 == 1, e&2 == 2})
		}
	}
	for _, uc := range cases {
		v, in := run(uc)
		if in != "" {
			c.Cap(fmt.Sprintf("inconclusive %+v: %s", uc, in))
			continue
		}
		c.Count(fmt.Sprintf("udpusers:%+v", uc))
		if v != "" {
			c.ViolateConfirmed("udpusers", fmt.Sprintf("udpusers:%+v", uc), v, uc, 2)
		}
	}
	c.Sample(cases[0])
	c.Finish()
}
