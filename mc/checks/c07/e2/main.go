// C07 — password-protected endpoints serve only requests carrying the exact credentials.
// E2 with real sockets on loopback: the real HTTPReverseProxy behind net/http, the real CONNECT muxer, the real
// client plugins (http_proxy, socks5, static_file) and the real dashboard / admin web servers; request-shape lattice.
package main

import (
	"bufio"
	"context"
	"crypto/tls"
	"encoding/base64"
	"encoding/json"
	"fmt"
	"io"
	"net"
	"net/http"
	"net/http/httputil"
	"os"
	"path/filepath"
	"strings"
	"sync"
	"time"

	"github.com/gorilla/mux"
	"golang.org/x/net/http2"

	v1 "github.com/fatedier/frp/pkg/config/v1"
	plugin "github.com/fatedier/frp/pkg/plugin/client"
	"github.com/fatedier/frp/pkg/util/tcpmux"
	"github.com/fatedier/frp/pkg/util/vhost"

	"verif/mc/drv"
	"verif/mc/peek"
	_ "verif/mc/quiet"
	rw "verif/mc/worlds/realworld"
)

func b64(s string) string { return base64.StdEncoding.EncodeToString([]byte(s)) }

// header value variants; "presents(user,pw)" = the header is a well-formed Basic credential for exactly user:pw
var credVariants = map[string]string{
	"absent":     "",
	"alice-ok":   "Basic " + b64("alice:pw"),
	"alice-bad":  "Basic " + b64("alice:wrong"),
	"bob-ok":     "Basic " + b64("bob:pw2"),
	"user-only":  "Basic " + b64("alice"),
	"lower-case": "basic " + b64("alice:pw"),
	"bad-base64": "Basic !!!notbase64!!!",
	"empty-user": "Basic " + b64(":pw"),
	"empty-pw":   "Basic " + b64("alice:"),
	"shifted":    "Basic " + b64("alic:epw"),  // user and password with the boundary moved: the concatenation is the same
	"glued":      "Basic " + b64(":alicepw"),  // empty user, password = user followed by password
}
var credOrder = []string{"absent", "alice-ok", "alice-bad", "bob-ok", "user-only", "lower-case", "bad-base64", "empty-user", "empty-pw", "shifted", "glued"}

func presents(variant, user, pw string) bool {
	h := credVariants[variant]
	if len(h) < 6 || !strings.EqualFold(h[:6], "basic ") {
		return false
	}
	raw, err := base64.StdEncoding.DecodeString(h[6:])
	if err != nil {
		return false
	}
	return string(raw) == user+":"+pw
}

// ---- marker backend ----

type backend struct {
	name string
	ln   net.Listener
	mu   sync.Mutex
	hits int
}

// memListener is an in-memory listener (net.Pipe connections): the request lattice of part (a) would otherwise leave
// tens of thousands of loopback sockets in TIME_WAIT and exhaust the ephemeral ports for the checks that follow.
type memListener struct {
	ch     chan net.Conn
	closed chan struct{}
	once   sync.Once
}

type memAddr struct{}

func (memAddr) Network() string { return "mem" }
func (memAddr) String() string  { return "mem" }

func newMemListener() *memListener {
	return &memListener{ch: make(chan net.Conn), closed: make(chan struct{})}
}
func (l *memListener) Accept() (net.Conn, error) {
	select {
	case c := <-l.ch:
		return c, nil
	case <-l.closed:
		return nil, net.ErrClosed
	}
}
func (l *memListener) Close() error   { l.once.Do(func() { close(l.closed) }); return nil }
func (l *memListener) Addr() net.Addr { return memAddr{} }
func (l *memListener) Dial() (net.Conn, error) {
	a, b := net.Pipe()
	select {
	case l.ch <- b:
		return a, nil
	case <-l.closed:
		return nil, net.ErrClosed
	case <-time.After(3 * time.Second):
		return nil, fmt.Errorf("mem listener: accept queue stuck")
	}
}

// newMemBackend is newBackend on an in-memory listener.
func newMemBackend(name string) *backend {
	b := &backend{name: name, ln: newMemListener()}
	go http.Serve(b.ln, http.HandlerFunc(func(w http.ResponseWriter, r *http.Request) {
		b.mu.Lock()
		b.hits++
		b.mu.Unlock()
		io.WriteString(w, name)
	}))
	return b
}

func newBackend(name string) *backend {
	l, err := net.Listen("tcp", "127.0.0.1:0")
	for i := 0; err != nil && i < 50; i++ {
		time.Sleep(100 * time.Millisecond) // ephemeral ports momentarily exhausted by closed connections in TIME_WAIT
		l, err = net.Listen("tcp", "127.0.0.1:0")
	}
	if err != nil {
		panic(err)
	}
	b := &backend{name: name, ln: l}
	go http.Serve(l, http.HandlerFunc(func(w http.ResponseWriter, r *http.Request) {
		b.mu.Lock()
		b.hits++
		b.mu.Unlock()
		io.WriteString(w, name)
	}))
	return b
}
func (b *backend) count() int                    { b.mu.Lock(); defer b.mu.Unlock(); return b.hits }
func (b *backend) dial(string) (net.Conn, error) {
	if ml, ok := b.ln.(*memListener); ok {
		return ml.Dial()
	}
	return net.Dial("tcp", b.ln.Addr().String())
}
func (b *backend) addr() string                  { return b.ln.Addr().String() }

// ---- (a) http vhost ----

type route struct {
	Name, Host, Loc, ByUser, User, Pw string
}

var routePool = []route{
	{"R0-open", "h.example.com", "", "", "", ""},
	{"R1-alice", "h.example.com", "", "", "alice", "pw"},
	{"R2-byuser-alice", "h.example.com", "", "alice", "alice", "pw"},
	{"R3-adm-bob", "h.example.com", "/adm", "", "bob", "pw2"},
	{"R4-catchall-open", "*", "", "", "", ""},
	{"R5-byuser-bob-open", "h.example.com", "", "bob", "", ""},
}

type vcase struct {
	Table  []int  `json:"table"`
	Method string `json:"method"`
	Target string `json:"target"`
	Auth   string `json:"authorization"`
	PAuth  string `json:"proxy_authorization"`
	Proto  string `json:"proto"`
}

func runVhost(vc vcase) string {
	rp := vhost.NewHTTPReverseProxy(vhost.HTTPReverseProxyOptions{ResponseHeaderTimeoutS: 5}, vhost.NewRouters())
	l := newMemListener()
	srv := &http.Server{Handler: rp}
	go srv.Serve(l)
	defer srv.Close()
	defer func() {
		// no idle backend connections left behind in the reverse proxy's transport
		if p, ok := peek.F(rp, "proxy").Interface().(*httputil.ReverseProxy); ok {
			if tr, ok := p.Transport.(*http.Transport); ok {
				tr.CloseIdleConnections()
			}
		}
	}()
	backs := map[int]*backend{}
	for _, i := range vc.Table {
		r := routePool[i]
		b := newMemBackend(r.Name)
		defer b.ln.Close()
		backs[i] = b
		if err := rp.Register(vhost.RouteConfig{Domain: r.Host, Location: r.Loc, RouteByHTTPUser: r.ByUser, Username: r.User, Password: r.Pw, CreateConnFn: b.dial}); err != nil {
			return "" // conflicting table: not a valid configuration
		}
	}
	status, challenge := 0, ""
	if vc.Proto == "h2c" {
		tr := &http2.Transport{AllowHTTP: true, DialTLSContext: func(ctx context.Context, network, addr string, _ *tls.Config) (net.Conn, error) {
			return l.Dial()
		}}
		req, _ := http.NewRequest(vc.Method, "http://h.example.com"+strings.TrimPrefix(vc.Target, "http://h.example.com"), nil)
		if v := credVariants[vc.Auth]; v != "" {
			req.Header.Set("Authorization", v)
		}
		if v := credVariants[vc.PAuth]; v != "" {
			req.Header.Set("Proxy-Authorization", v)
		}
		ctx, cancel := context.WithTimeout(context.Background(), 3*time.Second)
		resp, err := tr.RoundTrip(req.WithContext(ctx))
		if err == nil {
			status = resp.StatusCode
			challenge = resp.Header.Get("WWW-Authenticate")
			resp.Body.Close()
		}
		cancel()
		tr.CloseIdleConnections()
	} else {
		c, err := l.Dial()
		if err != nil {
			return ""
		}
		defer c.Close()
		_ = c.SetDeadline(time.Now().Add(5 * time.Second))
		var sb strings.Builder
		fmt.Fprintf(&sb, "%s %s HTTP/1.1\r\nHost: h.example.com\r\n", vc.Method, vc.Target)
		if v := credVariants[vc.Auth]; v != "" {
			fmt.Fprintf(&sb, "Authorization: %s\r\n", v)
		}
		if v := credVariants[vc.PAuth]; v != "" {
			fmt.Fprintf(&sb, "Proxy-Authorization: %s\r\n", v)
		}
		if vc.Method == "POST" {
			sb.WriteString("Content-Length: 3\r\n\r\nabc")
		} else {
			sb.WriteString("\r\n")
		}
		c.Write([]byte(sb.String()))
		resp, err := http.ReadResponse(bufio.NewReader(c), nil)
		if err == nil {
			status = resp.StatusCode
			challenge = resp.Header.Get("WWW-Authenticate")
			if vc.Method != "CONNECT" {
				io.Copy(io.Discard, resp.Body)
			}
			resp.Body.Close()
		}
	}
	time.Sleep(2 * time.Millisecond)
	for i, b := range backs {
		r := routePool[i]
		if b.count() > 0 && (r.User != "" || r.Pw != "") {
			if !presents(vc.Auth, r.User, r.Pw) && !presents(vc.PAuth, r.User, r.Pw) {
				return fmt.Sprintf("request reached the backend of route %s protected by %s:%s although it presented Authorization=%q Proxy-Authorization=%q (status %d)", r.Name, r.User, r.Pw, credVariants[vc.Auth], credVariants[vc.PAuth], status)
			}
		}
	}
	if status == 401 && challenge == "" {
		return "401 without WWW-Authenticate challenge"
	}
	return ""
}

// ---- (b) tcpmux CONNECT credentials ----

func runMux(pauth string, withCreds bool) string {
	l, err := net.Listen("tcp", "127.0.0.1:0")
	if err != nil {
		return ""
	}
	defer l.Close()
	m, err := tcpmux.NewHTTPConnectTCPMuxer(l, false, 5*time.Second)
	if err != nil {
		return err.Error()
	}
	cfg := &vhost.RouteConfig{Domain: "m.example.com"}
	if withCreds {
		cfg.Username, cfg.Password = "alice", "pw"
	}
	ln, err := m.Listen(context.Background(), cfg)
	if err != nil {
		return err.Error()
	}
	defer ln.Close()
	got := make(chan struct{}, 1)
	go func() {
		c, err := ln.Accept()
		if err == nil {
			got <- struct{}{}
			c.Close()
		}
	}()
	c, err := net.Dial("tcp", l.Addr().String())
	if err != nil {
		return ""
	}
	defer c.Close()
	hdr := ""
	if v := credVariants[pauth]; v != "" {
		hdr = "Proxy-Authorization: " + v + "\r\n"
	}
	fmt.Fprintf(c, "CONNECT m.example.com:443 HTTP/1.1\r\nHost: m.example.com:443\r\n%s\r\n", hdr)
	delivered := false
	select {
	case <-got:
		delivered = true
	case <-time.After(400 * time.Millisecond):
	}
	if withCreds && delivered && !presents(pauth, "alice", "pw") {
		return fmt.Sprintf("CONNECT with Proxy-Authorization=%q was handed to the proxy protected by alice:pw", credVariants[pauth])
	}
	if (!withCreds || presents(pauth, "alice", "pw")) && !delivered {
		return fmt.Sprintf("CONNECT with correct / unneeded credentials (%q) was not delivered", credVariants[pauth])
	}
	if withCreds && !delivered {
		// refused: the connection must be closed by the server
		_ = c.SetReadDeadline(time.Now().Add(3 * time.Second))
		if _, err := io.Copy(io.Discard, c); err != nil {
			if ne, ok := err.(net.Error); ok && ne.Timeout() {
				return "refused CONNECT: the connection was not closed"
			}
		}
	}
	return ""
}

// ---- (c) client plugins ----

// credentials configured on the plugin under test (set by main; the plugin cases run one at a time)
var cfgUser, cfgPw = "alice", "pw"

func cfgFull() bool { return cfgUser == "alice" && cfgPw == "pw" }

func servePlugin(p plugin.Plugin) net.Listener {
	l, _ := net.Listen("tcp", "127.0.0.1:0")
	go func() {
		for {
			c, err := l.Accept()
			if err != nil {
				return
			}
			go p.Handle(context.Background(), &plugin.ConnectionInfo{Conn: c, UnderlyingConn: c})
		}
	}()
	return l
}

func runHTTPProxyPlugin(method, pauth string) string {
	be := newBackend("behind-http-proxy")
	defer be.ln.Close()
	p, err := plugin.Create(v1.PluginHTTPProxy, plugin.PluginContext{Name: "hp"}, &v1.HTTPProxyPluginOptions{HTTPUser: cfgUser, HTTPPassword: cfgPw})
	if err != nil {
		return "create: " + err.Error()
	}
	defer p.Close()
	l := servePlugin(p)
	defer l.Close()
	c, err := net.Dial("tcp", l.Addr().String())
	if err != nil {
		return ""
	}
	defer c.Close()
	_ = c.SetDeadline(time.Now().Add(5 * time.Second))
	hdr := ""
	if v := credVariants[pauth]; v != "" {
		hdr = "Proxy-Authorization: " + v + "\r\n"
	}
	br := bufio.NewReader(c)
	if method == "CONNECT" {
		fmt.Fprintf(c, "CONNECT %s HTTP/1.1\r\nHost: %s\r\n%s\r\n", be.addr(), be.addr(), hdr)
		resp, err := http.ReadResponse(br, nil)
		if err == nil && resp.StatusCode == 200 {
			fmt.Fprintf(c, "GET / HTTP/1.1\r\nHost: x\r\n\r\n")
			if r2, err := http.ReadResponse(br, nil); err == nil {
				io.Copy(io.Discard, r2.Body)
			}
		}
	} else {
		fmt.Fprintf(c, "GET http://%s/ HTTP/1.1\r\nHost: %s\r\n%s\r\n", be.addr(), be.addr(), hdr)
		if resp, err := http.ReadResponse(br, nil); err == nil {
			io.Copy(io.Discard, resp.Body)
		}
	}
	ok := presents(pauth, cfgUser, cfgPw)
	if be.count() > 0 && !ok {
		return fmt.Sprintf("http_proxy plugin (%s) forwarded a request with Proxy-Authorization=%q", method, credVariants[pauth])
	}
	if be.count() == 0 && ok && cfgFull() {
		return fmt.Sprintf("http_proxy plugin (%s) refused the right credentials", method)
	}
	return ""
}

// runHTTPProxySeq: two requests on one kept-alive connection through the embedded server of the http_proxy plugin;
// the second request (method x credential variant) must reach its target only with the exact credentials,
// whatever the first request was.
func runHTTPProxySeq(first, method, pauth string) string {
	be1, be2 := newBackend("first-target"), newBackend("second-target")
	defer be1.ln.Close()
	defer be2.ln.Close()
	p, err := plugin.Create(v1.PluginHTTPProxy, plugin.PluginContext{Name: "hp"}, &v1.HTTPProxyPluginOptions{HTTPUser: cfgUser, HTTPPassword: cfgPw})
	if err != nil {
		return "create: " + err.Error()
	}
	defer p.Close()
	l := servePlugin(p)
	defer l.Close()
	c, err := net.Dial("tcp", l.Addr().String())
	if err != nil {
		return ""
	}
	defer c.Close()
	_ = c.SetDeadline(time.Now().Add(5 * time.Second))
	br := bufio.NewReader(c)
	h1 := ""
	if first == "authorised" {
		h1 = "Proxy-Authorization: " + credVariants["alice-ok"] + "\r\n"
	}
	fmt.Fprintf(c, "GET http://%s/ HTTP/1.1\r\nHost: %s\r\n%s\r\n", be1.addr(), be1.addr(), h1)
	resp, err := http.ReadResponse(br, nil)
	if err != nil {
		return ""
	}
	io.Copy(io.Discard, resp.Body)
	hdr := ""
	if v := credVariants[pauth]; v != "" {
		hdr = "Proxy-Authorization: " + v + "\r\n"
	}
	if method == "CONNECT" {
		fmt.Fprintf(c, "CONNECT %s HTTP/1.1\r\nHost: %s\r\n%s\r\n", be2.addr(), be2.addr(), hdr)
		if resp, err := http.ReadResponse(br, nil); err == nil && resp.StatusCode == 200 {
			fmt.Fprintf(c, "GET / HTTP/1.1\r\nHost: x\r\n\r\n")
			if r2, err := http.ReadResponse(br, nil); err == nil {
				io.Copy(io.Discard, r2.Body)
			}
		}
	} else {
		fmt.Fprintf(c, "GET http://%s/ HTTP/1.1\r\nHost: %s\r\n%s\r\n", be2.addr(), be2.addr(), hdr)
		if resp, err := http.ReadResponse(br, nil); err == nil {
			io.Copy(io.Discard, resp.Body)
		}
	}
	if be2.count() > 0 && !presents(pauth, cfgUser, cfgPw) {
		return fmt.Sprintf("http_proxy plugin: after a first (%s) GET on the same connection, a %s with Proxy-Authorization=%q was forwarded", first, method, credVariants[pauth])
	}
	if first != "authorised" && be1.count() > 0 {
		return "http_proxy plugin forwarded an unauthorised first GET"
	}
	return ""
}

func runSocks5(mode string) string {
	be := newBackend("behind-socks5")
	defer be.ln.Close()
	p, err := plugin.Create(v1.PluginSocks5, plugin.PluginContext{Name: "s5"}, &v1.Socks5PluginOptions{Username: cfgUser, Password: cfgPw})
	if err != nil {
		return "create: " + err.Error()
	}
	defer p.Close()
	l := servePlugin(p)
	defer l.Close()
	c, err := net.Dial("tcp", l.Addr().String())
	if err != nil {
		return ""
	}
	defer c.Close()
	_ = c.SetDeadline(time.Now().Add(3 * time.Second))
	connect := func() bool {
		host, port, _ := net.SplitHostPort(be.addr())
		ip := net.ParseIP(host).To4()
		var pn int
		fmt.Sscanf(port, "%d", &pn)
		c.Write(append(append([]byte{5, 1, 0, 1}, ip...), byte(pn>>8), byte(pn)))
		rep := make([]byte, 10)
		if _, err := io.ReadFull(c, rep); err != nil || rep[1] != 0 {
			return false
		}
		fmt.Fprintf(c, "GET / HTTP/1.1\r\nHost: x\r\n\r\n")
		resp, err := http.ReadResponse(bufio.NewReader(c), nil)
		if err == nil {
			io.Copy(io.Discard, resp.Body)
		}
		return err == nil
	}
	switch mode {
	case "noauth-method": // offers only "no authentication"
		c.Write([]byte{5, 1, 0})
		rep := make([]byte, 2)
		if _, err := io.ReadFull(c, rep); err == nil && rep[1] == 0 {
			connect()
		}
	case "right", "wrong-pw", "wrong-user", "empty":
		u, pw := cfgUser, cfgPw
		switch mode {
		case "wrong-pw":
			pw = "nope"
		case "wrong-user":
			u = "bob"
		case "empty":
			u, pw = "", ""
		}
		c.Write([]byte{5, 1, 2})
		rep := make([]byte, 2)
		if _, err := io.ReadFull(c, rep); err != nil || rep[1] != 2 {
			break
		}
		c.Write(append(append([]byte{1, byte(len(u))}, u...), append([]byte{byte(len(pw))}, pw...)...))
		if _, err := io.ReadFull(c, rep); err == nil && rep[1] == 0 {
			connect()
		} else if mode != "right" {
			connect() // try to go on anyway after a failed sub-negotiation
		}
	case "skip-negotiation": // sends the CONNECT request straight away
		connect()
	}
	if be.count() > 0 && mode != "right" {
		return "socks5 plugin with credentials served a client in mode " + mode
	}
	if be.count() == 0 && mode == "right" && cfgFull() {
		return "socks5 plugin refused the right credentials"
	}
	return ""
}

func runStaticFile(auth string) string {
	dir, _ := os.MkdirTemp("/verif/.build", "static")
	defer os.RemoveAll(dir)
	os.WriteFile(filepath.Join(dir, "secret.txt"), []byte("TOP-SECRET-CONTENT"), 0o644)
	p, err := plugin.Create(v1.PluginStaticFile, plugin.PluginContext{Name: "sf"}, &v1.StaticFilePluginOptions{LocalPath: dir, HTTPUser: cfgUser, HTTPPassword: cfgPw})
	if err != nil {
		return "create: " + err.Error()
	}
	defer p.Close()
	l := servePlugin(p)
	defer l.Close()
	c, err := net.Dial("tcp", l.Addr().String())
	if err != nil {
		return ""
	}
	defer c.Close()
	_ = c.SetDeadline(time.Now().Add(5 * time.Second))
	hdr := ""
	if v := credVariants[auth]; v != "" {
		hdr = "Authorization: " + v + "\r\n"
	}
	fmt.Fprintf(c, "GET /secret.txt HTTP/1.1\r\nHost: x\r\n%s\r\n", hdr)
	resp, err := http.ReadResponse(bufio.NewReader(c), nil)
	if err != nil {
		return ""
	}
	body, _ := io.ReadAll(resp.Body)
	served := strings.Contains(string(body), "TOP-SECRET")
	ok := presents(auth, cfgUser, cfgPw)
	if served && !ok {
		return fmt.Sprintf("static_file plugin served the file for Authorization=%q", credVariants[auth])
	}
	if !served && ok && cfgFull() {
		return "static_file plugin refused the right credentials"
	}
	if !served && resp.StatusCode == 401 && resp.Header.Get("WWW-Authenticate") == "" {
		return "401 without challenge"
	}
	return ""
}

// ---- (e) end to end: the credentials configured on a proxy are enforced on every public name of it ----

// runWiring starts a real frps (vhost http port, tcpmux port, sub-domain host) and a real frpc with one protected and
// one open proxy of each kind (http: two custom domains + sub-domain + two locations; tcpmux: two custom domains +
// sub-domain) and requests every host x location x credential variant. routeBy = "" | "alice".
func runWiring(routeBy string) (n int, viols []string, inconclusive string) {
	httpPort, muxPort := rw.FreePort(), rw.FreePort()
	srv, err := rw.StartServer(func(s *v1.ServerConfig) {
		s.VhostHTTPPort, s.TCPMuxHTTPConnectPort, s.SubDomainHost = httpPort, muxPort, "sub.example.org"
	})
	if err != nil {
		return 0, nil, "server: " + err.Error()
	}
	defer srv.Close()
	bes := map[string]*backend{}
	for _, nme := range []string{"prot", "open", "mprot", "mopen"} {
		bes[nme] = newBackend(nme)
		defer bes[nme].ln.Close()
	}
	port := func(nme string) int { return bes[nme].ln.Addr().(*net.TCPAddr).Port }
	hp := &v1.HTTPProxyConfig{}
	hp.Name, hp.Type, hp.LocalIP, hp.LocalPort = "prot", "http", "127.0.0.1", port("prot")
	hp.CustomDomains, hp.SubDomain, hp.Locations = []string{"d1.example.com", "d2.example.com"}, "s1", []string{"/", "/adm"}
	hp.HTTPUser, hp.HTTPPassword, hp.RouteByHTTPUser = "alice", "pw", routeBy
	ho := &v1.HTTPProxyConfig{}
	ho.Name, ho.Type, ho.LocalIP, ho.LocalPort = "open", "http", "127.0.0.1", port("open")
	ho.CustomDomains = []string{"open.example.com"}
	mp := &v1.TCPMuxProxyConfig{}
	mp.Name, mp.Type, mp.LocalIP, mp.LocalPort, mp.Multiplexer = "mprot", "tcpmux", "127.0.0.1", port("mprot"), "httpconnect"
	mp.CustomDomains, mp.SubDomain = []string{"m1.example.com", "m2.example.com"}, "ms"
	mp.HTTPUser, mp.HTTPPassword, mp.RouteByHTTPUser = "alice", "pw", routeBy
	mo := &v1.TCPMuxProxyConfig{}
	mo.Name, mo.Type, mo.LocalIP, mo.LocalPort, mo.Multiplexer = "mopen", "tcpmux", "127.0.0.1", port("mopen"), "httpconnect"
	mo.CustomDomains = []string{"mopen.example.com"}
	cli, err := rw.StartClient(srv, "", []v1.ProxyConfigurer{hp, ho, mp, mo}, nil, nil)
	if err != nil {
		return 0, nil, "client: " + err.Error()
	}
	defer cli.Close()
	if !cli.WaitRunning(8*time.Second, "prot", "open", "mprot", "mopen") || !rw.WaitPort(httpPort, 3*time.Second) || !rw.WaitPort(muxPort, 3*time.Second) {
		return 0, nil, "proxies did not come up"
	}
	hits := func() map[string]int {
		m := map[string]int{}
		for k, b := range bes {
			m[k] = b.count()
		}
		return m
	}
	one := func(kind, host, loc, cv string) {
		n++
		before := hits()
		hdrName := "Authorization"
		p := httpPort
		if kind == "tcpmux" {
			hdrName, p = "Proxy-Authorization", muxPort
		}
		hdr := ""
		if v := credVariants[cv]; v != "" {
			hdr = hdrName + ": " + v + "\r\n"
		}
		c, err := net.DialTimeout("tcp", fmt.Sprintf("127.0.0.1:%d", p), 2*time.Second)
		if err != nil {
			return
		}
		defer c.Close()
		_ = c.SetDeadline(time.Now().Add(5 * time.Second))
		br := bufio.NewReader(c)
		if kind == "http" {
			fmt.Fprintf(c, "GET %s HTTP/1.1\r\nHost: %s\r\nConnection: close\r\n%s\r\n", loc, host, hdr)
			if resp, err := http.ReadResponse(br, nil); err == nil {
				io.Copy(io.Discard, resp.Body)
			}
		} else {
			fmt.Fprintf(c, "CONNECT %s:80 HTTP/1.1\r\nHost: %s:80\r\n%s\r\n", host, host, hdr)
			if resp, err := http.ReadResponse(br, nil); err == nil && resp.StatusCode == 200 {
				fmt.Fprintf(c, "GET / HTTP/1.1\r\nHost: inner\r\nConnection: close\r\n\r\n")
				if r2, err := http.ReadResponse(br, nil); err == nil {
					io.Copy(io.Discard, r2.Body)
				}
			}
		}
		after := hits()
		reached := ""
		for k := range after {
			if after[k] > before[k] {
				reached = k
			}
		}
		prot, open := "prot", "open"
		if kind == "tcpmux" {
			prot, open = "mprot", "mopen"
		}
		ok := presents(cv, "alice", "pw")
		isOpen := strings.Contains(host, "open")
		switch {
		case reached == prot && !ok:
			viols = append(viols, fmt.Sprintf("%s proxy with httpUser/httpPassword (routeByHTTPUser=%q): %s %s with credentials %q reached the protected backend", kind, routeBy, host, loc, credVariants[cv]))
		case !isOpen && ok && reached != prot:
			viols = append(viols, fmt.Sprintf("%s proxy with httpUser/httpPassword (routeByHTTPUser=%q): %s %s with the exact credentials did not reach its backend (reached %q)", kind, routeBy, host, loc, reached))
		case isOpen && reached != open && routeBy == "":
			viols = append(viols, fmt.Sprintf("%s: request for the unprotected host %s %s (credentials %q) did not reach its backend (reached %q)", kind, host, loc, credVariants[cv], reached))
		}
	}
	for _, host := range []string{"d1.example.com", "d2.example.com", "s1.sub.example.org", "D1.Example.Com", "open.example.com"} {
		for _, loc := range []string{"/", "/adm/x", "/other"} {
			for _, cv := range credOrder {
				one("http", host, loc, cv)
			}
		}
	}
	for _, host := range []string{"m1.example.com", "m2.example.com", "ms.sub.example.org", "mopen.example.com"} {
		for _, cv := range credOrder {
			one("tcpmux", host, "", cv)
		}
	}
	return
}

// ---- (d) dashboard / admin API ----

type webRoute struct {
	Path    string
	Methods []string
}

func walkRoutes(web any) []webRoute {
	r := peek.F(web, "router").Interface().(*mux.Router)
	var out []webRoute
	r.Walk(func(rt *mux.Route, _ *mux.Router, _ []*mux.Route) error {
		tpl, err := rt.GetPathTemplate()
		if err != nil {
			return nil
		}
		ms, _ := rt.GetMethods()
		if len(ms) == 0 {
			ms = []string{"GET", "POST"}
		}
		out = append(out, webRoute{tpl, ms})
		return nil
	})
	return out
}

func concrete(tpl string) string {
	s := strings.NewReplacer("{type}", "tcp", "{name}", "x").Replace(tpl)
	if strings.HasSuffix(s, "/static/") {
		s += "index.html"
	}
	return s
}

func runWeb(which string) (evals int, viols []string) {
	srv, err := rw.StartServer(func(c *v1.ServerConfig) {
		c.WebServer.Addr, c.WebServer.Port, c.WebServer.User, c.WebServer.Password = "127.0.0.1", rw.FreePort(), "admin", "s3cret"
		c.EnablePrometheus = true
	})
	if err != nil {
		return 0, nil
	}
	defer srv.Close()
	var web any
	port := 0
	if which == "dashboard" {
		web = peek.F(srv.Svc, "webServer").Interface()
		port = srv.Cfg.WebServer.Port
	} else {
		cl, err := rw.StartClient(srv, "", nil, nil, func(c *v1.ClientCommonConfig) {
			c.WebServer.Addr, c.WebServer.Port, c.WebServer.User, c.WebServer.Password = "127.0.0.1", rw.FreePort(), "admin", "s3cret"
		})
		if err != nil {
			return 0, nil
		}
		defer cl.Close()
		web = peek.F(cl.Svc, "webServer").Interface()
		port = cl.Cfg.WebServer.Port
	}
	if !rw.WaitPort(port, 5*time.Second) {
		return 0, nil
	}
	routes := walkRoutes(web)
	creds := map[string][2]string{"none": {"", ""}, "right": {"admin", "s3cret"}, "wrong-pw": {"admin", "x"}, "wrong-user": {"root", "s3cret"}, "empty-pw": {"admin", ""}, "swapped": {"s3cret", "admin"}}
	var mu sync.Mutex
	var wg sync.WaitGroup
	for _, rt := range routes {
		for _, m := range rt.Methods {
			for cname, cr := range creds {
				if which == "admin" && cname == "right" && (strings.Contains(rt.Path, "stop") || strings.Contains(rt.Path, "reload") || m == "PUT") {
					continue // do not actually stop / reconfigure the client under test
				}
				if cname == "right" && (strings.Contains(rt.Path, "static") || strings.Contains(rt.Path, "favicon")) {
					continue // the embedded UI assets are not linked into the check binary
				}
				wg.Add(1)
				go func(rt webRoute, m, cname string, cr [2]string) {
					defer wg.Done()
					req, _ := http.NewRequest(m, fmt.Sprintf("http://127.0.0.1:%d%s", port, concrete(rt.Path)), nil)
					if cname != "none" {
						req.SetBasicAuth(cr[0], cr[1])
					}
					cli := &http.Client{Timeout: 8 * time.Second, CheckRedirect: func(*http.Request, []*http.Request) error { return http.ErrUseLastResponse }}
					resp, err := cli.Do(req)
					mu.Lock()
					defer mu.Unlock()
					evals++
					if err != nil {
						return
					}
					io.Copy(io.Discard, resp.Body)
					resp.Body.Close()
					open := rt.Path == "/healthz"
					if cname == "right" || open {
						if resp.StatusCode == 401 {
							viols = append(viols, fmt.Sprintf("%s %s %s with %s credentials answered 401", which, m, rt.Path, cname))
						}
						return
					}
					if resp.StatusCode != 401 {
						viols = append(viols, fmt.Sprintf("%s %s %s with %s credentials answered %d instead of an authentication challenge", which, m, rt.Path, cname, resp.StatusCode))
					} else if resp.Header.Get("WWW-Authenticate") == "" {
						viols = append(viols, fmt.Sprintf("%s %s %s: 401 without WWW-Authenticate", which, m, rt.Path))
					}
				}(rt, m, cname, cr)
			}
		}
	}
	wg.Wait()
	return
}

func main() {
	drv.E2Replayers["vhost"] = func(raw json.RawMessage) string {
		var vc vcase
		json.Unmarshal(raw, &vc)
		return runVhost(vc)
	}
	c := drv.Setup("C07", "e2", "exploration", nil)
	if c == nil {
		return
	}
	c.Rule("complete product of route tables (all conflict-free subsets of size <= 3 of 6 routes mixing open, password-protected, location-scoped and user-routed routes on one host plus a catch-all) x request forms (origin-form / absolute-form targets, plain and percent-encoded location, GET / POST / CONNECT, HTTP/1.1 and h2c prior knowledge) x 11 Authorization variants x 11 Proxy-Authorization variants (among them the right user and password with the boundary between them moved) through the real reverse proxy with one marker backend per route; CONNECT credentials at the real tcpmux muxer; http_proxy (GET and CONNECT, single requests and two-request keep-alive sequences), socks5 (6 negotiation modes), static_file plugins, each configured with user + password, user only and password only; end-to-end wiring of configured credentials to every public name of http and tcpmux proxies; every route of the dashboard and of the admin API x 6 credential shapes; non-trivial = distinct (table, request) case")
	c.Assume("real sockets on loopback, one request per fresh front end; 'presents the credentials' = a well-formed Basic header with exactly user:password in Authorization or Proxy-Authorization")

	// (a)
	var tables [][]int
	n := len(routePool)
	for a := 0; a < n; a++ {
		tables = append(tables, []int{a})
		for b := a + 1; b < n; b++ {
			tables = append(tables, []int{a, b})
			for d := b + 1; d < n; d++ {
				tables = append(tables, []int{a, b, d})
			}
		}
	}
	targets := []string{"/x", "/adm/x", "http://h.example.com/x", "http://h.example.com/adm/x", "/%61dm/x", "http://h.example.com/%61dm/x"}
	type job struct{ vc vcase }
	jobs := make(chan vcase, 1024)
	var mu sync.Mutex
	var wg sync.WaitGroup
	for w := 0; w < 24; w++ {
		wg.Add(1)
		go func() {
			defer wg.Done()
			for vc := range jobs {
				e := runVhost(vc)
				mu.Lock()
				c.Count(fmt.Sprintf("vhost:%v", vc))
				if e != "" {
					c.ViolateConfirmed("vhost", "vhost:"+sigOf(e), fmt.Sprintf("table %v %s %s (%s): %s", names(vc.Table), vc.Method, vc.Target, vc.Proto, e), vc, 2)
				}
				mu.Unlock()
			}
		}()
	}
	total := 0
	for ti, tb := range tables {
		if c.Quick() && len(tb) == 3 && ti%3 != 0 {
			continue // quick: every third 3-route table; all 1- and 2-route tables
		}
		hasLoc := false
		for _, ri := range tb {
			if routePool[ri].Loc != "" {
				hasLoc = true
			}
		}
		for _, tg := range targets {
			if strings.Contains(tg, "%61") && !hasLoc {
				continue // the percent-encoded location only matters for tables with a location-scoped route
			}
			for _, a := range credOrder {
				for _, p := range credOrder {
					for _, m := range []string{"GET", "POST"} {
						if c.Quick() && m == "POST" && (a != "absent" && p != "absent") {
							continue
						}
						jobs <- vcase{tb, m, tg, a, p, "http1"}
						total++
					}
				}
			}
		}
		for _, a := range credOrder {
			for _, p := range credOrder {
				jobs <- vcase{tb, "CONNECT", "h.example.com:80", a, p, "http1"}
				total++
				if a == "absent" || p == "absent" || a == p {
					jobs <- vcase{tb, "GET", "/x", a, p, "h2c"}
					total++
				}
			}
		}
	}
	close(jobs)
	wg.Wait()
	c.Sample(vcase{[]int{2}, "GET", "http://h.example.com/x", "absent", "alice-bad", "http1"})
	c.Note("vhost_cases", total)

	// (b)
	for _, pa := range credOrder {
		for _, wc := range []bool{true, false} {
			c.Count(fmt.Sprintf("mux:%s:%v", pa, wc))
			if e := runMux(pa, wc); e != "" {
				c.Violate("mux", "mux:"+e, e, map[string]any{"pauth": pa, "creds": wc})
			}
		}
	}
	// (c) plugins configured with user + password, user only, password only
	for _, cfg := range [][2]string{{"alice", "pw"}, {"alice", ""}, {"", "pw"}} {
		cfgUser, cfgPw = cfg[0], cfg[1]
		tag := cfgUser + ":" + cfgPw + ":"
		for _, pa := range credOrder {
			for _, m := range []string{"GET", "CONNECT"} {
				c.Count(tag + "httpproxy:" + m + ":" + pa)
				if e := runHTTPProxyPlugin(m, pa); e != "" {
					c.Violate("plugin", "httpproxy:"+tag+e, "configured "+tag+" "+e, map[string]any{"method": m, "pauth": pa, "cfg": cfg})
				}
			}
			for _, first := range []string{"unauthorised", "authorised"} {
				for _, m := range []string{"GET", "CONNECT"} {
					c.Count(tag + "httpproxyseq:" + first + ":" + m + ":" + pa)
					if e := runHTTPProxySeq(first, m, pa); e != "" {
						c.Violate("plugin", "httpproxyseq:"+tag+e, "configured "+tag+" "+e, map[string]any{"first": first, "method": m, "pauth": pa, "cfg": cfg})
					}
				}
			}
			c.Count(tag + "static:" + pa)
			if e := runStaticFile(pa); e != "" {
				c.Violate("plugin", "static:"+tag+e, "configured "+tag+" "+e, map[string]any{"auth": pa, "cfg": cfg})
			}
		}
		for _, mode := range []string{"right", "wrong-pw", "wrong-user", "empty", "noauth-method", "skip-negotiation"} {
			c.Count(tag + "socks5:" + mode)
			if e := runSocks5(mode); e != "" {
				c.Violate("plugin", "socks5:"+tag+e, "configured "+tag+" "+e, map[string]any{"mode": mode, "cfg": cfg})
			}
		}
	}
	cfgUser, cfgPw = "alice", "pw"
	// (e)
	drv.E2Replayers["wiring"] = func(raw json.RawMessage) string {
		var rb string
		json.Unmarshal(raw, &rb)
		_, v, _ := runWiring(rb)
		return strings.Join(v, "; ")
	}
	for _, rb := range []string{"", "alice"} {
		n, v, inc := runWiring(rb)
		for i := 0; i < n; i++ {
			c.Count(fmt.Sprintf("wiring:%s:%d", rb, i))
		}
		if inc != "" {
			c.Cap("end-to-end wiring part (routeByHTTPUser=" + rb + ") inconclusive: " + inc)
		}
		for _, x := range v {
			c.ViolateConfirmed("wiring", "wiring:"+x, x, rb, 2)
		}
	}
	// (d)
	for _, which := range []string{"dashboard", "admin"} {
		n, vs := runWeb(which)
		for i := 0; i < n; i++ {
			c.Count(fmt.Sprintf("web:%s:%d", which, i))
		}
		if n == 0 {
			c.Cap(which + " web server did not come up: inconclusive")
		}
		for _, v := range vs {
			c.Violate("web", "web:"+v, v, v)
		}
		c.Note("web_requests_"+which, n)
	}
	c.Finish()
}

func names(t []int) []string {
	var out []string
	for _, i := range t {
		out = append(out, routePool[i].Name)
	}
	return out
}

func sigOf(e string) string {
	if i := strings.Index(e, " although"); i > 0 {
		return e[:i]
	}
	return e
}
