// C19 — the client keeps exactly the configured-and-healthy proxies registered.
package main

import (
	"fmt"
	"sort"
	"strings"
	"time"

	v1 "github.com/fatedier/frp/pkg/config/v1"
	"github.com/fatedier/frp/pkg/msg"

	"verif/mc/drv"
	"verif/mc/vs"
	cw "verif/mc/worlds/cliworld"
)

// ---- configuration sets ----
// a set is a string over the slots: proxy a, proxy b, visitor v; each '-' absent, '1' cfg, '2' changed cfg

func pcfg(name string, variant byte) v1.ProxyConfigurer {
	rp := map[string]int{"a": 9000, "b": 9001}[name]
	if variant == '2' {
		rp += 100
	}
	lp := 8000
	if variant == '3' {
		lp = 8001 // a change the server never sees: only the local backend differs
	}
	return cw.TCPProxy(name, lp, rp)
}

func vcfg(variant byte) v1.VisitorConfigurer {
	c := &v1.STCPVisitorConfig{}
	c.Name = "v"
	c.Type = "stcp"
	c.ServerName = "secret"
	c.SecretKey = "k"
	c.BindAddr = "127.0.0.1"
	c.BindPort = 6000
	if variant == '2' {
		c.BindPort = 6001
	}
	return c
}

func buildSet(w *cw.World, set string) ([]v1.ProxyConfigurer, []v1.VisitorConfigurer) {
	var ps []v1.ProxyConfigurer
	var vs_ []v1.VisitorConfigurer
	for i, n := range []string{"a", "b"} {
		if set[i] != '-' {
			p := pcfg(n, set[i])
			p.Complete("")
			ps = append(ps, p)
		}
	}
	if len(set) > 2 && set[2] != '-' {
		v := vcfg(set[2])
		v.Complete(w.Cfg)
		vs_ = append(vs_, v)
	}
	return ps, vs_
}

func wantRegistered(set string) map[string]int {
	out := map[string]int{}
	for i, n := range []string{"a", "b"} {
		if set[i] == '-' {
			continue
		}
		rp := map[string]int{"a": 9000, "b": 9001}[n]
		if set[i] == '2' {
			rp += 100
		}
		out[n] = rp
	}
	return out
}

func serverTable(w *cw.World) map[string]int {
	out := map[string]int{}
	if se := w.Srv.LiveSession(); se != nil {
		for n, m := range se.Proxies {
			out[n] = m.RemotePort
		}
	}
	return out
}

func render(m map[string]int) string {
	var l []string
	for k, v := range m {
		l = append(l, fmt.Sprintf("%s:%d", k, v))
	}
	sort.Strings(l)
	return strings.Join(l, " ")
}

func visitorPorts(w *cw.World) string {
	var l []int
	for _, p := range w.H.BoundTCP() {
		if p == 6000 || p == 6001 {
			l = append(l, p)
		}
	}
	return fmt.Sprint(l)
}

// reload: a sequence of configuration sets applied to a running client.
func scReload(seq string, mode string) func(x *vs.Exec) {
	sets := strings.Split(seq, ">")
	return func(x *vs.Exec) {
		w := cw.New(x, cw.Opt{HeartbeatInterval: -1, NoPoolRequests: true})
		w.StartBackend(8000)
		switch mode {
		case "late":
			w.Srv.Reply = func(name string, nth int) cw.ReplyMode {
				if nth == 1 {
					return cw.ReplyLate
				}
				return cw.ReplyOK
			}
		case "error1":
			w.Srv.Reply = func(name string, nth int) cw.ReplyMode {
				if nth == 1 {
					return cw.ReplyError
				}
				return cw.ReplyOK
			}
		case "never1":
			w.Srv.Reply = func(name string, nth int) cw.ReplyMode {
				if nth == 1 {
					return cw.ReplyNever
				}
				return cw.ReplyOK
			}
		}
		if mode == "vsquat" {
			// another program holds the visitors' bind ports: visitors cannot start until it goes away
			w.H.Squat("tcp", 6000, true)
			w.H.Squat("tcp", 6001, true)
		}
		vs.Block("await-login", func() bool { return w.Srv.LiveCount() == 1 || x.Now() > 30*time.Second })
		if w.Srv.LiveCount() != 1 {
			vs.Fail("client did not log in")
			return
		}
		vs.SetInterest(true)
		prev := "---"
		for i, set := range sets {
			ps, vv := buildSet(w, set)
			mark := len(w.Srv.Events)
			if err := w.Svc.UpdateAllConfigurer(ps, vv); err != nil {
				vs.Fail("reload %d: %v", i, err)
			}
			if mode == "rapid" && i == 0 {
				// the next reload follows at once: stops overlap the registrations still being sent
				continue
			}
			if mode == "late" && i == 0 {
				// the registrations are sent and their answers arrive only after the next reload has been applied
				time.Sleep(2 * time.Second)
				continue
			}
			if mode == "late" && i == 1 {
				w.Srv.ReleaseLate()
			}
			// let the client settle: registrations, 20 s answer timeout, 30 s start-error back-off
			time.Sleep(75 * time.Second)
			want := wantRegistered(set)
			if got := serverTable(w); render(got) != render(want) {
				vs.Fail("after reload %d (%s -> %s, reply mode %s) the server holds [%s], the configuration says [%s]", i, prev, set, mode, render(got), render(want))
			}
			wantV := "[]"
			if len(set) > 2 && set[2] == '1' {
				wantV = "[6000]"
			} else if len(set) > 2 && set[2] == '2' {
				wantV = "[6001]"
			}
			if mode == "vsquat" {
				wantV = "[]"
			}
			if got := visitorPorts(w); got != wantV {
				vs.Fail("after reload %d (%s -> %s) visitor listeners are %s, configured %s", i, prev, set, got, wantV)
			}
			// changed entries (even when only a client-local field changed) are closed at the server and started again
			if mode == "ok" {
				for j, n := range []string{"a", "b"} {
					if set[j] != '-' && prev[j] != '-' && set[j] != prev[j] {
						closed, again := false, false
						for _, e := range w.Srv.Events[mark:] {
							if e.Name == n && e.Kind == "closeproxy" {
								closed = true
							}
							if e.Name == n && e.Kind == "newproxy" && closed {
								again = true
							}
						}
						if !closed || !again {
							vs.Fail("reload %d (%s -> %s): proxy %s changed but was not closed at the server and started again (closed=%v started again=%v)", i, prev, set, n, closed, again)
						}
					}
				}
			}
			// unchanged entries: neither closed nor registered again by this reload
			if mode == "ok" {
				for j, n := range []string{"a", "b"} {
					if set[j] != '-' && set[j] == prev[j] {
						for _, e := range w.Srv.Events[mark:] {
							if e.Name == n && (e.Kind == "newproxy" || e.Kind == "closeproxy") {
								vs.Fail("reload %d (%s -> %s): unchanged proxy %s was %s again", i, prev, set, n, e.Kind)
							}
						}
					}
				}
			}
			// reported status
			for j, n := range []string{"a", "b"} {
				st, ok := w.Svc.StatusExporter().GetProxyStatus(n)
				if set[j] == '-' {
					if ok {
						vs.Fail("after reload %d removed proxy %s still has a status (%s)", i, n, st.Phase)
					}
				} else if !ok || st.Phase != "running" {
					ph := "none"
					if ok {
						ph = st.Phase
					}
					vs.Fail("after reload %d proxy %s reports %q, expected running", i, n, ph)
				}
			}
			prev = set
		}
		if mode == "vsquat" {
			// the other program goes away: exactly the visitors of the last configuration come up
			w.H.Squat("tcp", 6000, false)
			w.H.Squat("tcp", 6001, false)
			time.Sleep(90 * time.Second)
			last := sets[len(sets)-1]
			wantV := map[byte]string{'-': "[]", '1': "[6000]", '2': "[6001]"}[last[2]]
			if got := visitorPorts(w); got != wantV {
				vs.Fail("visitor bind ports were busy during %s; 90 s after they became free the visitor listeners are %s, the last configuration says %s", seq, got, wantV)
			}
		}
		vs.SetInterest(false)
		// after Stop: no further registration
		mark := len(w.Srv.Events)
		w.Svc.Close()
		time.Sleep(60 * time.Second)
		for _, e := range w.Srv.Events[mark:] {
			if e.Kind == "newproxy" {
				vs.Fail("registration of %s sent after the client was stopped", e.Name)
			}
		}
		if v := visitorPorts(w); v != "[]" {
			vs.Fail("visitor listeners %s still bound after the client was stopped", v)
		}
		vs.Observe("%s/%s final=[%s]", seq, mode, render(serverTable(w)))
	}
}

// health: a health-checked proxy under a sequence of probe outcomes.
func scHealth(outcomes string, maxFailed int) func(x *vs.Exec) {
	const interval = 10
	return func(x *vs.Exec) {
		p := cw.WithHealth(cw.TCPProxy("h", 8000, 9000), interval, 3, maxFailed)
		w := cw.New(x, cw.Opt{HeartbeatInterval: -1, NoPoolRequests: true, Proxies: []v1.ProxyConfigurer{p}})
		set := func(o byte) {
			w.H.Blackhole(8000, false)
			switch o {
			case 'o':
				w.StartBackend(8000)
			case 'f':
				w.StopBackend(8000)
			case 't':
				w.StopBackend(8000)
				w.H.Blackhole(8000, true)
			}
		}
		set(outcomes[0])
		vs.SetInterest(true)
		// reference: consecutive failures, a success restarts the count
		healthy, fails := false, 0
		everOK := false
		at := time.Duration(0) // start time of probe k: the monitor sleeps `interval` after each probe, a timed-out probe takes 3 s
		for k := 0; k < len(outcomes); k++ {
			if k > 0 {
				vs.Block("probe-window", func() bool { return x.Now() >= at-2*time.Second })
				set(outcomes[k])
			}
			vs.Block("probe-done", func() bool { return x.Now() >= at+6*time.Second })
			at += interval * time.Second
			if outcomes[k] == 't' {
				at += 3 * time.Second
			}
			if outcomes[k] == 'o' {
				fails = 0
				healthy = true
				everOK = true
			} else {
				fails++
				if healthy && fails >= maxFailed {
					healthy = false
				}
			}
			_, reg := serverTable(w)["h"]
			if reg != healthy {
				vs.Fail("probe outcomes %q (o=ok f=refused t=timeout), maxFailed=%d: after probe %d the proxy is registered=%v, expected %v (consecutive failures %d)\n%s",
					outcomes[:k+1], maxFailed, k, reg, healthy, fails, w.Srv.Log())
			}
			if !everOK && len(w.Srv.EventsOf("newproxy")) > 0 {
				vs.Fail("probe outcomes %q: proxy registered before its first successful probe", outcomes[:k+1])
			}
		}
		vs.SetInterest(false)
		w.Svc.Close()
		vs.Observe("%s/%d healthy=%v regs=%d closes=%d", outcomes, maxFailed, healthy, len(w.Srv.EventsOf("newproxy")), len(w.Srv.EventsOf("closeproxy")))
	}
}

// work: a work connection started for proxy "a" while the proxy is in the given state. Only a running proxy may take
// it (and must then carry bytes to the backend); in every other state — registration unanswered, refused, proxy
// withdrawn after a failed health check, proxy removed by a reload — "a stopped proxy accepts no further work
// connection": the client must close it (the server has a user connection joined to it), and the backend sees nothing.
func scWork(state string) func(x *vs.Exec) {
	return func(x *vs.Exec) {
		var p v1.ProxyConfigurer = cw.TCPProxy("a", 8000, 9000)
		if state == "unhealthy" {
			p = cw.WithHealth(cw.TCPProxy("a", 8000, 9000), 10, 3, 1)
		}
		w := cw.New(x, cw.Opt{HeartbeatInterval: -1, NoPoolRequests: true, Proxies: []v1.ProxyConfigurer{p}})
		be := w.StartBackend(8000)
		switch state {
		case "waitstart":
			w.Srv.Reply = func(string, int) cw.ReplyMode { return cw.ReplyNever }
		case "late":
			w.Srv.Reply = func(string, int) cw.ReplyMode { return cw.ReplyLate }
		case "starterr":
			w.Srv.Reply = func(string, int) cw.ReplyMode { return cw.ReplyError }
		}
		// reach the state
		vs.BlockFor("registration-sent", 30*time.Second, func() bool { return len(w.Srv.EventsOf("newproxy")) > 0 })
		time.Sleep(2 * time.Second)
		switch state {
		case "unhealthy":
			w.StopBackend(8000)
			vs.BlockFor("withdrawn", 60*time.Second, func() bool { return len(w.Srv.EventsOf("closeproxy")) > 0 })
			be = w.StartBackend(8000) // the backend is back, but the next probe has not run yet
		case "removed":
			w.Svc.UpdateAllConfigurer(nil, nil)
			vs.BlockFor("closed-at-server", 30*time.Second, func() bool { return len(w.Srv.EventsOf("closeproxy")) > 0 })
		}
		se := w.Srv.LiveSession()
		if se == nil {
			vs.Fail("work/%s: no live session", state)
			return
		}
		st, known := w.Svc.StatusExporter().GetProxyStatus("a")
		running := known && st.Phase == "running"
		if running != (state == "running") {
			vs.Observe("work/%s: phase=%v (state not reached, nothing judged)", state, st)
			w.Svc.Close()
			return
		}
		accepted := be.Accept
		vs.SetInterest(true)
		n0 := len(se.Work)
		w.Srv.SendTo(se, &msg.ReqWorkConn{})
		if !vs.BlockFor("work-conn", 20*time.Second, func() bool { return len(se.Work) > n0 }) {
			vs.Fail("work/%s: the client did not open the work connection it was asked for", state)
			return
		}
		wc := se.Work[n0]
		msg.WriteMsg(wc, &msg.StartWorkConn{ProxyName: "a", SrcAddr: "10.1.1.1", SrcPort: 5555, DstAddr: "127.0.0.1", DstPort: 9000})
		payload := "bytes-of-the-user"
		wc.Write([]byte(payload))
		if state == "running" {
			if !vs.BlockFor("echo", 20*time.Second, func() bool { return wc.Pending() >= len(payload) || wc.PeerClosed() }) || wc.Pending() < len(payload) {
				vs.Fail("work/running: a work connection started for a running proxy carried nothing back from the backend within 20 s (closed=%v)", wc.PeerClosed())
			}
		} else {
			if !vs.BlockFor("refused", 20*time.Second, func() bool { return wc.PeerClosed() }) {
				vs.Fail("work/%s: proxy a is not running (phase %q, known=%v) but the work connection started for it is still open 20 s later: the user connection joined to it at the server is left without a peer", state, st.Phase, known)
			}
			if be.Accept != accepted {
				vs.Fail("work/%s: proxy a is not running (phase %q) but the work connection reached its backend", state, st.Phase)
			}
		}
		vs.SetInterest(false)
		wc.Close()
		w.Svc.Close()
		vs.Observe("work/%s done", state)
	}
}

// staleok: the answer to a registration of a stopped proxy arrives while its same-named successor waits for its own answer.
func scStaleAnswer(x *vs.Exec) {
	w := cw.New(x, cw.Opt{HeartbeatInterval: -1, NoPoolRequests: true})
	w.StartBackend(8000)
	// the server accepts the first registration of a (old config), refuses the second (new config, e.g. its port is taken), accepts later ones
	w.Srv.Reply = func(name string, nth int) cw.ReplyMode {
		switch nth {
		case 1:
			return cw.ReplyLate
		case 2:
			return cw.ReplyLateError
		}
		return cw.ReplyOK
	}
	vs.Block("await-login", func() bool { return w.Srv.LiveCount() == 1 || x.Now() > 30*time.Second })
	vs.SetInterest(true)
	ps, _ := buildSet(w, "1--")
	w.Svc.UpdateAllConfigurer(ps, nil)
	time.Sleep(time.Second)
	ps, _ = buildSet(w, "2--") // changed before the first answer arrived
	w.Svc.UpdateAllConfigurer(ps, nil)
	time.Sleep(time.Second)
	// the server answers in order: ok for the old registration, error for the new one
	w.Srv.ReleaseLate()
	vs.SetInterest(false)
	time.Sleep(120 * time.Second) // start-error back-off is 30 s: the refused registration must have been retried by now
	want := wantRegistered("2--")
	if got := serverTable(w); render(got) != render(want) {
		st, _ := w.Svc.StatusExporter().GetProxyStatus("a")
		ph := "none"
		if st != nil {
			ph = st.Phase
		}
		vs.Fail("a start error from the server was abandoned: the server holds [%s], configured [%s], client reports %q (the answer to the stopped proxy's registration was taken for the new one)", render(got), render(want), ph)
	}
	vs.Observe("stale-answer log:\n%s", w.Srv.Log())
	w.Svc.Close()
}

func scenarios() {
	vs.ScenarioFactory = func(name string) *vs.Scenario {
		s := &vs.Scenario{Name: name, Horizon: 5000 * time.Second, MaxSteps: 2_000_000, NoEarlyTick: true, Watchdog: 2 * time.Minute,
			End: func(x *vs.Exec) string { return strings.Join(x.Obs, "\n") }}
		f := strings.Split(name, "/")
		switch f[0] {
		case "reload":
			s.Body = scReload(f[1], f[2])
		case "health":
			var mf int
			fmt.Sscanf(f[2], "%d", &mf)
			s.Body = scHealth(f[1], mf)
		case "staleanswer":
			s.Body = scStaleAnswer
		case "work":
			s.Body = scWork(f[1])
		default:
			return nil
		}
		return s
	}
}

func main() {
	c := drv.Setup("C19", "e1", "model_checking", scenarios)
	if c == nil {
		return
	}
	c.Rule("E1 on the virtual clock, real frpc vs model server: all sequences of <= R configuration sets over {absent, cfg, changed cfg} for two proxies and one stcp visitor, with server reply modes {ok, first answer late, first answer error, first answer missing}; all probe-outcome strings of length <= 5 over {ok, refused, timeout} x maxFailed {1,2,3}; oracle = server-side table equals the configured-and-healthy set with the latest configs after the settle time, unchanged entries untouched, consecutive-failure counting, nothing sent after stop; non-trivial = distinct observation trace; a work connection started for a proxy in each state {running, registration unanswered, answer held back, refused, withdrawn after a failed probe, removed by reload}: carried to the backend iff running, otherwise closed by the client within 20 s and never shown to the backend, all schedules with <= 1 deviation")
	pool := vs.GetPool(c.Workers)
	var names []string
	var sets []string
	for _, a := range "-123" {
		for _, b := range "-123" {
			for _, v := range "-12" {
				sets = append(sets, string([]rune{a, b, v}))
			}
		}
	}
	R := drv.Pick(c, 2, 3)
	var rec func(prefix []string, d int)
	rec = func(prefix []string, d int) {
		if len(prefix) > 0 {
			names = append(names, "reload/"+strings.Join(prefix, ">")+"/ok")
		}
		if d == 0 {
			return
		}
		for _, s := range sets {
			rec(append(append([]string{}, prefix...), s), d-1)
		}
	}
	rec(nil, R)
	for _, m := range []string{"late", "error1", "never1"} {
		for _, s1 := range []string{"11-", "1--", "12-"} {
			for _, s2 := range []string{"11-", "21-", "-1-", "22-", "---"} {
				names = append(names, "reload/"+s1+">"+s2+"/"+m)
			}
		}
	}
	for _, s1 := range []string{"--1", "1-1", "--2"} {
		for _, s2 := range []string{"---", "--2", "--1", "1--"} {
			names = append(names, "reload/"+s1+">"+s2+"/vsquat")
		}
	}
	var hrec func(p string, d int)
	hrec = func(p string, d int) {
		if len(p) > 0 {
			for mf := 1; mf <= 3; mf++ {
				names = append(names, fmt.Sprintf("health/%s/%d", p, mf))
			}
		}
		if d == 0 {
			return
		}
		for _, o := range "oft" {
			hrec(p+string(o), d-1)
		}
	}
	hrec("", drv.Pick(c, 5, 6))
	names = append(names, "staleanswer")
	workStates := []string{"running", "waitstart", "late", "starterr", "unhealthy", "removed"}
	for _, st := range workStates {
		names = append(names, "work/"+st)
	}
	for i := 0; i < len(names); i += 256 {
		if c.TimeUp() {
			c.Cap(fmt.Sprintf("enumeration stopped by the budget after %d of %d cases", i, len(names)))
			break
		}
		j := i + 256
		if j > len(names) {
			j = len(names)
		}
		rs, err := pool.RunBatch(names[i:j], true)
		if err != nil {
			c.Cap("harness error: " + err.Error())
			break
		}
		for k := range rs {
			c.FoldExec(&rs[k])
			c.Count(strings.Join(rs[k].Obs, "|"))
		}
		if i == 0 {
			c.Sample(map[string]any{"case": names[0], "observations": rs[0].Obs})
		}
	}
	c.Note("enumerated_cases", len(names))
	for _, n := range []string{"reload/1-->---/rapid", "reload/1-->2--/rapid", "reload/11->-1-/rapid"} {
		c.ExploreBoth(n, 2, 0.2)
	}
	for _, st := range workStates {
		c.ExploreBoth("work/"+st, 1, 0.08)
	}
	for _, n := range []string{"reload/11->21-/ok", "reload/1-1>2-2/ok", "reload/11->21-/late", "health/offo/2", "health/ofofo/3"} {
		c.ExploreBoth(n, 1, 0.25)
	}
	c.Finish()
}
