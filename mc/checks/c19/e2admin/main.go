// C19 part e2admin — reloads the way an operator does them: the configuration FILE is rewritten and the client is told
// to reload through its admin API (what `frpc reload` does). Real frps and a real frpc started from a file, on
// loopback. After every accepted reload the proxies registered at the server must converge to exactly those of the file
// (right remote ports, ports of removed proxies closed, visitors exactly the configured ones); a file that does not
// load or does not validate must be refused and change nothing. The reload sequences under all schedules, with the
// server's answers late or missing, are part e1's business; this part decides the path file -> admin API -> managers.
package main

import (
	"context"
	"encoding/json"
	"fmt"
	"io"
	"net"
	"net/http"
	"os"
	"path/filepath"
	"sort"
	"strings"
	"sync"
	"time"

	"github.com/fatedier/frp/client"
	"github.com/fatedier/frp/pkg/config"
	v1 "github.com/fatedier/frp/pkg/config/v1"
	"github.com/fatedier/frp/server/proxy"

	"verif/mc/drv"
	"verif/mc/peek"
	_ "verif/mc/quiet"
	rw "verif/mc/worlds/realworld"
)

// a configuration set: slots a, b (tcp proxies) and v (stcp visitor); '-' absent, '1' first form, '2' changed form;
// "bad-syntax" / "bad-port" are files that must be refused
type acase struct {
	Seq    []string `json:"sets"`
	Format string   `json:"format"` // toml | yaml | json
}

type ports struct{ a1, a2, b1, b2, v1, v2, admin int }

func render(set string, format string, srvPort int, p ports) string {
	type proxyDoc struct {
		Name       string `json:"name"`
		Type       string `json:"type"`
		LocalIP    string `json:"localIP"`
		LocalPort  int    `json:"localPort"`
		RemotePort int    `json:"remotePort"`
	}
	type visitorDoc struct {
		Name       string `json:"name"`
		Type       string `json:"type"`
		ServerName string `json:"serverName"`
		SecretKey  string `json:"secretKey"`
		BindAddr   string `json:"bindAddr"`
		BindPort   int    `json:"bindPort"`
	}
	doc := map[string]any{
		"serverAddr": "127.0.0.1", "serverPort": srvPort, "loginFailExit": false,
		"auth":      map[string]any{"token": rw.Token},
		"webServer": map[string]any{"addr": "127.0.0.1", "port": p.admin, "user": "admin", "password": "adminpw"},
	}
	var px []proxyDoc
	var vs []visitorDoc
	if set == "bad-port" {
		px = append(px, proxyDoc{"a", "tcp", "127.0.0.1", 1, 70000})
	} else if len(set) == 3 {
		if set[0] != '-' {
			px = append(px, proxyDoc{"a", "tcp", "127.0.0.1", 1, map[byte]int{'1': p.a1, '2': p.a2}[set[0]]})
		}
		if set[1] != '-' {
			px = append(px, proxyDoc{"b", "tcp", "127.0.0.1", 1, map[byte]int{'1': p.b1, '2': p.b2}[set[1]]})
		}
		if set[2] != '-' {
			vs = append(vs, visitorDoc{"v", "stcp", "secret", "k", "127.0.0.1", map[byte]int{'1': p.v1, '2': p.v2}[set[2]]})
		}
	}
	if px != nil {
		doc["proxies"] = px
	}
	if vs != nil {
		doc["visitors"] = vs
	}
	b, _ := json.MarshalIndent(doc, "", "  ")
	var out string
	switch format {
	case "json":
		out = string(b)
	case "yaml":
		out = string(b) // JSON is YAML
	default:
		// TOML by hand (flat keys, arrays of tables)
		var sb strings.Builder
		fmt.Fprintf(&sb, "serverAddr = \"127.0.0.1\"\nserverPort = %d\nloginFailExit = false\nauth.token = %q\nwebServer.addr = \"127.0.0.1\"\nwebServer.port = %d\nwebServer.user = \"admin\"\nwebServer.password = \"adminpw\"\n", srvPort, rw.Token, p.admin)
		for _, x := range px {
			fmt.Fprintf(&sb, "\n[[proxies]]\nname = %q\ntype = %q\nlocalIP = %q\nlocalPort = %d\nremotePort = %d\n", x.Name, x.Type, x.LocalIP, x.LocalPort, x.RemotePort)
		}
		for _, x := range vs {
			fmt.Fprintf(&sb, "\n[[visitors]]\nname = %q\ntype = %q\nserverName = %q\nsecretKey = %q\nbindAddr = %q\nbindPort = %d\n", x.Name, x.Type, x.ServerName, x.SecretKey, x.BindAddr, x.BindPort)
		}
		out = sb.String()
	}
	if set == "bad-syntax" {
		out += "\n[[proxies\nname = \n{{{"
	}
	return out
}

func want(set string, p ports) (reg map[string]int, vports []int) {
	reg = map[string]int{}
	if set[0] != '-' {
		reg["a"] = map[byte]int{'1': p.a1, '2': p.a2}[set[0]]
	}
	if set[1] != '-' {
		reg["b"] = map[byte]int{'1': p.b1, '2': p.b2}[set[1]]
	}
	if set[2] != '-' {
		vports = append(vports, map[byte]int{'1': p.v1, '2': p.v2}[set[2]])
	}
	return
}

func open(port int) bool {
	c, err := net.DialTimeout("tcp", fmt.Sprintf("127.0.0.1:%d", port), 300*time.Millisecond)
	if err != nil {
		return false
	}
	c.Close()
	return true
}

func run(ac acase) (viol, inconclusive string) {
	dir, err := os.MkdirTemp("/verif/.build", "c19admin")
	if err != nil {
		return "", err.Error()
	}
	defer os.RemoveAll(dir)
	srv, err := rw.StartServer(func(s *v1.ServerConfig) { s.AllowPorts = nil })
	if err != nil {
		return "", "server: " + err.Error()
	}
	defer srv.Close()
	p := ports{rw.FreePort(), rw.FreePort(), rw.FreePort(), rw.FreePort(), rw.FreePort(), rw.FreePort(), rw.FreePort()}
	path := filepath.Join(dir, "frpc."+ac.Format)
	if err := os.WriteFile(path, []byte(render(ac.Seq[0], ac.Format, srv.Cfg.BindPort, p)), 0o600); err != nil {
		return "", err.Error()
	}
	cfg, pcs, vcs, _, err := config.LoadClientConfig(path, true)
	if err != nil {
		return "", "initial file does not load: " + err.Error()
	}
	svc, err := client.NewService(client.ServiceOptions{Common: cfg, ProxyCfgs: pcs, VisitorCfgs: vcs, ConfigFilePath: path})
	if err != nil {
		return "", "client: " + err.Error()
	}
	ctx, cancel := context.WithCancel(context.Background())
	go func() { _ = svc.Run(ctx) }()
	defer func() {
		for i := 0; i < 400 && peek.F(svc, "cancel").IsNil(); i++ {
			time.Sleep(5 * time.Millisecond)
		}
		svc.Close()
		cancel()
	}()
	registered := func() map[string]bool {
		// through the manager's own (locking) accessor: the table is being changed by the server meanwhile
		out := map[string]bool{}
		pm := peek.F(srv.Svc, "pxyManager").Interface().(*proxy.Manager)
		for _, n := range []string{"a", "b"} {
			if _, ok := pm.GetByName(n); ok {
				out[n] = true
			}
		}
		return out
	}
	state := func(set string) string { // "" if the observable state is exactly the one of the set
		reg, vp := want(set, p)
		got := registered()
		var diff []string
		for n, port := range reg {
			if !got[n] {
				diff = append(diff, "proxy "+n+" not registered")
			} else if !open(port) {
				diff = append(diff, fmt.Sprintf("proxy %s registered but its configured port %d is not served", n, port))
			}
		}
		for n := range got {
			if _, ok := reg[n]; !ok {
				diff = append(diff, "proxy "+n+" still registered")
			}
		}
		for _, port := range []int{p.a1, p.a2, p.b1, p.b2} {
			used := false
			for _, q := range reg {
				used = used || q == port
			}
			if !used && open(port) {
				diff = append(diff, fmt.Sprintf("port %d of a removed / changed proxy still served", port))
			}
		}
		for _, port := range []int{p.v1, p.v2} {
			wantOpen := len(vp) == 1 && vp[0] == port
			if open(port) != wantOpen {
				diff = append(diff, fmt.Sprintf("visitor port %d open=%v, configured=%v", port, !wantOpen, wantOpen))
			}
		}
		sort.Strings(diff)
		return strings.Join(diff, "; ")
	}
	await := func(set string, d time.Duration) string {
		end := time.Now().Add(d)
		last := ""
		for {
			if last = state(set); last == "" {
				return ""
			}
			if time.Now().After(end) {
				return last
			}
			time.Sleep(60 * time.Millisecond)
		}
	}
	if d := await(ac.Seq[0], 15*time.Second); d != "" {
		return "", "initial configuration did not come up: " + d
	}
	cur := ac.Seq[0]
	for i, set := range ac.Seq[1:] {
		if err := os.WriteFile(path, []byte(render(set, ac.Format, srv.Cfg.BindPort, p)), 0o600); err != nil {
			return "", err.Error()
		}
		req, _ := http.NewRequest("GET", fmt.Sprintf("http://127.0.0.1:%d/api/reload?strictConfig=true", p.admin), nil)
		req.SetBasicAuth("admin", "adminpw")
		resp, err := (&http.Client{Timeout: 10 * time.Second}).Do(req)
		if err != nil {
			return "", "admin API not reachable: " + err.Error()
		}
		body, _ := io.ReadAll(resp.Body)
		resp.Body.Close()
		bad := strings.HasPrefix(set, "bad")
		if bad {
			if resp.StatusCode == 200 {
				return fmt.Sprintf("%s file %q (sets %v, reload %d): a file that must be refused was accepted by the reload", ac.Format, set, ac.Seq, i+1), ""
			}
			time.Sleep(700 * time.Millisecond)
			if d := state(cur); d != "" {
				return fmt.Sprintf("%s, sets %v: reload %d was refused (%d) but changed the running configuration: %s", ac.Format, ac.Seq, i+1, resp.StatusCode, d), ""
			}
			continue
		}
		if resp.StatusCode != 200 {
			return fmt.Sprintf("%s, sets %v: reload %d of a valid file answered %d %s", ac.Format, ac.Seq, i+1, resp.StatusCode, body), ""
		}
		if d := await(set, 20*time.Second); d != "" {
			return fmt.Sprintf("%s, sets %v: 20 s after reload %d (%s -> %s) through the admin API: %s", ac.Format, ac.Seq, i+1, cur, set, d), ""
		}
		cur = set
	}
	return "", ""
}

func main() {
	drv.E2Replayers["admin"] = func(raw json.RawMessage) string {
		var ac acase
		json.Unmarshal(raw, &ac)
		v, _ := run(ac)
		return v
	}
	c := drv.Setup("C19", "e2admin", "exploration", nil)
	if c == nil {
		return
	}
	c.Rule("real frps + real frpc started from a configuration file with the admin API on, loopback: every pair (thorough: triple) of configuration sets over {absent, cfg, changed cfg} for two tcp proxies and one stcp visitor, the file rewritten (TOML; JSON and YAML for a sub-lattice) and reloaded through GET /api/reload; after each reload the proxies registered at the server, the served public ports and the visitor ports are exactly those of the file; files with a syntax error or an out-of-range port are refused and change nothing; non-trivial = distinct case")
	c.Assume("convergence is awaited for 20 s per reload (real time, generous); a world that does not come up is inconclusive; violations are re-run twice and must fail every time")
	sets := []string{"---", "1--", "11-", "1-1", "2--", "-1-", "12-", "--1", "--2", "111", "221"}
	var cases []acase
	for _, s1 := range sets {
		for _, s2 := range sets {
			if s1 == s2 {
				continue
			}
			cases = append(cases, acase{[]string{s1, s2}, "toml"})
		}
	}
	for _, f := range []string{"json", "yaml"} {
		cases = append(cases, acase{[]string{"11-", "2-1", "---", "111"}, f}, acase{[]string{"1-1", "bad-syntax", "12-"}, f})
	}
	cases = append(cases, acase{[]string{"11-", "bad-syntax", "1--"}, "toml"}, acase{[]string{"111", "bad-port", "--2"}, "toml"}, acase{[]string{"1--", "bad-port", "bad-syntax", "-1-"}, "toml"})
	if !c.Quick() {
		for _, s1 := range sets[:6] {
			for _, s2 := range sets[:6] {
				for _, s3 := range sets[:6] {
					if s1 != s2 && s2 != s3 {
						cases = append(cases, acase{[]string{s1, s2, s3}, "toml"})
					}
				}
			}
		}
	}
	type out struct{ v, in string }
	res := make([]out, len(cases))
	var wg sync.WaitGroup
	sem := make(chan struct{}, 12)
	for i, ac := range cases {
		wg.Add(1)
		go func(i int, ac acase) {
			defer wg.Done()
			sem <- struct{}{}
			defer func() { <-sem }()
			if c.TimeUp() {
				res[i] = out{"", "budget"}
				return
			}
			v, in := run(ac)
			res[i] = out{v, in}
		}(i, ac)
	}
	wg.Wait()
	inc := 0
	for i, ac := range cases {
		if res[i].in != "" {
			inc++
			c.Note(fmt.Sprintf("inconclusive:%v:%s", ac.Seq, ac.Format), res[i].in)
			continue
		}
		c.Count(fmt.Sprintf("admin:%v:%s", ac.Seq, ac.Format))
		if res[i].v != "" {
			c.ViolateConfirmed("admin", fmt.Sprintf("admin:%v:%s", ac.Seq, ac.Format), res[i].v, ac, 2)
		}
	}
	if inc > 0 {
		c.Cap(fmt.Sprintf("%d cases inconclusive", inc))
	}
	c.Sample(cases[0])
	c.Finish()
}
