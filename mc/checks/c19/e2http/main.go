// C19 part e2http — the http flavour of the health check: "a probe exceeding its timeout or, for http, a non-2xx answer
// counts as failed", "withdrawn after exactly the configured number of consecutive failed probes — never fewer, a
// success restarts the count — and registered again after the next success".
//
// The real health.Monitor (type http) probes a real loopback HTTP server whose answer to the n-th probe is scripted, so
// the outcome of a case depends on the probe *index* only, never on wall-clock timing: the check waits until the
// scripted number of probes was served (or gives up as inconclusive), then compares the status callbacks, tagged with
// the index of the probe that caused them, with the reference model of the statement. The tcp flavour and the
// interplay with registration are decided under virtual time by part e1.
package main

import (
	"context"
	"encoding/json"
	"fmt"
	"net"
	"net/http"
	"strings"
	"sync"
	"time"

	"github.com/fatedier/frp/client/health"
	v1 "github.com/fatedier/frp/pkg/config/v1"

	"verif/mc/drv"
	_ "verif/mc/quiet"
)

// outcome alphabet of one probe: a status code (answered at once) or "slow" (200 after the timeout has passed).
// A connection closed without an answer is not in the alphabet: net/http transparently repeats an idempotent request on
// a fresh connection when a reused one dies, so the server would see two requests for one probe.
type hcase struct {
	Probes    []string `json:"probes"`
	MaxFailed int      `json:"maxFailed"`
	Path      string   `json:"path"`
	Headers   bool     `json:"headers"`
}

func failing(o string) bool {
	if o == "slow" {
		return true
	}
	return !(len(o) == 3 && o[0] == '2')
}

// reference model: callbacks as (probe index, "up"/"down")
func reference(hc hcase) []string {
	var ev []string
	ok, consec := false, 0
	m := hc.MaxFailed
	if m <= 0 {
		m = 1
	}
	for i, o := range hc.Probes {
		if !failing(o) {
			consec = 0
			if !ok {
				ok = true
				ev = append(ev, fmt.Sprintf("%d:up", i))
			}
		} else {
			consec++
			if ok && consec >= m {
				ok = false
				ev = append(ev, fmt.Sprintf("%d:down", i))
			}
		}
	}
	return ev
}

func run(hc hcase) (viol, inconclusive string) {
	ln, err := net.Listen("tcp", "127.0.0.1:0")
	if err != nil {
		return "", err.Error()
	}
	var mu sync.Mutex
	served := 0 // probes whose answer (or refusal) has been decided
	var events []string
	wantPath := hc.Path
	if !strings.HasPrefix(wantPath, "/") {
		wantPath = "/" + wantPath
	}
	srv := &http.Server{Handler: http.HandlerFunc(func(w http.ResponseWriter, r *http.Request) {
		mu.Lock()
		i := served
		served++
		mu.Unlock()
		o := "200"
		if i < len(hc.Probes) {
			o = hc.Probes[i]
		}
		// a probe that does not ask for what was configured gets a failing answer where a passing one is scripted
		good := r.Method == "GET" && r.URL.RequestURI() == wantPath
		if hc.Headers {
			good = good && r.Host == "health.example.com" && r.Header.Get("X-Probe") == "frp"
		}
		switch {
		case o == "slow":
			time.Sleep(1500 * time.Millisecond)
			w.WriteHeader(200)
		default:
			code := 0
			fmt.Sscanf(o, "%d", &code)
			if !good && code/100 == 2 {
				code = 500
			}
			w.WriteHeader(code)
			if code != 204 && code != 304 {
				fmt.Fprint(w, "body")
			}
		}
	})}
	go srv.Serve(ln)
	defer srv.Close()
	cfg := v1.HealthCheckConfig{Type: "http", TimeoutSeconds: 1, IntervalSeconds: 1, MaxFailed: hc.MaxFailed, Path: hc.Path}
	if hc.Headers {
		cfg.HTTPHeaders = []v1.HTTPHeader{{Name: "Host", Value: "health.example.com"}, {Name: "X-Probe", Value: "frp"}}
	}
	// the callbacks run in the monitor's goroutine right after the probe that caused them and before the next probe is
	// sent, so "served-1" at callback time is the index of that probe
	cb := func(kind string) func() {
		return func() {
			mu.Lock()
			events = append(events, fmt.Sprintf("%d:%s", served-1, kind))
			mu.Unlock()
		}
	}
	m := health.NewMonitor(context.Background(), cfg, ln.Addr().String(), cb("up"), cb("down"))
	m.Start()
	defer m.Stop()
	// wait until one probe more than scripted has been received: then every scripted probe has been judged
	deadline := time.Now().Add(time.Duration(len(hc.Probes))*3*time.Second + 20*time.Second)
	for {
		mu.Lock()
		n := served
		mu.Unlock()
		if n > len(hc.Probes) {
			break
		}
		if time.Now().After(deadline) {
			return "", fmt.Sprintf("only %d of %d probes arrived", n, len(hc.Probes)+1)
		}
		time.Sleep(20 * time.Millisecond)
	}
	mu.Lock()
	got := append([]string{}, events...)
	mu.Unlock()
	// drop what the extra (unscripted, passing) probe may already have caused
	var g []string
	for _, e := range got {
		var i int
		fmt.Sscanf(e, "%d:", &i)
		if i < len(hc.Probes) {
			g = append(g, e)
		}
	}
	want := reference(hc)
	if strings.Join(g, ",") != strings.Join(want, ",") {
		return fmt.Sprintf("http health check, probe outcomes %v, maxFailed=%d, path %q, headers=%v: status changes (probe:up/down) were %v, the statement gives %v", hc.Probes, hc.MaxFailed, hc.Path, hc.Headers, g, want), ""
	}
	return "", ""
}

func main() {
	drv.E2Replayers["httphealth"] = func(raw json.RawMessage) string {
		var hc hcase
		json.Unmarshal(raw, &hc)
		v, _ := run(hc)
		return v
	}
	c := drv.Setup("C19", "e2http", "exploration", nil)
	if c == nil {
		return
	}
	c.Rule("real health.Monitor of type http against a real loopback HTTP server whose answer to the n-th probe is scripted: (a) classification — every status of {200,201,202,204,206,226,299,300,304,400,401,403,404,410,418,429,500,502,503,504,599}, and a 200 arriving after the timeout, as second probe after a passing one with maxFailed=1, x path with / without leading slash / with query x configured Host + header; (b) counting — every outcome string of length <= 4 (thorough 6) over {200, 503, slow} x maxFailed {1,2,3}: the up/down callbacks, tagged with the probe index, equal the reference model of the statement; non-trivial = distinct case")
	c.Assume("answers are scripted per probe index, so the verdict does not depend on wall-clock timing; a case whose probes do not all arrive within 3 s per probe + 20 s is inconclusive, not a violation; redirects and bodies that stall after timely headers are left out (the statement does not say how they count)")
	var cases []hcase
	statuses := []string{"200", "201", "202", "204", "206", "226", "299", "300", "304", "400", "401", "403", "404", "410", "418", "429", "500", "502", "503", "504", "599", "slow"}
	for _, st := range statuses {
		for pi, path := range []string{"/health", "health", "/h/x?probe=1&y=%26"} {
			for _, hd := range []bool{false, true} {
				if c.Quick() && pi > 0 && hd {
					continue
				}
				cases = append(cases, hcase{Probes: []string{"200", st}, MaxFailed: 1, Path: path, Headers: hd})
			}
		}
	}
	maxLen := 4
	if !c.Quick() {
		maxLen = 6
	}
	alpha := []string{"200", "503", "slow"}
	var gen func(pre []string)
	gen = func(pre []string) {
		if len(pre) > 0 {
			for _, m := range []int{1, 2, 3} {
				nslow := 0
				for _, o := range pre {
					if o == "slow" {
						nslow++
					}
				}
				if nslow > 2 {
					continue
				}
				cases = append(cases, hcase{Probes: append([]string{}, pre...), MaxFailed: m, Path: "/health"})
			}
		}
		if len(pre) == maxLen {
			return
		}
		for _, a := range alpha {
			gen(append(pre, a))
		}
	}
	gen(nil)
	type out struct{ v, in string }
	res := make([]out, len(cases))
	var wg sync.WaitGroup
	sem := make(chan struct{}, 400)
	for i, hc := range cases {
		wg.Add(1)
		go func(i int, hc hcase) {
			defer wg.Done()
			sem <- struct{}{}
			defer func() { <-sem }()
			if c.TimeUp() {
				res[i] = out{"", "budget"}
				return
			}
			v, in := run(hc)
			res[i] = out{v, in}
		}(i, hc)
	}
	wg.Wait()
	inc := 0
	for i, hc := range cases {
		if res[i].in != "" {
			inc++
			continue
		}
		c.Count(fmt.Sprintf("hh:%v:%d:%s:%v", hc.Probes, hc.MaxFailed, hc.Path, hc.Headers))
		if res[i].v != "" {
			c.ViolateConfirmed("httphealth", fmt.Sprintf("httphealth:%v:%d:%s:%v", hc.Probes, hc.MaxFailed, hc.Path, hc.Headers), res[i].v, hc, 2)
		}
	}
	if inc > 0 {
		c.Cap(fmt.Sprintf("%d cases inconclusive (probes did not arrive in time / budget)", inc))
	}
	c.Note("cases", len(cases))
	c.Sample(cases[0])
	c.Finish()
}
