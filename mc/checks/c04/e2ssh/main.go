// C04 part e2ssh — the ssh tunnel gateway is a second door into frps: a tunnel opened through it becomes a client
// session on an internal listener, and that session is exempt from the token check only when the ssh layer itself
// authenticated the peer against the operator's authorized keys. "Nothing a remote peer sends can exempt it from that
// check": real frps with the gateway on loopback, a real ssh client, every combination of gateway configuration
// {no authorized keys, authorized keys} x ssh credential {none, authorized key, unknown key} x token in the tunnel
// command {right, wrong, none}; a session / proxy / public port may appear only for a peer that proved a configured
// credential (the token, or an authorized ssh key).
package main

import (
	"crypto/ed25519"
	"crypto/rand"
	"encoding/json"
	"fmt"
	"net"
	"os"
	"path/filepath"
	"strconv"
	"sync"
	"time"

	"golang.org/x/crypto/ssh"

	v1 "github.com/fatedier/frp/pkg/config/v1"

	"verif/mc/drv"
	"verif/mc/peek"
	_ "verif/mc/quiet"
	rw "verif/mc/worlds/realworld"
)

type scase struct {
	Gateway string `json:"gateway"` // open | keys | missing (an authorized keys file is configured but does not exist)
	SSHAuth string `json:"ssh_auth"` // none | goodkey | badkey
	Token   string `json:"token"`    // right | wrong | none
}

func (c scase) mayBeAdmitted() bool {
	switch c.Gateway {
	case "keys":
		return c.SSHAuth == "goodkey"
	case "missing":
		// nobody can prove an authorized key; a peer that proves the token may or may not be served (mustBeAdmitted is
		// false), everybody else must not
		return c.Token == "right"
	}
	return c.Token == "right"
}

// mustBeAdmitted: the positive controls (a peer with a valid credential is served), needed for non-vacuity only.
func (c scase) mustBeAdmitted() bool { return c.Gateway != "missing" && c.mayBeAdmitted() }

func newKey() (ssh.Signer, ssh.PublicKey) {
	pub, priv, _ := ed25519.GenerateKey(rand.Reader)
	s, _ := ssh.NewSignerFromKey(priv)
	p, _ := ssh.NewPublicKey(pub)
	return s, p
}

func portOpen(port int) bool {
	c, err := net.DialTimeout("tcp", net.JoinHostPort("127.0.0.1", strconv.Itoa(port)), 300*time.Millisecond)
	if err != nil {
		return false
	}
	c.Close()
	return true
}

func run(sc scase) (viol, inconclusive string) {
	dir, err := os.MkdirTemp("/verif/.build", "ssh")
	if err != nil {
		return "", err.Error()
	}
	defer os.RemoveAll(dir)
	good, goodPub := newKey()
	bad, _ := newKey()
	gwPort := rw.FreePort()
	srv, err := rw.StartServer(func(s *v1.ServerConfig) {
		s.SSHTunnelGateway.BindPort = gwPort
		s.SSHTunnelGateway.AutoGenPrivateKeyPath = filepath.Join(dir, "host_key")
		if sc.Gateway == "missing" {
			s.SSHTunnelGateway.AuthorizedKeysFile = filepath.Join(dir, "no-such-authorized_keys")
		}
		if sc.Gateway == "keys" {
			f := filepath.Join(dir, "authorized_keys")
			line := ssh.MarshalAuthorizedKey(goodPub)
			_ = os.WriteFile(f, append(line[:len(line)-1], []byte(" alice\n")...), 0o600)
			s.SSHTunnelGateway.AuthorizedKeysFile = f
		}
	})
	if err != nil {
		return "", "server: " + err.Error()
	}
	defer srv.Close()
	if !rw.WaitPort(gwPort, 5*time.Second) {
		return "", "ssh gateway did not come up"
	}
	sessions := func() int { return peek.F(srv.Svc, "ctlManager.ctlsByRunID").Len() }
	proxies := func() int { return peek.F(srv.Svc, "pxyManager.pxys").Len() }
	cc := &ssh.ClientConfig{User: "v0", HostKeyCallback: ssh.InsecureIgnoreHostKey(), Timeout: 5 * time.Second}
	switch sc.SSHAuth {
	case "goodkey":
		cc.Auth = []ssh.AuthMethod{ssh.PublicKeys(good)}
	case "badkey":
		cc.Auth = []ssh.AuthMethod{ssh.PublicKeys(bad)}
	}
	remotePort := rw.FreePort()
	admitted := func(wait time.Duration) bool {
		end := time.Now().Add(wait)
		for {
			if sessions() > 0 || proxies() > 0 || portOpen(remotePort) {
				return true
			}
			if time.Now().After(end) {
				return false
			}
			time.Sleep(50 * time.Millisecond)
		}
	}
	cli, err := ssh.Dial("tcp", net.JoinHostPort("127.0.0.1", strconv.Itoa(gwPort)), cc)
	if err != nil {
		// refused by the ssh layer: nothing may have been created
		if admitted(500 * time.Millisecond) {
			return fmt.Sprintf("ssh gateway (%s): the ssh handshake of a peer with credential %q failed, yet frps holds %d session(s) / %d proxies", sc.Gateway, sc.SSHAuth, sessions(), proxies()), ""
		}
		if sc.mustBeAdmitted() {
			return "", "ssh handshake failed for a peer that should be let in: " + err.Error()
		}
		return "", ""
	}
	defer cli.Close()
	if _, _, err := cli.SendRequest("tcpip-forward", true, ssh.Marshal(&struct {
		Host string
		Port uint32
	}{"0.0.0.0", 80})); err != nil {
		return "", "tcpip-forward: " + err.Error()
	}
	ch, reqs, err := cli.OpenChannel("session", nil)
	if err != nil {
		return "", "session channel: " + err.Error()
	}
	go ssh.DiscardRequests(reqs)
	cmd := fmt.Sprintf("tcp --proxy_name viassh --remote_port %d", remotePort)
	switch sc.Token {
	case "right":
		cmd += " --token " + rw.Token
	case "wrong":
		cmd += " --token not-" + rw.Token
	}
	if _, err := ch.SendRequest("exec", true, ssh.Marshal(&struct{ Cmd string }{cmd})); err != nil {
		return "", "exec: " + err.Error()
	}
	go func() { // drain what the gateway prints
		buf := make([]byte, 4096)
		for {
			if _, err := ch.Read(buf); err != nil {
				return
			}
		}
	}()
	if sc.mustBeAdmitted() {
		if !admitted(10 * time.Second) {
			return "", "a peer with a valid credential got no session within 10 s"
		}
		return "", ""
	}
	if sc.mayBeAdmitted() {
		return "", ""
	}
	if admitted(2500 * time.Millisecond) {
		return fmt.Sprintf("ssh gateway (%s): a tunnel from a peer with ssh credential %q and token %q was let in: %d session(s), %d proxies, public port open=%v — it proved neither the token nor an authorized key", sc.Gateway, sc.SSHAuth, sc.Token, sessions(), proxies(), portOpen(remotePort)), ""
	}
	return "", ""
}

func main() {
	drv.E2Replayers["sshgw"] = func(raw json.RawMessage) string {
		var sc scase
		json.Unmarshal(raw, &sc)
		v, _ := run(sc)
		return v
	}
	c := drv.Setup("C04", "e2ssh", "exploration", nil)
	if c == nil {
		return
	}
	c.Rule("real frps with the ssh tunnel gateway on loopback and a real ssh client: complete product gateway {no authorized keys, authorized keys file, authorized keys file configured but missing} x ssh credential {none, authorized key, unknown key} x token in the tunnel command {right, wrong, none}; a client session, proxy or public port appears only for a peer that proved the token or an authorized key; non-trivial = distinct case")
	c.Assume("absence is judged 2.5 s after the tunnel command was accepted by the gateway (the gateway itself gives up after 1 s); a peer with a valid credential that is not served within 10 s makes the case inconclusive, not a violation")
	var cases []scase
	for _, g := range []string{"open", "keys", "missing"} {
		for _, a := range []string{"none", "goodkey", "badkey"} {
			for _, t := range []string{"right", "wrong", "none"} {
				cases = append(cases, scase{g, a, t})
			}
		}
	}
	type out struct{ v, in string }
	res := make([]out, len(cases))
	var wg sync.WaitGroup
	sem := make(chan struct{}, 6)
	for i, sc := range cases {
		wg.Add(1)
		go func(i int, sc scase) {
			defer wg.Done()
			sem <- struct{}{}
			defer func() { <-sem }()
			v, in := run(sc)
			res[i] = out{v, in}
		}(i, sc)
	}
	wg.Wait()
	admittedCases := 0
	for i, sc := range cases {
		if res[i].in != "" {
			c.Cap(fmt.Sprintf("inconclusive %+v: %s", sc, res[i].in))
			continue
		}
		c.Count(fmt.Sprintf("sshgw:%+v", sc))
		if sc.mustBeAdmitted() {
			admittedCases++
		}
		if res[i].v != "" {
			c.ViolateConfirmed("sshgw", fmt.Sprintf("sshgw:%+v", sc), res[i].v, sc, 2)
		}
	}
	c.Note("cases_with_a_valid_credential_served", admittedCases)
	c.Sample(cases[1])
	c.Finish()
}
