// C04 — no session, proxy or work connection without valid client credentials.
// Exhaustive enumeration of message sequences a remote peer can send (fresh and established
// connections) against the real frps, for every subset of additional scopes, token and OIDC.
package main

import (
	"context"
	"fmt"
	"reflect"
	"strings"
	"time"

	"github.com/coreos/go-oidc/v3/oidc"

	"github.com/fatedier/frp/pkg/auth"
	v1 "github.com/fatedier/frp/pkg/config/v1"
	"github.com/fatedier/frp/pkg/msg"
	netpkg "github.com/fatedier/frp/pkg/util/net"
	"github.com/fatedier/frp/pkg/util/util"

	"verif/mc/drv"
	"verif/mc/peek"
	"verif/mc/vs"
	"verif/mc/vs/vnet"
	sw "verif/mc/worlds/srvworld"
)

type stubVerifier struct{}

// tokens of the form "good:<subject>" verify, everything else is rejected
func (stubVerifier) Verify(_ context.Context, tok string) (*oidc.IDToken, error) {
	if strings.HasPrefix(tok, "good:") {
		return &oidc.IDToken{Subject: strings.TrimPrefix(tok, "good:")}, nil
	}
	return nil, fmt.Errorf("invalid token")
}

func scopesOf(s string) []v1.AuthScope {
	var out []v1.AuthScope
	if strings.Contains(s, "H") {
		out = append(out, v1.AuthScopeHeartBeats)
	}
	if strings.Contains(s, "W") {
		out = append(out, v1.AuthScopeNewWorkConns)
	}
	return out
}

func newWorld(x *vs.Exec, method, scopes string, hb int64) *sw.World {
	w := sw.New(x, sw.Opt{AllowPorts: sw.P(20000, 20003), UserConnTimeout: 5, HeartbeatTimeout: hb, Scopes: scopesOf(scopes)})
	if method == "oidc" {
		av := peek.F(w.Svc, "authVerifier")
		av.Set(reflect.ValueOf(auth.Verifier(auth.NewOidcAuthVerifier(scopesOf(scopes), stubVerifier{}))))
	}
	return w
}

// the action alphabet; every action is something a remote peer can do
var actions = []string{
	"Lok", "Lbad", "Lempty", "Lstale", "Lpass", // logins on a fresh connection (Lpass: wrong key + client_spec.always_auth_pass)
	"Lbad-rid", // wrong key, naming the run id of an established session of somebody else
	"Wlive-ok", "Wlive-bad", "Wlive-none", "Wunk-ok", "Wempty-ok", // work connections: run id live/unknown/empty x key
	"Vunk",                   // visitor connection to a proxy that does not exist
	"Fproxy", "Fping", "Fgarbage", "Fnothing", // other first messages, garbage, silence then close
	"Sproxy", "Sping-ok", "Sping-bad", // on the established session of the last successful login
}

type ref struct {
	sessions int
	pool     int
	proxies  int
}

func key(method string, good bool, ts int64, subject string) string {
	if method == "oidc" {
		if good {
			return "good:" + subject
		}
		return "bad-token"
	}
	if good {
		return util.GetAuthKey(sw.Token, ts)
	}
	return util.GetAuthKey("not-the-token", ts)
}

func poolLen(w *sw.World) int {
	n := 0
	peek.Each(peek.F(w.Svc, "ctlManager.ctlsByRunID"), func(_ string, _, ctl reflect.Value) {
		n += peek.Walk(ctl, "workConnCh").Len()
	})
	return n
}

func scSeq(method, scopes, seq string) func(x *vs.Exec) {
	acts := strings.Split(seq, ",")
	return func(x *vs.Exec) {
		defer sw.Guard()
		w := newWorld(x, method, scopes, -1)
		wScope := strings.Contains(scopes, "W")
		// an honest bystander whose session and proxy must never be disturbed
		by, _, err := w.Login("by", sw.LoginOpt{User: "uby", Key: key(method, true, w.Now(), "by")})
		if err != nil {
			vs.Fail("setup: bystander login: %v", err)
			return
		}
		by.OnReq = func(p *sw.Peer) {
			go func() {
				p.ServeOneWorkWith(func(m *msg.NewWorkConn) {
					m.Timestamp = w.Now()
					m.PrivilegeKey = key(method, true, m.Timestamp, "by")
				})
			}()
		}
		if r := by.Reg(&msg.NewProxy{ProxyName: "by-tcp", ProxyType: "tcp", RemotePort: 20003}); r != "ok:20003" {
			vs.Fail("setup: %s", r)
			return
		}
		w.Quiesce()
		var sess *sw.Peer // last successfully logged-in attacker-controlled session
		nsess := 0
		for i, a := range acts {
			when := fmt.Sprintf("step %d (%s)", i, a)
			before := w.Dump()
			poolBefore := poolLen(w)
			switch {
			case strings.HasPrefix(a, "L"):
				o := sw.LoginOpt{User: "ux", Timestamp: w.Now()}
				want := false
				switch a {
				case "Lok":
					o.Key, want = key(method, true, o.Timestamp, "x"), true
				case "Lbad":
					o.Key = key(method, false, o.Timestamp, "x")
				case "Lbad-rid":
					o.Key = key(method, false, o.Timestamp, "x")
					o.RunID = by.RunID
				case "Lempty":
					o.Key = " "
				case "Lstale":
					o.Key = key(method, true, o.Timestamp-1, "x") // valid for another timestamp
					if method == "oidc" {
						o.Key = "expired"
					}
				case "Lpass":
					o.Key = key(method, false, o.Timestamp, "x")
					o.ClientSpec = msg.ClientSpec{AlwaysAuthPass: true, Type: "ssh-tunnel"}
				}
				p, resp, err := w.Login(fmt.Sprintf("x%d", i), o)
				w.Quiesce()
				got := err == nil
				if got != want {
					vs.Fail("%s: login accepted=%v, expected %v (resp=%+v)", when, got, want, resp)
				}
				if got {
					sess = p
					nsess++
				} else {
					if p != nil && !p.Conn.(*vnet.StreamConn).PeerClosed() {
						vs.Fail("%s: refused login: connection not closed by the server", when)
					}
					if d := w.Dump(); d != before {
						vs.Fail("%s: refused login left server state behind:\n%s--- before:\n%s", when, d, before)
					}
				}
			case strings.HasPrefix(a, "W"):
				f := strings.SplitN(strings.TrimPrefix(a, "W"), "-", 2)
				rid := map[string]string{"unk": "0123456789abcdef", "empty": ""}[f[0]]
				live := false
				if f[0] == "live" {
					if sess != nil && !sess.Closed {
						rid, live = sess.RunID, true
					} else {
						rid, live = by.RunID, true
					}
				}
				c, err := w.Dial()
				if err != nil {
					vs.Fail("dial: %v", err)
					return
				}
				m := &msg.NewWorkConn{RunID: rid, Timestamp: w.Now()}
				goodKey := false
				switch f[1] {
				case "ok":
					m.PrivilegeKey, goodKey = key(method, true, m.Timestamp, "x"), true
					if live && rid == by.RunID {
						m.PrivilegeKey = key(method, true, m.Timestamp, "by")
					}
				case "bad":
					m.PrivilegeKey = key(method, false, m.Timestamp, "x")
				case "none":
					m.Timestamp = 0
				}
				msg.WriteMsg(c, m)
				w.Quiesce()
				want := live && (!wScope || goodKey)
				pooled := poolLen(w) == poolBefore+1
				if pooled != want {
					vs.Fail("%s: work connection pooled=%v, expected %v (run id live=%v, scope=%v, key valid=%v)", when, pooled, want, live, wScope, goodKey)
				}
				if !pooled {
					if !c.PeerClosed() {
						vs.Fail("%s: refused work connection not closed by the server", when)
					}
					if d := w.Dump(); d != before {
						vs.Fail("%s: refused work connection left server state behind:\n%s--- before:\n%s", when, d, before)
					}
				}
				if pooled {
					// accepted: behave like an honest work connection of that session from now on
					owner := by
					if sess != nil && rid == sess.RunID {
						owner = sess
					}
					go owner.ServeWorkOn(c)
				} else {
					c.Close()
				}
				w.Quiesce()
			case a == "Vunk":
				c, e := w.Visitor("10.8.0.1:1", &msg.NewVisitorConn{ProxyName: "nope", RunID: ""}, "sk")
				w.Quiesce()
				if e == "" {
					vs.Fail("%s: visitor connection to an unknown proxy accepted", when)
				}
				if c != nil {
					if !c.PeerClosed() {
						vs.Fail("%s: refused visitor connection not closed", when)
					}
					c.Close()
				}
				if d := w.Dump(); d != before {
					vs.Fail("%s: refused visitor left state behind:\n%s", when, d)
				}
			case strings.HasPrefix(a, "F"):
				c, err := w.Dial()
				if err != nil {
					vs.Fail("dial: %v", err)
					return
				}
				switch a {
				case "Fproxy":
					msg.WriteMsg(c, &msg.NewProxy{ProxyName: "evil", ProxyType: "tcp", RemotePort: 20001})
				case "Fping":
					msg.WriteMsg(c, &msg.Ping{})
				case "Fgarbage":
					c.Write([]byte("GET / HTTP/1.1\r\nHost: x\r\n\r\n\x00\x01\x02"))
				case "Fnothing":
					c.Write([]byte("0123456789ab")) // enough for the port multiplexer to dispatch, then silence
				}
				w.Quiesce()
				if a == "Fnothing" {
					time.Sleep(15 * time.Second) // the server's read timeout is 10 s
					w.Quiesce()
				}
				if !c.PeerClosed() {
					vs.Fail("%s: connection whose first message is not a login / work / visitor message was not closed", when)
				}
				c.Close()
				w.Quiesce()
				if d := w.Dump(); d != before {
					vs.Fail("%s: unauthenticated first message left state behind:\n%s--- before:\n%s", when, d, before)
				}
			case strings.HasPrefix(a, "S"):
				if sess == nil || sess.Closed {
					continue // no established attacker session: nothing to send on
				}
				switch a {
				case "Sproxy":
					r := sess.Reg(&msg.NewProxy{ProxyName: fmt.Sprintf("x-tcp-%d", i), ProxyType: "tcp", RemotePort: 0})
					if !strings.HasPrefix(r, "ok") && !strings.Contains(r, "port") {
						vs.Fail("%s: authenticated session could not register: %s", when, r)
					}
				case "Sping-ok":
					sess.SendPing(func(m *msg.Ping) { m.Timestamp = w.Now(); m.PrivilegeKey = key(method, true, m.Timestamp, "x") })
					if r := sess.Await(&msg.Pong{}, nil); r == nil || r.(*msg.Pong).Error != "" {
						vs.Fail("%s: valid heartbeat not acknowledged: %+v", when, r)
					}
				case "Sping-bad":
					sess.SendPing(func(m *msg.Ping) { m.Timestamp = w.Now(); m.PrivilegeKey = key(method, false, m.Timestamp, "x") })
					r := sess.Await(&msg.Pong{}, nil)
					hScope := strings.Contains(scopes, "H")
					if r == nil {
						vs.Fail("%s: no pong", when)
					} else if (r.(*msg.Pong).Error != "") != hScope {
						vs.Fail("%s: heartbeat with a wrong key: pong error=%q, heartbeat scope enabled=%v", when, r.(*msg.Pong).Error, hScope)
					}
				}
				w.Quiesce()
			}
		}
		// existing sessions are undisturbed
		if by.Closed {
			vs.Fail("bystander session was closed by somebody else's messages")
		}
		if who, e := w.UserEcho("10.8.9.9:9", 20003, "still-there"); e != "" || who != "by/by-tcp" {
			vs.Fail("bystander's proxy disturbed: who=%q err=%s", who, e)
		}
		if n := len(w.Sessions()); n > nsess+1 {
			vs.Fail("session table has %d entries, only %d logins were valid", n, nsess+1)
		}
		vs.Observe("sessions=%d", len(w.Sessions()))
		w.Teardown()
	}
}

// heartbeat scope: invalid pings do not keep a session alive; valid ones do.
func scHeartbeat(scopes, behaviour string) func(x *vs.Exec) {
	return func(x *vs.Exec) {
		defer sw.Guard()
		const T = 5
		w := newWorld(x, "token", scopes, T)
		p, _, err := w.Login("p", sw.LoginOpt{User: "u"})
		if err != nil {
			vs.Fail("login: %v", err)
			return
		}
		hScope := strings.Contains(scopes, "H")
		t0 := x.Now()
		for i := 0; i < 4*T && !p.Closed; i++ {
			switch behaviour {
			case "valid":
				p.SendPing(nil)
			case "invalid":
				p.SendPing(func(m *msg.Ping) { m.Timestamp = w.Now(); m.PrivilegeKey = "bogus" })
			case "silent":
			}
			time.Sleep(time.Second)
		}
		w.Quiesce()
		keeps := behaviour == "valid" || (behaviour == "invalid" && !hScope)
		if keeps && p.Closed {
			vs.Fail("peer sending %s heartbeats every second was dropped (heartbeat scope=%v, timeout %ds) after %v", behaviour, hScope, T, p.ClosedAt-t0)
		}
		if !keeps {
			if !p.Closed {
				vs.Fail("peer sending %s heartbeats (heartbeat scope=%v) is still connected after %ds, timeout is %ds", behaviour, hScope, 4*T, T)
			} else if d := p.ClosedAt - t0; d > (T+2)*time.Second {
				vs.Fail("peer sending %s heartbeats dropped after %v, timeout is %ds", behaviour, d, T)
			}
			if d := w.Dump(); d != w.Base {
				vs.Fail("state left behind after the peer was dropped:\n%s", d)
			}
		}
		vs.Observe("%s/%s closed=%v", scopes, behaviour, p.Closed)
		w.Teardown()
	}
}

// internal: the ssh gateway's internal listener — only there may always_auth_pass exempt a login.
func scInternal(x *vs.Exec) {
	defer sw.Guard()
	w := newWorld(x, "token", "", -1)
	il := peek.F(w.Svc, "sshTunnelListener").Interface().(*netpkg.InternalListener)
	try := func(pass bool, goodKey bool) (accepted bool) {
		c, s := w.H.Pair("10.9.0.1:22", "127.0.0.1:2200")
		il.PutConn(s)
		ts := w.Now()
		lm := &msg.Login{User: "ssh", Timestamp: ts, PrivilegeKey: key("token", goodKey, ts, ""), ClientSpec: msg.ClientSpec{Type: "ssh-tunnel", AlwaysAuthPass: pass}}
		msg.WriteMsg(c, lm)
		var resp msg.LoginResp
		done := false
		go func() { msg.ReadMsgInto(c, &resp); done = true }()
		vs.BlockOrIdle("loginresp", func() bool { return done })
		c.Close()
		w.Quiesce()
		return done && resp.Error == "" && resp.RunID != ""
	}
	if !try(true, false) {
		vs.Observe("internal listener + always_auth_pass: login refused")
	}
	if try(false, false) {
		vs.Fail("internal listener without always_auth_pass accepted a login with a wrong key")
	}
	if !try(false, true) {
		vs.Fail("internal listener refused a login with the right key")
	}
	w.Teardown()
}

func scenarios() {
	vs.ScenarioFactory = func(name string) *vs.Scenario {
		s := &vs.Scenario{Name: name, Horizon: 600 * time.Second, MaxSteps: 80000, NoEarlyTick: true, End: sw.StdEnd}
		f := strings.Split(name, "/")
		switch f[0] {
		case "seq":
			s.Body = scSeq(f[1], f[2], f[3])
		case "hb":
			s.Body = scHeartbeat(f[1], f[2])
		case "internal":
			s.Body = scInternal
		default:
			return nil
		}
		return s
	}
}

func main() {
	c := drv.Setup("C04", "e1", "model_checking", scenarios)
	if c == nil {
		return
	}
	c.Rule("E1 (sequential driver, default schedule + bound-1 deviations on a sample): every sequence of length <= L over the 18-action alphabet of remote-peer messages (logins with valid/wrong/empty/stale key and with client_spec.always_auth_pass, work connections with live/unknown/empty run id x valid/wrong/absent key, unknown visitor, other first messages, garbage, silence, and proxy/ping messages on an established session) x 4 scope subsets x {token, oidc(stub verifier)}, each step compared with the reference 'accepted iff credential valid' and 'refused attempts change nothing'; non-trivial = distinct server end state")
	c.Assume("OIDC token verification itself (go-oidc) is replaced by a stub TokenVerifier; the ssh gateway's TCP/ssh front end is not driven, its internal listener is")
	pool := vs.GetPool(c.Workers)
	L := drv.Pick(c, 3, 4)
	var names []string
	var rec func(prefix []string, d int)
	for _, method := range []string{"token", "oidc"} {
		for _, sc := range []string{"-", "H", "W", "HW"} {
			rec = func(prefix []string, d int) {
				if len(prefix) > 0 {
					names = append(names, fmt.Sprintf("seq/%s/%s/%s", method, sc, strings.Join(prefix, ",")))
				}
				if d == 0 {
					return
				}
				for _, a := range actions {
					// "S" actions need a preceding successful login to be meaningful
					if strings.HasPrefix(a, "S") && !contains(prefix, "Lok") {
						continue
					}
					rec(append(append([]string{}, prefix...), a), d-1)
				}
			}
			if false {
				continue
			}
			rec(nil, L)
		}
	}
	seen := map[string]bool{}
	for i := 0; i < len(names); i += 1024 {
		if c.TimeUp() {
			c.Cap(fmt.Sprintf("sequence enumeration stopped by the time budget after %d of %d sequences", i, len(names)))
			break
		}
		j := i + 1024
		if j > len(names) {
			j = len(names)
		}
		rs, err := pool.RunBatch(names[i:j], false)
		if err != nil {
			c.Cap("harness error: " + err.Error())
			break
		}
		for k := range rs {
			c.FoldExec(&rs[k])
			if !seen[rs[k].EndState] {
				seen[rs[k].EndState] = true
				if len(seen) <= 4 {
					c.Sample(map[string]any{"sequence": names[i+k], "end_state": rs[k].EndState})
				}
			}
		}
	}
	c.Note("sequences", map[string]any{"max_length": L, "alphabet": actions, "enumerated": len(names), "distinct_end_states": len(seen)})
	for _, sc := range []string{"-", "H", "HW"} {
		for _, b := range []string{"valid", "invalid", "silent"} {
			c.Explore("hb/"+sc+"/"+b, 0, 0.1)
		}
	}
	c.Explore("internal", 1, 0.2)
	// schedule deviations on representative sequences
	for _, n := range []string{"seq/token/HW/Lok,Wlive-bad,Sping-bad", "seq/token/W/Lbad,Wlive-ok,Lok", "seq/oidc/HW/Lok,Wlive-ok,Lpass"} {
		c.Explore(n, 1, 0.3)
	}
	c.Finish()
}

func contains(l []string, s string) bool {
	for _, x := range l {
		if x == s {
			return true
		}
	}
	return false
}
