// C04 part e2ini — the credential settings written in the (still supported) ini format mean what they say: for every
// combination of token, authentication method and the two per-message switches in an frps.ini / frpc.ini, the loaded
// configuration carries exactly that method, that token and those scopes — "when per-message scopes are enabled,
// heartbeats / work connections without a valid key are refused" presupposes that enabling them in the file enables them.
package main

import (
	"encoding/json"
	"fmt"
	"os"
	"path/filepath"
	"sort"
	"strings"

	"github.com/fatedier/frp/pkg/config"
	v1 "github.com/fatedier/frp/pkg/config/v1"

	"verif/mc/drv"
	_ "verif/mc/quiet"
)

type icase struct {
	Side   string `json:"side"` // server | client
	Method string `json:"authentication_method"`
	Token  string `json:"token"`
	HB     string `json:"authenticate_heartbeats"`     // "", "true", "false"
	WC     string `json:"authenticate_new_work_conns"` // "", "true", "false"
}

func scopes(a []v1.AuthScope) string {
	var s []string
	for _, x := range a {
		s = append(s, string(x))
	}
	sort.Strings(s)
	return strings.Join(s, ",")
}

func run(ic icase) string {
	dir, err := os.MkdirTemp("/verif/.build", "c04ini")
	if err != nil {
		return ""
	}
	defer os.RemoveAll(dir)
	var sb strings.Builder
	sb.WriteString("[common]\n")
	if ic.Side == "server" {
		sb.WriteString("bind_port = 7000\n")
	} else {
		sb.WriteString("server_addr = 127.0.0.1\nserver_port = 7000\n")
	}
	if ic.Method != "" {
		sb.WriteString("authentication_method = " + ic.Method + "\n")
	}
	if ic.Token != "" {
		sb.WriteString("token = " + ic.Token + "\n")
	}
	if ic.HB != "" {
		sb.WriteString("authenticate_heartbeats = " + ic.HB + "\n")
	}
	if ic.WC != "" {
		sb.WriteString("authenticate_new_work_conns = " + ic.WC + "\n")
	}
	path := filepath.Join(dir, "frp.ini")
	_ = os.WriteFile(path, []byte(sb.String()), 0o600)
	var auth struct {
		method v1.AuthMethod
		token  string
		scopes []v1.AuthScope
	}
	if ic.Side == "server" {
		cfg, _, err := config.LoadServerConfig(path, true)
		if err != nil {
			return fmt.Sprintf("frps.ini refused: %v\n%s", err, sb.String())
		}
		auth.method, auth.token, auth.scopes = cfg.Auth.Method, cfg.Auth.Token, cfg.Auth.AdditionalScopes
	} else {
		cfg, _, _, _, err := config.LoadClientConfig(path, true)
		if err != nil {
			return fmt.Sprintf("frpc.ini refused: %v\n%s", err, sb.String())
		}
		auth.method, auth.token, auth.scopes = cfg.Auth.Method, cfg.Auth.Token, cfg.Auth.AdditionalScopes
	}
	wantMethod := ic.Method
	if wantMethod == "" {
		wantMethod = "token"
	}
	var want []string
	if ic.HB == "true" {
		want = append(want, "HeartBeats")
	}
	if ic.WC == "true" {
		want = append(want, "NewWorkConns")
	}
	if string(auth.method) != wantMethod || auth.token != ic.Token || scopes(auth.scopes) != strings.Join(want, ",") {
		return fmt.Sprintf("%s ini {method %q token %q heartbeats %q work conns %q} loads as method %q, token %q, scopes [%s]; the file says method %q, token %q, scopes [%s]", ic.Side, ic.Method, ic.Token, ic.HB, ic.WC, auth.method, auth.token, scopes(auth.scopes), wantMethod, ic.Token, strings.Join(want, ","))
	}
	return ""
}

func main() {
	drv.E2Replayers["ini"] = func(raw json.RawMessage) string {
		var ic icase
		json.Unmarshal(raw, &ic)
		return run(ic)
	}
	c := drv.Setup("C04", "e2ini", "exploration", nil)
	if c == nil {
		return
	}
	c.Rule("complete product side {frps.ini, frpc.ini} x authentication_method {absent, token, oidc} x token {absent, set} x authenticate_heartbeats {absent, true, false} x authenticate_new_work_conns {absent, true, false}: the configuration loaded through config.LoadServerConfig / LoadClientConfig carries exactly the method, the token and the scopes the file names; non-trivial = distinct file")
	var n int
	for _, side := range []string{"server", "client"} {
		for _, m := range []string{"", "token", "oidc"} {
			for _, tok := range []string{"", "s3cret-tok"} {
				for _, hb := range []string{"", "true", "false"} {
					for _, wc := range []string{"", "true", "false"} {
						ic := icase{side, m, tok, hb, wc}
						sig := fmt.Sprintf("ini:%s:%s:%s:%s:%s", side, m, tok, hb, wc)
						c.Count(sig)
						n++
						if v := run(ic); v != "" {
							c.Violate("ini", sig, v, ic)
						}
					}
				}
			}
		}
	}
	c.Sample(icase{"server", "token", "s3cret-tok", "true", "true"})
	c.Finish()
}
