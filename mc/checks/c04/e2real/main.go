// C04 part e2real — the credential rule on every front door of a real frps. The statement quantifies over "every listener
// (tcp, kcp, quic, websocket, tls)"; part e1 speaks to the server over virtual plain TCP only. Here a real frps on loopback
// listens on its tcp, kcp and quic ports, and a scripted peer reaches it through frp's own client connector for every
// door {tcp, kcp, quic, websocket} x tls.enable x tcpMux, with every subset of the per-message scopes, and walks
// through a fixed list of attempts. Sessions, proxies and pooled work connections are read from the server's own tables.
package main

import (
	"context"
	"encoding/json"
	"errors"
	"fmt"
	"io"
	"net"
	"os"
	"reflect"
	"strings"
	"time"

	"github.com/samber/lo"

	"github.com/fatedier/frp/client"
	v1 "github.com/fatedier/frp/pkg/config/v1"
	"github.com/fatedier/frp/pkg/msg"
	netpkg "github.com/fatedier/frp/pkg/util/net"
	"github.com/fatedier/frp/pkg/util/util"

	"verif/mc/drv"
	"verif/mc/peek"
	_ "verif/mc/quiet"
	rw "verif/mc/worlds/realworld"
)

type door struct {
	Proto  string `json:"protocol"`
	TLS    bool   `json:"tls_enable"`
	Mux    bool   `json:"tcpMux"`
	HB     bool   `json:"scope_heartbeats"`
	WC     bool   `json:"scope_new_work_conns"`
	Method string `json:"method"`
}

func sessions(s *rw.Server) int { return peek.F(s.Svc, "ctlManager.ctlsByRunID").Len() }
func proxies(s *rw.Server) int  { return peek.F(s.Svc, "pxyManager.pxys").Len() }

// pooled: work connections parked in the pool of session runID (looked up through the manager's locking accessor)
func pooled(s *rw.Server, runID string) int {
	out := peek.F(s.Svc, "ctlManager").MethodByName("GetByID").Call([]reflect.Value{reflect.ValueOf(runID)})
	if !out[1].Bool() {
		return 0
	}
	return peek.F(out[0].Interface(), "workConnCh").Len()
}

type peer struct {
	conn net.Conn
	enc  io.ReadWriter
}

var lastReadErr error

func closedWithin(c net.Conn, d time.Duration) (closed bool, got []byte) {
	_ = c.SetReadDeadline(time.Now().Add(d))
	buf := make([]byte, 4096)
	for {
		n, err := c.Read(buf)
		got = append(got, buf[:n]...)
		if err != nil {
			lastReadErr = err
			var ne net.Error
			if (errors.As(err, &ne) && ne.Timeout()) || strings.Contains(err.Error(), "timeout") {
				return false, got // kcp wraps its timeout error in a way errors.As does not see through
			}
			return true, got
		}
	}
}

func run(d door) (viol []string, inconclusive string) {
	kcpPort, quicPort := rw.FreePort(), rw.FreePort()
	srv, err := rw.StartServer(func(s *v1.ServerConfig) {
		s.KCPBindPort = kcpPort
		s.QUICBindPort = quicPort
		s.Transport.TCPMux = lo.ToPtr(d.Mux)
		s.Transport.HeartbeatTimeout = 6
		s.AllowPorts = nil
		if d.HB {
			s.Auth.AdditionalScopes = append(s.Auth.AdditionalScopes, v1.AuthScopeHeartBeats)
		}
		if d.WC {
			s.Auth.AdditionalScopes = append(s.Auth.AdditionalScopes, v1.AuthScopeNewWorkConns)
		}
	})
	if err != nil {
		return nil, "server: " + err.Error()
	}
	defer srv.Close()
	name := fmt.Sprintf("%s tls=%v mux=%v hb=%v wc=%v", d.Proto, d.TLS, d.Mux, d.HB, d.WC)
	ccfg := &v1.ClientCommonConfig{}
	ccfg.ServerAddr = "127.0.0.1"
	ccfg.ServerPort = srv.Cfg.BindPort
	switch d.Proto {
	case "kcp":
		ccfg.ServerPort = kcpPort
	case "quic":
		ccfg.ServerPort = quicPort
	}
	ccfg.Transport.Protocol = d.Proto
	ccfg.Transport.TLS.Enable = lo.ToPtr(d.TLS)
	ccfg.Transport.TCPMux = lo.ToPtr(d.Mux)
	ccfg.Transport.DialServerTimeout = 5
	ccfg.Complete()
	ctx, cancel := context.WithCancel(context.Background())
	defer cancel()
	cn := client.NewConnector(ctx, ccfg)
	if err := cn.Open(); err != nil {
		return nil, name + ": open: " + err.Error()
	}
	defer cn.Close()
	dial := func() (net.Conn, string) {
		c, err := cn.Connect()
		if err != nil {
			return nil, name + ": connect: " + err.Error()
		}
		return c, ""
	}
	const reliableClose = true
	t0 := time.Now()
	stage := func(what string) {
		if os.Getenv("C04_DEBUG") != "" {
			fmt.Fprintf(os.Stderr, "%s: %s at %v\n", name, what, time.Since(t0).Round(time.Millisecond))
		}
	}
	defer stage("end")
	bad := func(format string, a ...any) { viol = append(viol, name+": "+fmt.Sprintf(format, a...)) }

	// login attempts that must be refused
	type att struct {
		what string
		m    func() *msg.Login
	}
	now := time.Now().Unix()
	refused := []att{
		{"a key made from another token", func() *msg.Login {
			return &msg.Login{Version: "0.62.0", User: "x", PrivilegeKey: util.GetAuthKey("not-the-token", now), Timestamp: now}
		}},
		{"an empty key", func() *msg.Login { return &msg.Login{Version: "0.62.0", User: "x", Timestamp: now} }},
		{"an empty key and client_spec.always_auth_pass", func() *msg.Login {
			return &msg.Login{Version: "0.62.0", User: "x", Timestamp: now, ClientSpec: msg.ClientSpec{Type: "ssh-tunnel", AlwaysAuthPass: true}}
		}},
		{"the right key for another timestamp", func() *msg.Login {
			return &msg.Login{Version: "0.62.0", User: "x", PrivilegeKey: util.GetAuthKey(rw.Token, now-1), Timestamp: now}
		}},
		{"the token itself as key", func() *msg.Login {
			return &msg.Login{Version: "0.62.0", User: "x", PrivilegeKey: rw.Token, Timestamp: now}
		}},
	}
	for _, a := range refused {
		c, in := dial()
		if in != "" {
			return viol, in
		}
		if err := msg.WriteMsg(c, a.m()); err != nil {
			c.Close()
			return viol, name + ": write: " + err.Error()
		}
		_ = c.SetReadDeadline(time.Now().Add(5 * time.Second))
		var resp msg.LoginResp
		err := msg.ReadMsgInto(c, &resp)
		if err == nil && resp.Error == "" {
			bad("a login with %s was accepted (run id %q)", a.what, resp.RunID)
		}
		c.Close()
		time.Sleep(30 * time.Millisecond)
		if n := sessions(srv); n != 0 {
			bad("after a login with %s the server holds %d session(s)", a.what, n)
		}
	}
	stage("refused logins done")
	// a work connection naming no session
	{
		c, in := dial()
		if in != "" {
			return viol, in
		}
		ts := time.Now().Unix()
		_ = msg.WriteMsg(c, &msg.NewWorkConn{RunID: "0123456789abcdef", PrivilegeKey: util.GetAuthKey(rw.Token, ts), Timestamp: ts})
		if closed, _ := closedWithin(c, 3*time.Second); !closed && reliableClose {
			bad("a work connection naming an unknown session was not closed within 3 s")
		}
		c.Close()
	}
	// the right login (also shows that the door works at all)
	login := func(user string) (*peer, string, string) {
		c, in := dial()
		if in != "" {
			return nil, "", in
		}
		ts := time.Now().Unix()
		if err := msg.WriteMsg(c, &msg.Login{Version: "0.62.0", User: user, PrivilegeKey: util.GetAuthKey(rw.Token, ts), Timestamp: ts, PoolCount: 0}); err != nil {
			return nil, "", name + ": write: " + err.Error()
		}
		_ = c.SetReadDeadline(time.Now().Add(5 * time.Second))
		var resp msg.LoginResp
		if err := msg.ReadMsgInto(c, &resp); err != nil || resp.Error != "" {
			return nil, "", fmt.Sprintf("%s: the right login failed: %v %s", name, err, resp.Error)
		}
		_ = c.SetReadDeadline(time.Time{})
		enc, err := netpkg.NewCryptoReadWriter(c, []byte(rw.Token))
		if err != nil {
			return nil, "", err.Error()
		}
		return &peer{c, enc}, resp.RunID, ""
	}
	stage("unknown-session work connection done")
	good, runID, in := login("good")
	if in != "" {
		return viol, in
	}
	defer good.conn.Close()
	inbox := make(chan msg.Message, 64)
	go func() {
		for {
			m, err := msg.ReadMsg(good.enc)
			if err != nil {
				close(inbox)
				return
			}
			inbox <- m
		}
	}()
	await := func(match func(m msg.Message) bool, d time.Duration) msg.Message {
		t := time.After(d)
		for {
			select {
			case m, ok := <-inbox:
				if !ok {
					return nil
				}
				if match(m) {
					return m
				}
			case <-t:
				return nil
			}
		}
	}
	goodPing := func() *msg.Ping {
		p := &msg.Ping{}
		if d.HB {
			p.Timestamp = time.Now().Unix()
			p.PrivilegeKey = util.GetAuthKey(rw.Token, p.Timestamp)
		}
		return p
	}
	stop := make(chan struct{})
	defer close(stop)
	go func() { // keeps the good session alive
		for {
			select {
			case <-stop:
				return
			case <-time.After(700 * time.Millisecond):
				_ = msg.WriteMsg(good.enc, goodPing())
			}
		}
	}()
	port := rw.FreePort()
	_ = msg.WriteMsg(good.enc, &msg.NewProxy{ProxyName: "good.p", ProxyType: "tcp", RemotePort: port})
	r := await(func(m msg.Message) bool { _, ok := m.(*msg.NewProxyResp); return ok }, 5*time.Second)
	if r == nil || r.(*msg.NewProxyResp).Error != "" {
		return viol, fmt.Sprintf("%s: the right session could not register a proxy: %+v", name, r)
	}
	if sessions(srv) != 1 || proxies(srv) != 1 {
		return viol, fmt.Sprintf("%s: %d sessions, %d proxies after the right login", name, sessions(srv), proxies(srv))
	}
	stage("right login + proxy done")
	// work connections for the live session
	type wc struct {
		what   string
		m      *msg.NewWorkConn
		refuse bool
	}
	ts := time.Now().Unix()
	wcs := []wc{
		{"no key", &msg.NewWorkConn{RunID: runID}, d.WC},
		{"a key made from another token", &msg.NewWorkConn{RunID: runID, PrivilegeKey: util.GetAuthKey("not-the-token", ts), Timestamp: ts}, d.WC},
		{"the right key for another timestamp", &msg.NewWorkConn{RunID: runID, PrivilegeKey: util.GetAuthKey(rw.Token, ts-1), Timestamp: ts}, d.WC},
		{"the right key", &msg.NewWorkConn{RunID: runID, PrivilegeKey: util.GetAuthKey(rw.Token, ts), Timestamp: ts}, false},
	}
	for _, w := range wcs {
		before := pooled(srv, runID)
		c, in := dial()
		if in != "" {
			return viol, in
		}
		_ = msg.WriteMsg(c, w.m)
		closed, _ := closedWithin(c, lo.Ternary(w.refuse && reliableClose, 3*time.Second, 400*time.Millisecond))
		after := pooled(srv, runID)
		if w.refuse {
			if !closed && reliableClose {
				bad("scope NewWorkConns on: a work connection with %s for a live session was not closed within 3 s", w.what)
			}
			if after > before {
				bad("scope NewWorkConns on: a work connection with %s was pooled (%d -> %d)", w.what, before, after)
			}
		} else if closed || after != before+1 {
			inconclusive = fmt.Sprintf("%s: a legitimate work connection (%s) was not pooled (closed=%v %v, %d -> %d)", name, w.what, closed, lastReadErr, before, after)
		}
		defer c.Close()
	}
	stage("work connections done")
	// heartbeats without a valid key do not keep a session alive
	if d.HB {
		for _, v := range []struct {
			what string
			p    func() *msg.Ping
		}{
			{"no key", func() *msg.Ping { return &msg.Ping{} }},
			{"a key made from another token", func() *msg.Ping {
				t := time.Now().Unix()
				return &msg.Ping{PrivilegeKey: util.GetAuthKey("not-the-token", t), Timestamp: t}
			}},
		} {
			p, _, in := login("hb")
			if in != "" {
				return viol, in
			}
			go io.Copy(io.Discard, p.enc)
			if sessions(srv) != 2 {
				time.Sleep(100 * time.Millisecond)
			}
			end := time.Now().Add(60 * time.Second) // heartbeatTimeout is 6 s: judged with a 10x margin
			for time.Now().Before(end) && sessions(srv) > 1 {
				_ = msg.WriteMsg(p.enc, v.p())
				time.Sleep(300 * time.Millisecond)
			}
			if sessions(srv) > 1 {
				bad("scope HeartBeats on: a session whose heartbeats carry %s is still alive after 60 s (heartbeatTimeout 6 s)", v.what)
			}
			p.conn.Close()
			time.Sleep(50 * time.Millisecond)
		}
	}
	stage("heartbeats done")
	// refused attempts left nothing behind and the right session still works
	time.Sleep(100 * time.Millisecond)
	if s, p := sessions(srv), proxies(srv); s != 1 || p != 1 {
		bad("after all refused attempts the server holds %d sessions and %d proxies; the one legitimate session with one proxy is expected", s, p)
	}
	port2 := rw.FreePort()
	_ = msg.WriteMsg(good.enc, &msg.NewProxy{ProxyName: "good.q", ProxyType: "tcp", RemotePort: port2})
	r = await(func(m msg.Message) bool { x, ok := m.(*msg.NewProxyResp); return ok && x.ProxyName == "good.q" }, 5*time.Second)
	if r == nil || r.(*msg.NewProxyResp).Error != "" {
		bad("the legitimate session was disturbed by the refused attempts: it cannot register a second proxy (%+v)", r)
	}
	return viol, inconclusive
}

func main() {
	drv.E2Replayers["door"] = func(raw json.RawMessage) string {
		var d door
		json.Unmarshal(raw, &d)
		v, _ := run(d)
		return strings.Join(v, "; ")
	}
	c := drv.Setup("C04", "e2real", "model_checking", nil)
	if c == nil {
		return
	}
	c.Rule("real frps on loopback with tcp, kcp and quic listeners x door {tcp, kcp, quic, websocket} x tls.enable x tcpMux x every subset of the per-message scopes; a scripted peer connects through frp's own client connector and tries, in order: five logins that must be refused (key from another token, empty key, empty key + always_auth_pass, right key for another timestamp, the token itself), a work connection for an unknown session, the right login + a proxy (shows the door works), work connections for the live session with {no key, wrong key, shifted timestamp, right key} (refused and not pooled iff scope NewWorkConns), sessions whose heartbeats carry {no key, wrong key} (gone within 10 x heartbeatTimeout iff scope HeartBeats); after each step the server's session / proxy tables are read; at the end exactly the legitimate session and its proxy remain and it can register another proxy; non-trivial = distinct door")
	c.Assume("protocol wss is a client-side setting for a TLS-terminating front end; frps has no wss listener, so it is not a door here")
	c.Assume("kcp is used with stream multiplexing only: a bare kcp connection carries no close notification and loses the bytes written just before a close (a refused login's answer), so a scripted peer cannot tell a refusal from a slow server there; the messages take the same path in the server behind either layout")
	c.Assume("token method; the OIDC method and the ssh gateway are covered by parts e1 and e2ssh")
	var doors []door
	for _, p := range []string{"tcp", "kcp", "quic", "websocket"} {
		if o := os.Getenv("C04_ONLY"); o != "" && o != p {
			continue
		}
		for _, tls := range []bool{false, true} {
			if p == "quic" && !tls {
				continue // tls is inherent
			}
			for _, mux := range []bool{false, true} {
				if p == "quic" && !mux {
					continue // quic streams replace the multiplexer
				}
				if p == "kcp" && !mux {
					continue // see the assumption on bare kcp
				}
				for sc := 0; sc < 4; sc++ {
					if c.Quick() && (sc == 1 || sc == 2) && p != "tcp" {
						continue
					}
					doors = append(doors, door{Proto: p, TLS: tls, Mux: mux, HB: sc&1 != 0, WC: sc&2 != 0, Method: "token"})
				}
			}
		}
	}
	type out struct {
		v  []string
		in string
	}
	res := make([]out, len(doors))
	sem := make(chan struct{}, 12)
	done := make(chan int, len(doors))
	for i, d := range doors {
		go func(i int, d door) {
			sem <- struct{}{}
			v, in := run(d)
			<-sem
			res[i] = out{v, in}
			done <- i
		}(i, d)
	}
	for range doors {
		<-done
	}
	for i, d := range doors {
		key := fmt.Sprintf("door:%+v", d)
		c.Count(key)
		if res[i].in != "" {
			// judged again alone: a door that does not work at all would make the part blind
			v, in := run(d)
			res[i] = out{v, in}
			if in != "" {
				c.Cap("inconclusive: " + in)
			}
		}
		if len(res[i].v) > 0 {
			c.ViolateConfirmed("door", key+":"+clip(res[i].v[0]), strings.Join(res[i].v, "; "), d, 2)
		}
	}
	c.Sample(doors[0])
	c.Finish()
}

func clip(s string) string {
	if i := strings.Index(s, ": "); i >= 0 {
		s = s[i+2:]
	}
	if len(s) > 80 {
		s = s[:80]
	}
	return s
}
