// C17 — control-protocol codec: lossless, bounded, total and wire-stable.
// E2: exhaustive enumeration over per-field value alphabets, golden wire vectors written from the released
// protocol (not derived from the tree), and all frames of a header/length/body lattice through msg.ReadMsg.
package main

import (
	"bytes"
	"encoding/binary"
	"encoding/json"
	"fmt"
	"io"
	"math"
	"net"
	"reflect"
	"strings"

	"github.com/fatedier/frp/pkg/msg"
	"github.com/fatedier/frp/pkg/nathole"
	"github.com/fatedier/frp/pkg/proto/udp"

	"verif/mc/drv"
)

// ---- the released wire protocol, written down by hand ----

type golden struct {
	typ  byte
	val  msg.Message
	json string
}

func goldens() []golden {
	v4 := &net.UDPAddr{IP: net.IPv4(10, 1, 2, 3).To4(), Port: 5353}
	v6 := &net.UDPAddr{IP: net.ParseIP("fe80::1"), Port: 53, Zone: "eth0"}
	return []golden{
		{'o', &msg.Login{Version: "0.62.0", Hostname: "h", Os: "linux", Arch: "amd64", User: "u", PrivilegeKey: "k", Timestamp: 1700000000, RunID: "r", Metas: map[string]string{"a": "b"}, ClientSpec: msg.ClientSpec{Type: "ssh-tunnel", AlwaysAuthPass: true}, PoolCount: 3},
			`{"version":"0.62.0","hostname":"h","os":"linux","arch":"amd64","user":"u","privilege_key":"k","timestamp":1700000000,"run_id":"r","metas":{"a":"b"},"client_spec":{"type":"ssh-tunnel","always_auth_pass":true},"pool_count":3}`},
		{'1', &msg.LoginResp{Version: "0.62.0", RunID: "r", Error: "e"}, `{"version":"0.62.0","run_id":"r","error":"e"}`},
		{'p', &msg.NewProxy{ProxyName: "n", ProxyType: "http", UseEncryption: true, UseCompression: true, BandwidthLimit: "1MB", BandwidthLimitMode: "server", Group: "g", GroupKey: "gk",
			Metas: map[string]string{"m": "1"}, Annotations: map[string]string{"an": "2"}, RemotePort: 6000, CustomDomains: []string{"a.com"}, SubDomain: "s", Locations: []string{"/"},
			HTTPUser: "hu", HTTPPwd: "hp", HostHeaderRewrite: "hh", Headers: map[string]string{"x": "y"}, ResponseHeaders: map[string]string{"rx": "ry"}, RouteByHTTPUser: "ru",
			Sk: "sk", AllowUsers: []string{"*"}, Multiplexer: "httpconnect"},
			`{"proxy_name":"n","proxy_type":"http","use_encryption":true,"use_compression":true,"bandwidth_limit":"1MB","bandwidth_limit_mode":"server","group":"g","group_key":"gk","metas":{"m":"1"},"annotations":{"an":"2"},"remote_port":6000,"custom_domains":["a.com"],"subdomain":"s","locations":["/"],"http_user":"hu","http_pwd":"hp","host_header_rewrite":"hh","headers":{"x":"y"},"response_headers":{"rx":"ry"},"route_by_http_user":"ru","sk":"sk","allow_users":["*"],"multiplexer":"httpconnect"}`},
		{'2', &msg.NewProxyResp{ProxyName: "n", RemoteAddr: ":6000", Error: "e"}, `{"proxy_name":"n","remote_addr":":6000","error":"e"}`},
		{'c', &msg.CloseProxy{ProxyName: "n"}, `{"proxy_name":"n"}`},
		{'w', &msg.NewWorkConn{RunID: "r", PrivilegeKey: "k", Timestamp: 7}, `{"run_id":"r","privilege_key":"k","timestamp":7}`},
		{'r', &msg.ReqWorkConn{}, `{}`},
		{'s', &msg.StartWorkConn{ProxyName: "n", SrcAddr: "1.2.3.4", DstAddr: "5.6.7.8", SrcPort: 65535, DstPort: 80, Error: "e"}, `{"proxy_name":"n","src_addr":"1.2.3.4","dst_addr":"5.6.7.8","src_port":65535,"dst_port":80,"error":"e"}`},
		{'v', &msg.NewVisitorConn{RunID: "r", ProxyName: "n", SignKey: "s", Timestamp: 9, UseEncryption: true, UseCompression: true}, `{"run_id":"r","proxy_name":"n","sign_key":"s","timestamp":9,"use_encryption":true,"use_compression":true}`},
		{'3', &msg.NewVisitorConnResp{ProxyName: "n", Error: "e"}, `{"proxy_name":"n","error":"e"}`},
		{'h', &msg.Ping{PrivilegeKey: "k", Timestamp: 11}, `{"privilege_key":"k","timestamp":11}`},
		{'4', &msg.Pong{Error: "e"}, `{"error":"e"}`},
		{'u', &msg.UDPPacket{Content: "aGVsbG8=", LocalAddr: v4, RemoteAddr: v6}, `{"c":"aGVsbG8=","l":{"IP":"10.1.2.3","Port":5353,"Zone":""},"r":{"IP":"fe80::1","Port":53,"Zone":"eth0"}}`},
		{'i', &msg.NatHoleVisitor{TransactionID: "t", ProxyName: "n", PreCheck: true, Protocol: "quic", SignKey: "s", Timestamp: 5, MappedAddrs: []string{"1.1.1.1:1"}, AssistedAddrs: []string{"2.2.2.2:2"}},
			`{"transaction_id":"t","proxy_name":"n","pre_check":true,"protocol":"quic","sign_key":"s","timestamp":5,"mapped_addrs":["1.1.1.1:1"],"assisted_addrs":["2.2.2.2:2"]}`},
		{'n', &msg.NatHoleClient{TransactionID: "t", ProxyName: "n", Sid: "sid", MappedAddrs: []string{"1.1.1.1:1"}, AssistedAddrs: []string{"2.2.2.2:2"}},
			`{"transaction_id":"t","proxy_name":"n","sid":"sid","mapped_addrs":["1.1.1.1:1"],"assisted_addrs":["2.2.2.2:2"]}`},
		{'m', &msg.NatHoleResp{TransactionID: "t", Sid: "sid", Protocol: "kcp", CandidateAddrs: []string{"1.1.1.1:1"}, AssistedAddrs: []string{"2.2.2.2:2"},
			DetectBehavior: msg.NatHoleDetectBehavior{Role: "sender", Mode: 1, TTL: 7, SendDelayMs: 2000, ReadTimeoutMs: 5000, CandidatePorts: []msg.PortsRange{{From: 1, To: 2}}, SendRandomPorts: 3, ListenRandomPorts: 4}, Error: "e"},
			`{"transaction_id":"t","sid":"sid","protocol":"kcp","candidate_addrs":["1.1.1.1:1"],"assisted_addrs":["2.2.2.2:2"],"detect_behavior":{"role":"sender","mode":1,"ttl":7,"send_delay_ms":2000,"read_timeout":5000,"candidate_ports":[{"from":1,"to":2}],"send_random_ports":3,"listen_random_ports":4},"error":"e"}`},
		{'5', &msg.NatHoleSid{TransactionID: "t", Sid: "sid", Response: true, Nonce: "000"}, `{"transaction_id":"t","sid":"sid","response":true,"nonce":"000"}`},
		{'6', &msg.NatHoleReport{Sid: "sid", Success: true}, `{"sid":"sid","success":true}`},
	}
}

func frame(typ byte, body []byte) []byte {
	b := make([]byte, 9+len(body))
	b[0] = typ
	binary.BigEndian.PutUint64(b[1:9], uint64(len(body)))
	copy(b[9:], body)
	return b
}

// counting reader: how many bytes were requested from the stream and the largest single read
type cr struct {
	r       *bytes.Reader
	n       int
	maxRead int
}

func (c *cr) Read(p []byte) (int, error) {
	if len(p) > c.maxRead {
		c.maxRead = len(p)
	}
	n, err := c.r.Read(p)
	c.n += n
	return n, err
}

func safeRead(data []byte) (m msg.Message, consumed, maxRead int, err error, panicked any) {
	r := &cr{r: bytes.NewReader(data)}
	defer func() {
		if p := recover(); p != nil {
			panicked = p
		}
		consumed, maxRead = r.n, r.maxRead
	}()
	m, err = msg.ReadMsg(r)
	return
}

// ---- value alphabets ----

var strAlphabet = []string{"", "a", strings.Repeat("x", 9000), "héllo wörld ☃", "quote\"back\\slash", "line sep ", "\x00ctl\x1f", "<script>&amp;"}

func alphabet(t reflect.Type) []reflect.Value {
	var out []reflect.Value
	add := func(v any) { out = append(out, reflect.ValueOf(v).Convert(t)) }
	switch t.Kind() {
	case reflect.String:
		for _, s := range strAlphabet {
			add(s)
		}
	case reflect.Int64:
		for _, v := range []int64{0, 1, -1, math.MaxInt64, math.MinInt64, 1700000000} {
			add(v)
		}
	case reflect.Int:
		for _, v := range []int{0, 1, -1, math.MaxInt64, math.MinInt64, 65535} {
			add(v)
		}
	case reflect.Uint16:
		for _, v := range []uint16{0, 1, 65535} {
			add(v)
		}
	case reflect.Bool:
		add(false)
		add(true)
	case reflect.Map:
		out = append(out, reflect.Zero(t))
		out = append(out, reflect.MakeMap(t))
		m1 := reflect.MakeMap(t)
		m1.SetMapIndex(reflect.ValueOf("k"), reflect.ValueOf("v"))
		out = append(out, m1)
		m3 := reflect.MakeMap(t)
		for _, k := range []string{"", "ключ", "k\"3"} {
			m3.SetMapIndex(reflect.ValueOf(k), reflect.ValueOf(strAlphabet[4]))
		}
		out = append(out, m3)
	case reflect.Slice:
		out = append(out, reflect.Zero(t))
		out = append(out, reflect.MakeSlice(t, 0, 0))
		el := alphabet(t.Elem())
		one := reflect.MakeSlice(t, 0, 1)
		one = reflect.Append(one, el[1%len(el)])
		out = append(out, one)
		many := reflect.MakeSlice(t, 0, 40)
		for i := 0; i < 40; i++ {
			many = reflect.Append(many, el[i%len(el)])
		}
		out = append(out, many)
	case reflect.Pointer: // *net.UDPAddr
		out = append(out, reflect.Zero(t))
		out = append(out, reflect.ValueOf(&net.UDPAddr{}))
		out = append(out, reflect.ValueOf(&net.UDPAddr{IP: net.IPv4(1, 2, 3, 4).To4(), Port: 65535}))
		out = append(out, reflect.ValueOf(&net.UDPAddr{IP: net.ParseIP("2001:db8::1"), Port: 1, Zone: "eth0"}))
	case reflect.Struct:
		// nested struct: baseline, each single-field deviation
		base := reflect.New(t).Elem()
		out = append(out, base)
		for i := 0; i < t.NumField(); i++ {
			for _, v := range alphabet(t.Field(i).Type) {
				s := reflect.New(t).Elem()
				s.Field(i).Set(v)
				out = append(out, s)
			}
		}
	}
	return out
}

// normalize maps empty maps/slices to nil: `omitempty` identifies them on the wire (documented).
func normalize(v reflect.Value) {
	switch v.Kind() {
	case reflect.Pointer:
		if !v.IsNil() {
			normalize(v.Elem())
		}
	case reflect.Struct:
		for i := 0; i < v.NumField(); i++ {
			normalize(v.Field(i))
		}
	case reflect.Map, reflect.Slice:
		if v.Len() == 0 && v.CanSet() {
			v.Set(reflect.Zero(v.Type()))
		} else if v.Kind() == reflect.Slice {
			for i := 0; i < v.Len(); i++ {
				normalize(v.Index(i))
			}
		}
	}
	if v.Kind() == reflect.Slice && v.Type() == reflect.TypeOf(net.IP{}) && v.Len() == 16 && v.CanSet() {
		if ip4 := net.IP(v.Bytes()).To4(); ip4 != nil {
			v.SetBytes(ip4)
		}
	}
}

type rtCase struct {
	Type  string `json:"type"`
	Field string `json:"field"`
	Alt   int    `json:"alt"`
}

func roundTrip(m msg.Message) string {
	var buf bytes.Buffer
	if err := msg.WriteMsg(&buf, m); err != nil {
		if len(fmt.Sprint(m)) > 9000 { // a 9000-char field times many can exceed the 10 KiB frame bound: refusing is legal
			return ""
		}
		return "encode error: " + err.Error()
	}
	raw := buf.Bytes()
	if len(raw) < 9 || int(binary.BigEndian.Uint64(raw[1:9])) != len(raw)-9 {
		return "frame header does not carry the body length"
	}
	if len(raw)-9 > 10240 {
		// outside the bounded protocol: such a frame must be refused by the decoder before its body is read
		return checkFrame(raw, -2)
	}
	got, consumed, _, err, p := safeRead(append(append([]byte{}, raw...), 0xAA, 0xBB))
	if p != nil {
		return fmt.Sprintf("decoder panicked: %v", p)
	}
	if err != nil {
		return "decode error: " + err.Error()
	}
	if consumed != len(raw) {
		return fmt.Sprintf("decoder consumed %d bytes of a %d-byte frame", consumed, len(raw))
	}
	if reflect.TypeOf(got) != reflect.TypeOf(m) {
		return fmt.Sprintf("decoded %T, encoded %T", got, m)
	}
	a, b := reflect.New(reflect.TypeOf(m).Elem()), reflect.New(reflect.TypeOf(m).Elem())
	a.Elem().Set(reflect.ValueOf(m).Elem())
	b.Elem().Set(reflect.ValueOf(got).Elem())
	normalize(a)
	normalize(b)
	if !reflect.DeepEqual(a.Interface(), b.Interface()) {
		ja, _ := json.Marshal(a.Interface())
		jb, _ := json.Marshal(b.Interface())
		return fmt.Sprintf("decode(encode(m)) != m: %.200s vs %.200s", ja, jb)
	}
	return ""
}

func buildCase(g golden, field string, alt int) msg.Message {
	t := reflect.TypeOf(g.val).Elem()
	v := reflect.New(t)
	v.Elem().Set(reflect.ValueOf(g.val).Elem())
	if field == "*extreme*" {
		for i := 0; i < t.NumField(); i++ {
			al := alphabet(t.Field(i).Type)
			v.Elem().Field(i).Set(al[(alt+i)%len(al)])
		}
		return v.Interface()
	}
	if field != "" {
		f, _ := t.FieldByName(field)
		al := alphabet(f.Type)
		v.Elem().FieldByName(field).Set(al[alt%len(al)])
	}
	return v.Interface()
}

func main() {
	gs := goldens()
	byName := map[string]golden{}
	for _, g := range gs {
		byName[reflect.TypeOf(g.val).Elem().Name()] = g
	}
	drv.E2Replayers["roundtrip"] = func(raw json.RawMessage) string {
		var c rtCase
		json.Unmarshal(raw, &c)
		return roundTrip(buildCase(byName[c.Type], c.Field, c.Alt))
	}
	drv.E2Replayers["frame"] = func(raw json.RawMessage) string {
		var b []byte
		json.Unmarshal(raw, &b)
		return checkFrame(b, -2)
	}
	c := drv.Setup("C17", "e2", "exploration", nil)
	if c == nil {
		return
	}
	c.Rule("exhaustive: (1) golden wire vectors for the 18 message types written by hand from the released protocol; (2) round trip of every single-field deviation over per-kind alphabets (and rotating all-extreme combinations) for every type; (3) every byte string of length <= 2, and every frame of type byte 0..255 x 12 declared lengths x 9 body shapes through msg.ReadMsg behind a counting reader; non-trivial = distinct (type, field, value) or distinct frame")

	// (1b) the datagram payload inside UDPPacket is standard, padded base64 in the released protocol
	for _, gv := range []struct{ raw, enc string }{{"", ""}, {"h", "aA=="}, {"hi", "aGk="}, {"hi!", "aGkh"}, {"\x00\xff\xfe\xfd", "AP/+/Q=="}, {"12345", "MTIzNDU="}} {
		c.Count("golden:udp-payload:" + gv.enc)
		pk := udp.NewUDPPacket([]byte(gv.raw), nil, &net.UDPAddr{IP: net.IPv4(1, 2, 3, 4), Port: 5})
		if pk.Content != gv.enc {
			c.Violate("golden", "golden:udp-payload:encode", fmt.Sprintf("UDPPacket payload %q is encoded as %q, the released protocol has %q", gv.raw, pk.Content, gv.enc), gv.raw)
		}
		if got, err := udp.GetContent(&msg.UDPPacket{Content: gv.enc}); err != nil || string(got) != gv.raw {
			c.Violate("golden", "golden:udp-payload:decode", fmt.Sprintf("UDPPacket payload %q of the released protocol decodes to %q err=%v", gv.enc, got, err), gv.enc)
		}
	}
	// (1c) the size bound is on the JSON body: every body of up to 10240 bytes encodes and decodes, 10241 is refused
	for pad := 10100; pad <= 10260; pad++ {
		m := &msg.Login{User: strings.Repeat("u", pad)}
		body, _ := json.Marshal(m)
		if len(body) < 10225 || len(body) > 10243 {
			continue
		}
		c.Count(fmt.Sprintf("boundary:%d", len(body)))
		var buf bytes.Buffer
		err := msg.WriteMsg(&buf, m)
		if len(body) <= 10240 {
			if err != nil {
				c.Violate("roundtrip", "boundary:encode", fmt.Sprintf("a message whose JSON body has %d bytes (<= 10240, accepted by every decoder) cannot be encoded: %v", len(body), err), len(body))
				continue
			}
			got, _, _, derr, p := safeRead(buf.Bytes())
			if p != nil || derr != nil {
				c.Violate("roundtrip", "boundary:decode", fmt.Sprintf("a message whose JSON body has %d bytes does not decode: err=%v panic=%v", len(body), derr, p), len(body))
			} else if l, ok := got.(*msg.Login); !ok || l.User != m.User {
				c.Violate("roundtrip", "boundary:value", fmt.Sprintf("a message whose JSON body has %d bytes decodes to a different value", len(body)), len(body))
			}
		} else if err == nil {
			if _, _, _, derr, _ := safeRead(buf.Bytes()); derr == nil {
				c.Violate("bound", "boundary:oversize", fmt.Sprintf("a frame with a %d-byte body was decoded, the bound is 10240", len(body)), len(body))
			}
		}
	}
	// (1) wire stability
	seenTypes := map[byte]bool{}
	for _, g := range gs {
		name := reflect.TypeOf(g.val).Elem().Name()
		var buf bytes.Buffer
		if err := msg.WriteMsg(&buf, g.val); err != nil {
			c.Violate("golden", "golden:"+name+":encode", fmt.Sprintf("%s: encode error %v", name, err), name)
			continue
		}
		want := frame(g.typ, []byte(g.json))
		c.Count("golden:" + name)
		if !bytes.Equal(buf.Bytes(), want) {
			c.Violate("golden", "golden:"+name+":wire", fmt.Sprintf("%s: encoding differs from the released wire format:\n got  %q\n want %q", name, buf.Bytes(), want), name)
		}
		m, _, _, err, p := safeRead(want)
		if p != nil || err != nil || reflect.TypeOf(m) != reflect.TypeOf(g.val) {
			c.Violate("golden", "golden:"+name+":decode", fmt.Sprintf("%s: a frame of the released protocol decodes to %T err=%v panic=%v", name, m, err, p), name)
		} else {
			a, b := reflect.New(reflect.TypeOf(m).Elem()), reflect.New(reflect.TypeOf(m).Elem())
			a.Elem().Set(reflect.ValueOf(m).Elem())
			b.Elem().Set(reflect.ValueOf(g.val).Elem())
			normalize(a)
			normalize(b)
			if !reflect.DeepEqual(a.Interface(), b.Interface()) {
				c.Violate("golden", "golden:"+name+":decodeval", fmt.Sprintf("%s: released frame decodes to a different value", name), name)
			}
		}
		seenTypes[g.typ] = true
	}
	// the registry is a bijection over exactly these 18 type bytes
	for b := 0; b < 256; b++ {
		m, _, _, err, p := safeRead(frame(byte(b), []byte("{}")))
		c.Count(fmt.Sprintf("typebyte:%d", b))
		if p != nil {
			c.Violate("frame", fmt.Sprintf("typebyte:%d:panic", b), fmt.Sprintf("type byte %d: panic %v", b, p), frame(byte(b), []byte("{}")))
		}
		if seenTypes[byte(b)] != (err == nil && m != nil) {
			c.Violate("frame", fmt.Sprintf("typebyte:%d", b), fmt.Sprintf("type byte %d (%q): registered in the released protocol=%v, decoder accepted=%v (%v)", b, rune(b), seenTypes[byte(b)], err == nil, err), frame(byte(b), []byte("{}")))
		}
	}

	// (2) round trip
	nrt := 0
	for _, g := range gs {
		t := reflect.TypeOf(g.val).Elem()
		name := t.Name()
		check := func(field string, alt int) {
			nrt++
			c.Count(fmt.Sprintf("rt:%s.%s#%d", name, field, alt))
			if e := roundTrip(buildCase(g, field, alt)); e != "" {
				c.Violate("roundtrip", fmt.Sprintf("rt:%s.%s#%d", name, field, alt), fmt.Sprintf("%s field %s alternative %d: %s", name, field, alt, e), rtCase{name, field, alt})
			}
		}
		check("", 0)
		for i := 0; i < t.NumField(); i++ {
			for a := range alphabet(t.Field(i).Type) {
				check(t.Field(i).Name, a)
			}
		}
		for a := 0; a < 8; a++ {
			check("*extreme*", a)
		}
	}
	c.Sample(rtCase{"NewProxy", "Metas", 3})

	// (3) totality and boundedness
	nfr := 0
	for a := 0; a < 256; a++ {
		checkAndReport(c, []byte{byte(a)}, &nfr)
		for b := 0; b < 256; b++ {
			checkAndReport(c, []byte{byte(a), byte(b)}, &nfr)
		}
	}
	checkAndReport(c, nil, &nfr)
	validBody := []byte(`{"proxy_name":"n","error":"e"}`)
	nested := []byte(strings.Repeat(`{"a":`, 3000) + "1" + strings.Repeat("}", 3000))
	for typ := 0; typ < 256; typ++ {
		for _, l := range []int64{math.MinInt64, -1, 0, 1, int64(len(validBody)) - 1, int64(len(validBody)), int64(len(validBody)) + 1, 10239, 10240, 10241, 1 << 40, math.MaxInt64} {
			bodies := [][]byte{validBody, validBody[:len(validBody)/2], []byte("null"), []byte(`{"proxy_name":5}`), []byte(`[1,2]`), []byte(`{"proxy_name":"\ud800"}`), nested[:10200], {}, bytes.Repeat([]byte{0xff}, 300)}
			for _, body := range bodies {
				b := make([]byte, 9, 9+len(body)+2)
				b[0] = byte(typ)
				binary.BigEndian.PutUint64(b[1:9], uint64(l))
				b = append(append(b, body...), 0xCC, 0xDD)
				nfr++
				c.Count(fmt.Sprintf("frame:%d:%d:%d", typ, l, len(body)))
				if e := checkFrame(b, l); e != "" {
					c.Violate("frame", fmt.Sprintf("frame:%d:%d:%.20q", typ, l, body), fmt.Sprintf("type %d declared length %d body %.30q: %s", typ, l, body, e), b)
				}
			}
		}
	}
	// the datagram form of the codec (hole punching): a frame encrypted with the proxy's key. Round trip, and totality
	// over every length 0..64 of four fillings, every truncation of a valid datagram and every single-byte corruption.
	{
		key := []byte("datagram-key")
		sid := &msg.NatHoleSid{TransactionID: "t-1", Sid: "sid-1", Response: true, Nonce: "nonce"}
		enc, err := nathole.EncodeMessage(sid, key)
		if err != nil {
			c.Violate("datagram", "datagram:encode", "a NatHoleSid message cannot be encoded as a datagram: "+err.Error(), nil)
		} else {
			var back msg.NatHoleSid
			if err := nathole.DecodeMessageInto(enc, key, &back); err != nil || !reflect.DeepEqual(&back, sid) {
				c.Violate("datagram", "datagram:roundtrip", fmt.Sprintf("datagram round trip: %+v -> %+v (err %v)", sid, back, err), nil)
			}
			// successive datagrams of one process: every encoding stands alone, whatever was encoded before it (longer,
			// shorter, another key) — the k-th use after k-1 earlier ones
			var seq []*msg.NatHoleSid
			for i, n := range []int{1, 40, 3, 0, 200, 7, 7, 90, 2, 1} {
				seq = append(seq, &msg.NatHoleSid{TransactionID: fmt.Sprintf("t-%d", i), Sid: strings.Repeat("s", n), Response: i%2 == 1, Nonce: strings.Repeat("n", (i*13)%50)})
			}
			keys := [][]byte{key, []byte("k2"), key}
			for i, m := range seq {
				k := keys[i%len(keys)]
				c.Count(fmt.Sprintf("datagram-seq:%d", i))
				e, err := nathole.EncodeMessage(m, k)
				var b msg.NatHoleSid
				if err == nil {
					err = nathole.DecodeMessageInto(e, k, &b)
				}
				if err != nil || !reflect.DeepEqual(&b, m) {
					c.Violate("datagram", fmt.Sprintf("datagram:sequence:%d", i), fmt.Sprintf("datagram %d of a sequence encoded by one process: sent %+v, the decoder yields %+v (err %v)", i+1, *m, b, err), nil)
					break
				}
			}
			var inputs [][]byte
			for l := 0; l <= 64; l++ {
				z := make([]byte, l)
				f := bytes.Repeat([]byte{0xff}, l)
				inc := make([]byte, l)
				for i := range inc {
					inc[i] = byte(i*37 + 11)
				}
				inputs = append(inputs, z, f, inc)
			}
			for l := 0; l <= len(enc); l++ {
				inputs = append(inputs, append([]byte{}, enc[:l]...))
			}
			for i := range enc {
				x := append([]byte{}, enc...)
				x[i] ^= 0x5a
				inputs = append(inputs, x)
			}
			for _, in := range inputs {
				c.Count(fmt.Sprintf("datagram:%d:%x", len(in), in))
				func() {
					defer func() {
						if r := recover(); r != nil {
							c.Violate("datagram", fmt.Sprintf("datagram:panic:%d", len(in)), fmt.Sprintf("decoding a %d-byte datagram (%x) panics: %v", len(in), in, r), in)
						}
					}()
					var m msg.NatHoleSid
					_ = nathole.DecodeMessageInto(in, key, &m)
					_ = nathole.DecodeMessageInto(in, []byte("another-key"), &m)
				}()
			}
		}
	}
	c.Sample(map[string]any{"frame": "type 'p' length 10241 body valid", "expect": "error before any body byte is read"})
	c.Note("roundtrip_cases", nrt)
	c.Note("frames", nfr)
	c.Finish()
}

func checkAndReport(c *drv.Ctx, b []byte, n *int) {
	*n++
	c.Count(fmt.Sprintf("short:%x", b))
	if e := checkFrame(b, -2); e != "" {
		c.Violate("frame", fmt.Sprintf("short:%x", b), fmt.Sprintf("input %x: %s", b, e), b)
	}
}

// checkFrame feeds b to the decoder; declared is the length field (-2: unknown / not a full header).
func checkFrame(b []byte, declared int64) string {
	m, consumed, maxRead, err, p := safeRead(b)
	if p != nil {
		return fmt.Sprintf("decoder panicked: %v", p)
	}
	if err == nil && (m == nil || reflect.ValueOf(m).IsNil()) {
		return "decoder returned neither a message nor an error"
	}
	if maxRead > 10240 {
		return fmt.Sprintf("decoder asked for a %d-byte read: allocation above the 10 KiB bound", maxRead)
	}
	if len(b) >= 9 {
		declared = int64(binary.BigEndian.Uint64(b[1:9]))
		if declared < 0 || declared > 10240 {
			if err == nil {
				return fmt.Sprintf("declared length %d accepted", declared)
			}
			if consumed > 9 {
				return fmt.Sprintf("declared length %d: decoder read %d bytes, i.e. into the body, before refusing", declared, consumed)
			}
		}
		if err == nil && int64(consumed) != 9+declared {
			return fmt.Sprintf("success but consumed %d bytes, frame is %d", consumed, 9+declared)
		}
		if declared >= 0 && declared <= 10240 && int64(consumed) > 9+declared {
			return fmt.Sprintf("decoder read %d bytes, past the end of the %d-byte frame", consumed, 9+declared)
		}
	}
	_ = io.EOF
	return ""
}
