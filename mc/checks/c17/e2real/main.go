// C17 part e2real — "a peer that sends an unexpected or malformed first message is disconnected" on both connection
// layouts: plain connections and streams of the multiplexer (tcpMux, the default). Real frps on loopback, a raw peer.
package main

import (
	"encoding/binary"
	"encoding/json"
	"fmt"
	"io"
	"net"
	"time"

	"github.com/hashicorp/yamux"
	"github.com/samber/lo"

	v1 "github.com/fatedier/frp/pkg/config/v1"

	"verif/mc/drv"
	"verif/mc/peek"
	_ "verif/mc/quiet"
	rw "verif/mc/worlds/realworld"
)

type fcase struct {
	Mux   bool   `json:"tcpMux"`
	Shape string `json:"first_bytes"`
}

func frameOf(typ byte, n int64, body []byte) []byte {
	b := make([]byte, 9)
	b[0] = typ
	binary.BigEndian.PutUint64(b[1:], uint64(n))
	return append(b, body...)
}

var shapes = map[string][]byte{
	"truncated-frame": frameOf('o', 100, []byte(`{"version":"0.6`)), // 100 bytes announced, 15 sent, then silence
	"header-only":     frameOf('o', 50, nil),
	"half-header":     {'o', 0, 0, 0},
	"nothing":         nil,
	"unknown-type":    frameOf('~', 2, []byte("{}")),
	"oversize":        frameOf('o', 1<<20, []byte("{}")),
	"unexpected-ping": frameOf('h', 2, []byte("{}")),
	"malformed-json":  frameOf('o', 9, []byte("{\"version")),
	"wrongly-typed":   frameOf('o', 18, []byte(`{"version":[1,2,3]}`)[:18]),
}

func run(fc fcase) (viol, inconclusive string) {
	srv, err := rw.StartServer(func(s *v1.ServerConfig) { s.Transport.TCPMux = lo.ToPtr(fc.Mux) })
	if err != nil {
		return "", "server: " + err.Error()
	}
	defer srv.Close()
	raw, err := net.DialTimeout("tcp", fmt.Sprintf("127.0.0.1:%d", srv.Cfg.BindPort), 2*time.Second)
	if err != nil {
		return "", "dial: " + err.Error()
	}
	defer raw.Close()
	var conn io.ReadWriteCloser = raw
	setDL := raw.SetReadDeadline
	if fc.Mux {
		cfg := yamux.DefaultConfig()
		cfg.LogOutput = io.Discard
		sess, err := yamux.Client(raw, cfg)
		if err != nil {
			return "", "yamux: " + err.Error()
		}
		defer sess.Close()
		st, err := sess.OpenStream()
		if err != nil {
			return "", "yamux stream: " + err.Error()
		}
		conn, setDL = st, st.SetReadDeadline
	}
	if b := shapes[fc.Shape]; len(b) > 0 {
		if _, err := conn.Write(b); err != nil {
			return "", "write: " + err.Error()
		}
	}
	// the server reads the first message with a 10 s limit; judged with a wide margin
	_ = setDL(time.Now().Add(40 * time.Second))
	t0 := time.Now()
	buf := make([]byte, 256)
	for {
		n, err := conn.Read(buf)
		if err != nil {
			if ne, ok := err.(net.Error); ok && ne.Timeout() {
				return fmt.Sprintf("tcpMux=%v, first bytes %q: the peer is still connected 40 s later", fc.Mux, fc.Shape), ""
			}
			break // closed by the server
		}
		_ = n // an error answer before the close is fine
	}
	if peek.F(srv.Svc, "ctlManager.ctlsByRunID").Len() != 0 {
		return fmt.Sprintf("tcpMux=%v, first bytes %q: a session exists", fc.Mux, fc.Shape), ""
	}
	_ = t0
	return "", ""
}

func main() {
	drv.E2Replayers["first"] = func(raw json.RawMessage) string {
		var fc fcase
		json.Unmarshal(raw, &fc)
		v, _ := run(fc)
		return v
	}
	c := drv.Setup("C17", "e2real", "exploration", nil)
	if c == nil {
		return
	}
	c.Rule("real frps on loopback x {plain connection, stream of the multiplexer} x 9 first-byte shapes (truncated frame, header only, half a header, nothing at all, unknown type, oversize length, a registered but unexpected type, malformed JSON, wrongly typed field): the connection / stream is closed by the server (judged 40 s after the bytes; the server's limit is 10 s) and no session exists; non-trivial = distinct case")
	var cases []fcase
	for _, mux := range []bool{false, true} {
		for sh := range shapes {
			cases = append(cases, fcase{mux, sh})
		}
	}
	type out struct{ v, in string }
	res := make([]out, len(cases))
	done := make(chan int, len(cases))
	for i, fc := range cases {
		go func(i int, fc fcase) { v, in := run(fc); res[i] = out{v, in}; done <- i }(i, fc)
	}
	for range cases {
		<-done
	}
	for i, fc := range cases {
		c.Count(fmt.Sprintf("first:%v:%s", fc.Mux, fc.Shape))
		if res[i].in != "" {
			c.Cap("inconclusive: " + res[i].in)
		}
		if res[i].v != "" {
			c.ViolateConfirmed("first", fmt.Sprintf("first:%v:%s", fc.Mux, fc.Shape), res[i].v, fc, 1)
		}
	}
	c.Sample(cases[0])
	c.Finish()
}
