// C17 (part e1live) — a peer that sends an unexpected or malformed first message is disconnected
// without affecting other sessions: real frps on the virtual network.
package main

import (
	"bytes"
	"io"
	"encoding/binary"
	"fmt"
	"strings"
	"time"

	v1 "github.com/fatedier/frp/pkg/config/v1"
	"github.com/fatedier/frp/pkg/msg"
	netpkg "github.com/fatedier/frp/pkg/util/net"
	"github.com/fatedier/frp/pkg/util/util"

	"verif/mc/drv"
	"verif/mc/vs"
	cw "verif/mc/worlds/cliworld"
	sw "verif/mc/worlds/srvworld"
)

func fr(typ byte, length int64, body string) []byte {
	b := make([]byte, 9)
	b[0] = typ
	binary.BigEndian.PutUint64(b[1:9], uint64(length))
	return append(b, body...)
}

var firsts = map[string][]byte{
	"unknown-type":      fr('Z', 2, "{}"),
	"negative-length":   fr('o', -1, "{}"),
	"oversized-length":  fr('o', 10241, strings.Repeat("x", 64)),
	"huge-length":       fr('o', 1<<62, ""),
	"malformed-json":    fr('o', 12, `{"version":1`),
	"wrong-json-type":   fr('o', 15, `{"pool_count":"x"}`[:15]),
	"pong-first":        fr('4', 2, "{}"),
	"loginresp-first":   fr('1', 2, "{}"),
	"udppacket-first":   fr('u', 2, "{}"),
	"truncated-frame":   fr('o', 200, `{"version":"0.62.0"`),
	"http-request":      []byte("GET / HTTP/1.1\r\nHost: example.com\r\n\r\n"),
	"tls-client-hello":  {0x16, 0x03, 0x01, 0x00, 0x05, 0x01, 0x00, 0x00, 0x01, 0x00, 0x00, 0x00},
	"frp-tls-head-byte": {0x17, 0x00, 0x00, 0x00, 0x00, 0x00, 0x00, 0x00, 0x00, 0x00, 0x00, 0x00},
	"zeros":             make([]byte, 64),
}

func scFirst(name string) func(x *vs.Exec) {
	return func(x *vs.Exec) {
		defer sw.Guard()
		w := sw.New(x, sw.Opt{AllowPorts: sw.P(20000, 20001), UserConnTimeout: 5, HeartbeatTimeout: -1})
		by := w.MustLogin("by", sw.LoginOpt{})
		if r := by.Reg(&msg.NewProxy{ProxyName: "t", ProxyType: "tcp", RemotePort: 20000}); r != "ok:20000" {
			vs.Fail("setup: %s", r)
			return
		}
		w.Quiesce()
		before := w.Dump()
		vs.SetInterest(true)
		c, err := w.Dial()
		if err != nil {
			vs.Fail("dial: %v", err)
			return
		}
		c.Write(firsts[name])
		w.Quiesce()
		time.Sleep(25 * time.Second) // beyond the 10 s read timeouts of the multiplexer and of the first-message read
		w.Quiesce()
		vs.SetInterest(false)
		if !c.PeerClosed() {
			vs.Fail("first bytes %q: the connection was not closed by the server", name)
		}
		c.Close()
		w.Quiesce()
		if d := w.Dump(); d != before {
			vs.Fail("first bytes %q changed the server state:\n%s", name, d)
		}
		by.SendPing(nil)
		if r := by.Await(&msg.Pong{}, nil); r == nil {
			vs.Fail("first bytes %q: the other session no longer answers heartbeats", name)
		}
		if who, e := w.UserEcho("10.5.5.5:5", 20000, "still"); e != "" || who != "by/t" {
			vs.Fail("first bytes %q: the other session's proxy no longer serves (who=%q err=%s)", name, who, e)
		}
		w.Teardown()
	}
}

// pipe: a peer whose first message is followed at once — in the same segment — by the bytes that belong to the rest of
// the connection. The server must take exactly the frame ("without reading past the frame") and hand the rest on:
//   visitor : NewVisitorConn + payload          -> the payload reaches the proxy owner and comes back
//   work    : NewWorkConn + early backend bytes -> the user that is given this work connection receives them
func scPipe(kind string) func(x *vs.Exec) {
	return func(x *vs.Exec) {
		defer sw.Guard()
		w := sw.New(x, sw.Opt{AllowPorts: sw.P(20000, 20001), UserConnTimeout: 5, HeartbeatTimeout: -1})
		owner := w.MustLogin("owner", sw.LoginOpt{User: "u1"})
		switch kind {
		case "visitor":
			owner.AutoWork()
			if r := owner.Reg(&msg.NewProxy{ProxyName: "s", ProxyType: "stcp", Sk: "sk1", AllowUsers: []string{"*"}}); !strings.HasPrefix(r, "ok") {
				vs.Fail("setup: %s", r)
				return
			}
			w.Quiesce()
			c, err := w.H.DialFrom("10.6.0.1:900", "127.0.0.1:7000")
			if err != nil {
				vs.Fail("dial: %v", err)
				return
			}
			ts := w.Now()
			var buf bytes.Buffer
			msg.WriteMsg(&buf, &msg.NewVisitorConn{ProxyName: "s", Timestamp: ts, SignKey: util.GetAuthKey("sk1", ts)})
			payload := "PIPELINED-right-behind-the-first-frame"
			buf.WriteString(payload)
			c.Write(buf.Bytes()) // one segment
			var resp msg.NewVisitorConnResp
			done := false
			var rerr error
			go func() { rerr = msg.ReadMsgInto(c, &resp); done = true }()
			if !vs.BlockOrIdle("resp|idle", func() bool { return done }) || rerr != nil || resp.Error != "" {
				vs.Fail("pipelined visitor: no acceptance (err=%v resp=%q)", rerr, resp.Error)
				return
			}
			back := make([]byte, len(payload))
			if _, idle, err := c.ReadFullOrIdle(back); idle || err != nil || string(back) != payload {
				vs.Fail("visitor bytes sent in the same segment as the NewVisitorConn frame did not travel through the stream: got %q (idle=%v err=%v); the server read past the first frame", back, idle, err)
			}
			c.Close()
		case "work":
			if r := owner.Reg(&msg.NewProxy{ProxyName: "t", ProxyType: "tcp", RemotePort: 20000}); r != "ok:20000" {
				vs.Fail("setup: %s", r)
				return
			}
			w.Quiesce()
			early := "EARLY-bytes-of-the-backend"
			owner.OnReq = func(p *sw.Peer) {
				go func() {
					c, err := w.Dial()
					if err != nil {
						return
					}
					var buf bytes.Buffer
					msg.WriteMsg(&buf, &msg.NewWorkConn{RunID: p.RunID})
					buf.WriteString(early)
					c.Write(buf.Bytes()) // one segment
					p.ServeWorkOn(c)
				}()
			}
			u, err := w.H.DialFrom("10.6.0.2:901", "127.0.0.1:20000")
			if err != nil {
				vs.Fail("dial: %v", err)
				return
			}
			got := make([]byte, len(early))
			if _, idle, err := u.ReadFullOrIdle(got); idle || err != nil || string(got) != early {
				vs.Fail("bytes sent in the same segment as the NewWorkConn frame did not reach the user served by that work connection: got %q (idle=%v err=%v); the server read past the first frame", got, idle, err)
			}
			u.Close()
		}
		w.Teardown()
	}
}

// pipe/client: the same on the client's side — the server writes the StartWorkConn frame and the first bytes of the
// user's stream back to back; the real frpc must hand exactly the rest to the backend.
func scPipeClient(x *vs.Exec) {
	w := cw.New(x, cw.Opt{HeartbeatInterval: -1, NoPoolRequests: true, Proxies: []v1.ProxyConfigurer{cw.TCPProxy("a", 8000, 9000)}})
	be := w.StartBackend(8000)
	_ = be
	for i := 0; i < 60; i++ { // (a Block predicate must not take locks: poll on the virtual clock instead)
		if st, ok := w.Svc.StatusExporter().GetProxyStatus("a"); ok && st.Phase == "running" {
			break
		}
		time.Sleep(500 * time.Millisecond)
	}
	se := w.Srv.LiveSession()
	if se == nil {
		vs.Fail("pipe/client: no live session")
		return
	}
	n0 := len(se.Work)
	w.Srv.SendTo(se, &msg.ReqWorkConn{})
	if !vs.BlockFor("work-conn", 20*time.Second, func() bool { return len(se.Work) > n0 }) {
		vs.Fail("pipe/client: the client did not open the work connection it was asked for")
		return
	}
	wc := se.Work[n0]
	var buf bytes.Buffer
	msg.WriteMsg(&buf, &msg.StartWorkConn{ProxyName: "a", SrcAddr: "10.1.1.1", SrcPort: 5555, DstAddr: "127.0.0.1", DstPort: 9000})
	payload := "FIRST-bytes-of-the-user-right-behind-the-frame"
	buf.WriteString(payload)
	wc.Write(buf.Bytes()) // one segment
	if !vs.BlockFor("echo", 20*time.Second, func() bool { return wc.Pending() >= len(payload) || wc.PeerClosed() }) || wc.Pending() < len(payload) {
		vs.Fail("user bytes sent in the same segment as the StartWorkConn frame did not reach the backend and come back (pending %d of %d, closed=%v): the client read past the frame", wc.Pending(), len(payload), wc.PeerClosed())
	} else {
		got := make([]byte, len(payload))
		wc.Read(got)
		if string(got) != payload {
			vs.Fail("user bytes behind the StartWorkConn frame came back altered: %q", got)
		}
	}
	wc.Close()
	w.Svc.Close()
}

// loginorder: the reply to a login is a plain LoginResp frame, and only then does the encrypted message stream start
// (with the server's requests for pooled work connections): under every schedule of the server's goroutines the
// client must be able to read them in that order — builds of the same protocol version interoperate.
func scLoginOrder(x *vs.Exec) {
	defer sw.Guard()
	w := sw.New(x, sw.Opt{AllowPorts: sw.P(20000, 20001), UserConnTimeout: 5, HeartbeatTimeout: -1})
	w.Quiesce()
	vs.SetInterest(true)
	c, err := w.Dial()
	if err != nil {
		vs.Fail("dial: %v", err)
		return
	}
	defer func() { c.Close(); w.Teardown() }()
	ts := w.Now()
	msg.WriteMsg(c, &msg.Login{Version: "0.62.0", User: "u", PrivilegeKey: util.GetAuthKey(sw.Token, ts), Timestamp: ts, PoolCount: 2})
	// the frame header decides (read as one block and judged on its fixed part only, so that random cipher text in
	// its place is never parsed and the verdict does not depend on the random bytes)
	hdr := make([]byte, 9)
	if _, idle, err := c.ReadFullOrIdle(hdr); idle || err != nil {
		vs.Fail("login with poolCount=2: no reply (idle=%v err=%v)", idle, err)
		return
	}
	if hdr[0] != msg.TypeLoginResp || !bytes.Equal(hdr[1:7], make([]byte, 6)) {
		vs.Fail("login with poolCount=2: the reply does not start with the header of a plain LoginResp frame: the encrypted message stream started before the login reply was written")
		return
	}
	var resp msg.LoginResp
	if err := msg.ReadMsgInto(io.MultiReader(bytes.NewReader(hdr), c), &resp); err != nil || resp.Error != "" || resp.RunID == "" {
		vs.Fail("login reply unreadable or refused")
		return
	}
	enc, err := netpkg.NewCryptoReadWriter(c, []byte(sw.Token))
	if err != nil {
		vs.Fail("crypto: %v", err)
		return
	}
	for i := 0; i < 2; i++ {
		m, err := msg.ReadMsg(enc)
		if _, ok := m.(*msg.ReqWorkConn); err != nil || !ok {
			vs.Fail("after the login reply the encrypted stream should carry the server's %d requests for pooled work connections; message %d: %T %v", 2, i, m, err)
			break
		}
	}
	vs.SetInterest(false)
}

func scenarios() {
	vs.ScenarioFactory = func(name string) *vs.Scenario {
		if name == "loginorder" {
			return &vs.Scenario{Name: name, Horizon: 300 * time.Second, MaxSteps: 100000, NoEarlyTick: true, End: sw.StdEnd, Body: scLoginOrder}
		}
		if name == "pipe/client" {
			return &vs.Scenario{Name: name, Horizon: 300 * time.Second, MaxSteps: 100000, NoEarlyTick: true, End: func(x *vs.Exec) string { return strings.Join(x.Obs, "\n") }, Body: scPipeClient}
		}
		if strings.HasPrefix(name, "pipe/") {
			return &vs.Scenario{Name: name, Horizon: 300 * time.Second, MaxSteps: 100000, NoEarlyTick: true, End: sw.StdEnd, Body: scPipe(strings.TrimPrefix(name, "pipe/"))}
		}
		if _, ok := firsts[strings.TrimPrefix(name, "first/")]; !ok {
			return nil
		}
		return &vs.Scenario{Name: name, Horizon: 300 * time.Second, MaxSteps: 100000, NoEarlyTick: true, End: sw.StdEnd, Body: scFirst(strings.TrimPrefix(name, "first/"))}
	}
}

func main() {
	c := drv.Setup("C17", "e1live", "exploration", scenarios)
	if c == nil {
		return
	}
	c.Rule(fmt.Sprintf("E1: %d kinds of malformed / unexpected first messages sent to the real frps on the virtual network (default schedule and all schedules with one deviation); the offending connection must be closed within the read timeout, the server dump unchanged, another session still answers heartbeats and serves traffic; first messages followed in the same segment by the connection's payload (visitor stream, early bytes of a work connection, and on the client's side the user's bytes behind a StartWorkConn frame): the payload travels on, nothing is read past the frame; the plain LoginResp precedes the encrypted stream under every schedule with <= 2 deviations of a login with poolCount=2", len(firsts)))
	i := 0
	for name := range firsts {
		c.Explore("first/"+name, drv.Pick(c, 1, 2), 1.0/float64(len(firsts)-i))
		i++
	}
	c.ExploreBoth("loginorder", 2, 0.5)
	for _, k := range []string{"visitor", "work", "client"} {
		c.Explore("pipe/"+k, 1, 0.5)
	}
	c.Finish()
}
