// C17 (part e1live) — a peer that sends an unexpected or malformed first message is disconnected
// without affecting other sessions: real frps on the virtual network.
package main

import (
	"encoding/binary"
	"fmt"
	"strings"
	"time"

	"github.com/fatedier/frp/pkg/msg"

	"verif/mc/drv"
	"verif/mc/vs"
	sw "verif/mc/worlds/srvworld"
)

func fr(typ byte, length int64, body string) []byte {
	b := make([]byte, 9)
	b[0] = typ
	binary.BigEndian.PutUint64(b[1:9], uint64(length))
	return append(b, body...)
}

var firsts = map[string][]byte{
	"unknown-type":      fr('Z', 2, "{}"),
	"negative-length":   fr('o', -1, "{}"),
	"oversized-length":  fr('o', 10241, strings.Repeat("x", 64)),
	"huge-length":       fr('o', 1<<62, ""),
	"malformed-json":    fr('o', 12, `{"version":1`),
	"wrong-json-type":   fr('o', 15, `{"pool_count":"x"}`[:15]),
	"pong-first":        fr('4', 2, "{}"),
	"loginresp-first":   fr('1', 2, "{}"),
	"udppacket-first":   fr('u', 2, "{}"),
	"truncated-frame":   fr('o', 200, `{"version":"0.62.0"`),
	"http-request":      []byte("GET / HTTP/1.1\r\nHost: example.com\r\n\r\n"),
	"tls-client-hello":  {0x16, 0x03, 0x01, 0x00, 0x05, 0x01, 0x00, 0x00, 0x01, 0x00, 0x00, 0x00},
	"frp-tls-head-byte": {0x17, 0x00, 0x00, 0x00, 0x00, 0x00, 0x00, 0x00, 0x00, 0x00, 0x00, 0x00},
	"zeros":             make([]byte, 64),
}

func scFirst(name string) func(x *vs.Exec) {
	return func(x *vs.Exec) {
		defer sw.Guard()
		w := sw.New(x, sw.Opt{AllowPorts: sw.P(20000, 20001), UserConnTimeout: 5, HeartbeatTimeout: -1})
		by := w.MustLogin("by", sw.LoginOpt{})
		if r := by.Reg(&msg.NewProxy{ProxyName: "t", ProxyType: "tcp", RemotePort: 20000}); r != "ok:20000" {
			vs.Fail("setup: %s", r)
			return
		}
		w.Quiesce()
		before := w.Dump()
		vs.SetInterest(true)
		c, err := w.Dial()
		if err != nil {
			vs.Fail("dial: %v", err)
			return
		}
		c.Write(firsts[name])
		w.Quiesce()
		time.Sleep(25 * time.Second) // beyond the 10 s read timeouts of the multiplexer and of the first-message read
		w.Quiesce()
		vs.SetInterest(false)
		if !c.PeerClosed() {
			vs.Fail("first bytes %q: the connection was not closed by the server", name)
		}
		c.Close()
		w.Quiesce()
		if d := w.Dump(); d != before {
			vs.Fail("first bytes %q changed the server state:\n%s", name, d)
		}
		by.SendPing(nil)
		if r := by.Await(&msg.Pong{}, nil); r == nil {
			vs.Fail("first bytes %q: the other session no longer answers heartbeats", name)
		}
		if who, e := w.UserEcho("10.5.5.5:5", 20000, "still"); e != "" || who != "by/t" {
			vs.Fail("first bytes %q: the other session's proxy no longer serves (who=%q err=%s)", name, who, e)
		}
		w.Teardown()
	}
}

func scenarios() {
	vs.ScenarioFactory = func(name string) *vs.Scenario {
		if _, ok := firsts[strings.TrimPrefix(name, "first/")]; !ok {
			return nil
		}
		return &vs.Scenario{Name: name, Horizon: 300 * time.Second, MaxSteps: 100000, NoEarlyTick: true, End: sw.StdEnd, Body: scFirst(strings.TrimPrefix(name, "first/"))}
	}
}

func main() {
	c := drv.Setup("C17", "e1live", "exploration", scenarios)
	if c == nil {
		return
	}
	c.Rule(fmt.Sprintf("E1: %d kinds of malformed / unexpected first messages sent to the real frps on the virtual network (default schedule and all schedules with one deviation); the offending connection must be closed within the read timeout, the server dump unchanged, another session still answers heartbeats and serves traffic", len(firsts)))
	i := 0
	for name := range firsts {
		c.Explore("first/"+name, drv.Pick(c, 1, 2), 1.0/float64(len(firsts)-i))
		i++
	}
	c.Finish()
}
