// C11 — work connections: one user each, right proxy, bounded pool, never orphaned.
package main

import (
	"reflect"
	"fmt"
	"strings"
	"sync"
	"time"

	"github.com/fatedier/frp/pkg/msg"

	"verif/mc/drv"
	"verif/mc/peek"
	"verif/mc/vs"
	"verif/mc/vs/vnet"
	sw "verif/mc/worlds/srvworld"
)

const (
	muxPort     = 7500
	userTimeout = 5
)

func newWorld(x *vs.Exec, maxPool int64) *sw.World {
	return sw.New(x, sw.Opt{AllowPorts: sw.P(20000, 20003), UserConnTimeout: userTimeout, HeartbeatTimeout: -1, TCPMuxPort: muxPort, MaxPoolCount: maxPool})
}

// path = how user connections reach the proxy
type path struct {
	name string
	reg  func(name string) *msg.NewProxy
	open func(w *sw.World, src, proxy string) (*vnet.StreamConn, string)
}

var paths = map[string]path{
	"direct": {"direct",
		func(n string) *msg.NewProxy { return &msg.NewProxy{ProxyName: n, ProxyType: "tcp", RemotePort: 20001} },
		func(w *sw.World, src, proxy string) (*vnet.StreamConn, string) {
			u, err := w.H.DialFrom(src, "127.0.0.1:20001")
			if err != nil {
				return nil, "dial: " + err.Error()
			}
			return u, ""
		}},
	"group": {"group",
		func(n string) *msg.NewProxy {
			return &msg.NewProxy{ProxyName: n, ProxyType: "tcp", RemotePort: 20002, Group: "G", GroupKey: "k"}
		},
		func(w *sw.World, src, proxy string) (*vnet.StreamConn, string) {
			u, err := w.H.DialFrom(src, "127.0.0.1:20002")
			if err != nil {
				return nil, "dial: " + err.Error()
			}
			return u, ""
		}},
	"tcpmux": {"tcpmux",
		func(n string) *msg.NewProxy {
			return &msg.NewProxy{ProxyName: n, ProxyType: "tcpmux", Multiplexer: "httpconnect", CustomDomains: []string{n + ".example.com"}}
		},
		func(w *sw.World, src, proxy string) (*vnet.StreamConn, string) {
			return w.ConnectMux(src, proxy+".example.com", "")
		}},
	"visitor": {"visitor",
		func(n string) *msg.NewProxy {
			return &msg.NewProxy{ProxyName: n, ProxyType: "stcp", Sk: "sk-" + n, AllowUsers: []string{"*"}}
		},
		func(w *sw.World, src, proxy string) (*vnet.StreamConn, string) {
			return w.Visitor(src, &msg.NewVisitorConn{ProxyName: proxy}, "sk-"+proxy)
		}},
}

func poolLen(w *sw.World) int {
	n := 0
	peek.Each(peek.F(w.Svc, "ctlManager.ctlsByRunID"), func(_ string, _, ctl reflectValue) {
		n += peek.Walk(ctl, "workConnCh").Len()
	})
	return n
}

// pool: number of connections asked for in advance = min(client poolCount, server maxPoolCount)
func scPool(p, m int) func(x *vs.Exec) {
	return func(x *vs.Exec) {
		defer sw.Guard()
		w := newWorld(x, int64(m))
		vs.SetInterest(true)
		a, _, err := w.Login("a", sw.LoginOpt{User: "ua", PoolCount: p})
		if err != nil {
			vs.Fail("login: %v", err)
			return
		}
		w.Quiesce()
		vs.SetInterest(false)
		want := p
		if m < want {
			want = m
		}
		if a.Reqs != want {
			vs.Fail("poolCount=%d maxPoolCount=%d: server asked for %d work connections in advance, expected min = %d", p, m, a.Reqs, want)
		}
		// offer more than the pool can hold: capacity is poolCount+10; surplus must be refused and closed
		capacity := want + 10
		var offered []*vnet.StreamConn
		for i := 0; i < capacity+3; i++ {
			c, err := a.WorkConn(a.RunID, nil)
			if err != nil {
				vs.Fail("work conn dial: %v", err)
				return
			}
			offered = append(offered, c)
			w.Quiesce()
			if n := poolLen(w); n > capacity {
				vs.Fail("pool holds %d connections, capacity is %d", n, capacity)
			}
		}
		if n := poolLen(w); n != capacity {
			vs.Fail("after %d offers the pool holds %d, capacity %d", len(offered), n, capacity)
		}
		for i, c := range offered {
			refused := c.Peer.IsClosed()
			if i < capacity && refused {
				vs.Fail("offer %d (within capacity) was closed by the server", i)
			}
			if i >= capacity && !refused {
				vs.Fail("surplus offer %d was neither pooled nor closed", i)
			}
		}
		vs.Observe("reqs=%d pool=%d", a.Reqs, poolLen(w))
		a.Cut()
		w.Quiesce()
		for i, c := range offered {
			if !c.Peer.IsClosed() {
				vs.Fail("after the session ended pooled work connection %d is still open on the server", i)
			}
			c.Close()
		}
	}
}

// users: n simultaneous users on one accept path, client answers every request.
func scUsers(pt path, n, pool int) func(x *vs.Exec) {
	return func(x *vs.Exec) {
		defer sw.Guard()
		w := newWorld(x, 5)
		a := w.MustLogin("a", sw.LoginOpt{PoolCount: pool})
		b := w.MustLogin("b", sw.LoginOpt{})
		if r := a.Reg(pt.reg("pa")); !strings.HasPrefix(r, "ok") {
			vs.Fail("setup: %s", r)
			return
		}
		if pt.name != "group" {
			// a second proxy of another session: connections must never be cross-wired
			other := pt.reg("pb")
			other.RemotePort = 20003
			if r := b.Reg(other); !strings.HasPrefix(r, "ok") {
				vs.Fail("setup pb: %s", r)
				return
			}
		}
		w.Quiesce()
		errs := make([]string, n)
		var wg sync.WaitGroup
		vs.SetInterest(true)
		for i := 0; i < n; i++ {
			wg.Add(1)
			go func(i int) {
				defer wg.Done()
				src := fmt.Sprintf("10.1.0.%d:%d", i+1, 5000+i)
				u, e := pt.open(w, src, "pa")
				if e == "" {
					e = sw.Echo(u, "payload-"+src)
				}
				errs[i] = e
				if u != nil {
					u.Close()
				}
			}(i)
		}
		wg.Wait()
		w.Quiesce()
		vs.SetInterest(false)
		for i := 0; i < n; i++ {
			src := fmt.Sprintf("10.1.0.%d:%d", i+1, 5000+i)
			if errs[i] != "" {
				vs.Fail("user %d was not served although the client answers every request: %s", i, errs[i])
			}
			recs := w.ServedBy(src)
			if len(recs) != 1 {
				vs.Fail("user %s announced on %d work connections, expected exactly 1", src, len(recs))
			}
			for _, r := range recs {
				if r.Peer != "a" || r.Proxy != "pa" {
					vs.Fail("user %s for proxy pa was handed to %s/%s", src, r.Peer, r.Proxy)
				}
				if string(r.Got) != "payload-"+src {
					vs.Fail("work connection of %s carried %q", src, r.Got)
				}
			}
		}
		for _, r := range w.Works {
			if r.Started && !strings.HasPrefix(r.Src, "10.1.0.") {
				vs.Fail("work connection started for unknown user %q", r.Src)
			}
		}
		w.Teardown()
	}
}

// nowork: the client never delivers a work connection.
func scNoWork(pt path, poolCount int) func(x *vs.Exec) {
	return func(x *vs.Exec) {
		defer sw.Guard()
		w := newWorld(x, 5)
		// the client never answers a request for a work connection, not even the advance requests of its pool
		a, _, err := w.Login("a", sw.LoginOpt{PoolCount: poolCount})
		if err != nil {
			vs.Fail("setup: login: %v", err)
			return
		}
		if r := a.Reg(pt.reg("pa")); !strings.HasPrefix(r, "ok") {
			vs.Fail("setup: %s", r)
			return
		}
		a.OnReq = nil
		w.Quiesce()
		t0 := x.Now()
		u, e := pt.open(w, "10.2.0.1:6000", "pa")
		if e != "" {
			vs.Fail("open: %s", e)
			return
		}
		buf := make([]byte, 1)
		_, idle, err := u.ReadOrIdle(buf)
		el := x.Now() - t0
		if idle {
			vs.Fail("user connection left open without a peer: the client never delivered a work connection and the connection was not closed (virtual time now %v)", el)
		} else if err == nil {
			vs.Fail("user read data although no work connection exists")
		} else if el > (userTimeout+1)*time.Second {
			vs.Fail("user connection closed after %v, configured user-connection timeout is %ds", el, userTimeout)
		}
		vs.Observe("closed after %v reqs=%d", el, a.Reqs)
		u.Close()
		w.Teardown()
	}
}

// deadpool: the pooled connection is already dead when the user arrives.
func scDeadPool(x *vs.Exec) {
	defer sw.Guard()
	w := newWorld(x, 5)
	a, _, err := w.Login("a", sw.LoginOpt{User: "ua", PoolCount: 1})
	if err != nil {
		vs.Fail("login: %v", err)
		return
	}
	first := true
	a.OnReq = func(p *sw.Peer) {
		if first {
			first = false
			go func() {
				c, err := p.WorkConn(p.RunID, nil)
				if err == nil {
					c.Close() // dies right after being offered
				}
			}()
			return
		}
		go p.ServeOneWork()
	}
	if r := a.Reg(paths["direct"].reg("pa")); !strings.HasPrefix(r, "ok") {
		vs.Fail("setup: %s", r)
		return
	}
	w.Quiesce()
	vs.SetInterest(true)
	who, e := w.UserEcho("10.3.0.1:7000", 20001, "hello")
	vs.SetInterest(false)
	if e != "" || who != "a/pa" {
		vs.Fail("user not served when the pooled work connection was dead: who=%q err=%s", who, e)
	}
	w.Teardown()
}

// endwork: the session ends while work connections are pooled / arriving.
func scEndVsWork(x *vs.Exec) {
	defer sw.Guard()
	w := newWorld(x, 5)
	a, _, err := w.Login("a", sw.LoginOpt{User: "ua", PoolCount: 1})
	if err != nil {
		vs.Fail("login: %v", err)
		return
	}
	if r := a.Reg(paths["direct"].reg("pa")); !strings.HasPrefix(r, "ok") {
		vs.Fail("setup: %s", r)
		return
	}
	pooled, _ := a.WorkConn(a.RunID, nil)
	w.Quiesce()
	var late *vnet.StreamConn
	var wg sync.WaitGroup
	wg.Add(2)
	vs.SetInterest(true)
	go func() { defer wg.Done(); a.Cut() }()
	go func() { defer wg.Done(); late, _ = a.WorkConn(a.RunID, nil) }()
	wg.Wait()
	w.Quiesce()
	vs.SetInterest(false)
	if !pooled.Peer.IsClosed() {
		vs.Fail("pooled work connection not closed when the session ended")
	}
	if late != nil && !late.Peer.IsClosed() {
		vs.Fail("work connection that arrived while the session was ending is parked: neither pooled nor closed")
	}
	vs.Observe("late=%v", late != nil)
	pooled.Close()
	if late != nil {
		late.Close()
	}
	w.Teardown()
}

// closeuser: a user arrives while its proxy is being closed.
func scCloseVsUser(pt path) func(x *vs.Exec) {
	return func(x *vs.Exec) {
		defer sw.Guard()
		w := newWorld(x, 5)
		a := w.MustLogin("a", sw.LoginOpt{})
		if r := a.Reg(pt.reg("pa")); !strings.HasPrefix(r, "ok") {
			vs.Fail("setup: %s", r)
			return
		}
		w.Quiesce()
		var wg sync.WaitGroup
		var e string
		wg.Add(2)
		vs.SetInterest(true)
		go func() {
			defer wg.Done()
			u, err := pt.open(w, "10.4.0.1:8000", "pa")
			e = err
			if u != nil {
				if e == "" {
					e = sw.Echo(u, "hi")
				}
				if strings.Contains(e, "idle") {
					vs.Fail("user connection accepted while its proxy was closing is left open without a peer: %s", e)
				}
				u.Close()
			}
		}()
		go func() { defer wg.Done(); a.CloseProxy("pa") }()
		wg.Wait()
		w.Quiesce()
		vs.SetInterest(false)
		vs.Observe("user: %q", e)
		w.Teardown()
	}
}

type reflectValue = reflect.Value

func scenarios() {
	vs.ScenarioFactory = func(name string) *vs.Scenario {
		s := &vs.Scenario{Name: name, Horizon: 300 * time.Second, MaxSteps: 60000, NoEarlyTick: true, End: sw.StdEnd}
		f := strings.Split(name, "/")
		switch f[0] {
		case "pool":
			var p, m int
			fmt.Sscanf(f[1], "p%dm%d", &p, &m)
			s.Body = scPool(p, m)
		case "users2":
			s.Body = scUsers(paths[f[1]], 2, 1)
		case "users3":
			s.Body = scUsers(paths[f[1]], 3, 0)
		case "nowork":
			s.Body = scNoWork(paths[f[1]], 0)
		case "nowork3":
			s.Body = scNoWork(paths[f[1]], 3)
		case "deadpool":
			s.Body = scDeadPool
		case "endwork":
			s.Body = scEndVsWork
		case "closeuser":
			s.Body = scCloseVsUser(paths[f[1]])
		case "refused":
			s.Body = scRefused(paths[f[1]], f[2])
		default:
			return nil
		}
		return s
	}
}

func main() {
	c := drv.Setup("C11", "e1", "model_checking", scenarios)
	if c == nil {
		return
	}
	c.Rule("E1: real frps on the virtual network and clock; scripted client behaviours (answers every request / never answers / offers dead or surplus connections); every schedule with at most B deviations of user arrivals, work-connection arrivals, proxy close and session end on four accept paths; a user turned away by a new-user-connection plugin (reject / plugin failure) on each path is closed and the next user served (direct, group, tcpmux muxer, visitor listener); non-trivial = distinct end state / observation trace")
	b := drv.Pick(c, 2, 3)
	type run struct {
		s string
		b int
	}
	runs := []run{{"pool/p0m5", 1}, {"pool/p1m5", 1}, {"pool/p2m1", 1}, {"pool/p7m5", 1}, {"deadpool", b}, {"endwork", b}}
	for _, p := range []string{"direct", "group", "tcpmux", "visitor"} {
		runs = append(runs, run{"users2/" + p, drv.Pick(c, 1, 2)}, run{"nowork/" + p, 1}, run{"nowork3/" + p, 1}, run{"closeuser/" + p, b}, run{"refused/" + p + "/reject", 1}, run{"refused/" + p + "/error", 1})
	}
	if !c.Quick() {
		runs = append(runs, run{"users3/direct", 2}, run{"users3/tcpmux", 2})
	}
	for i, r := range runs {
		c.ExploreBoth(r.s, r.b, 1.0/float64(len(runs)-i))
	}
	c.Finish()
}
