package main

import (
	"context"
	"fmt"
	"strings"
	"time"

	plugin "github.com/fatedier/frp/pkg/plugin/server"

	"verif/mc/peek"
	"verif/mc/vs"
	sw "verif/mc/worlds/srvworld"
)

// gate is a server plugin for the new-user-connection operation only: it turns away the user at 10.2.0.9 (by a reject
// answer or by failing like an unreachable plugin) and admits everybody else.
type gate struct{ how string }

func (g *gate) Name() string             { return "gate" }
func (g *gate) IsSupport(op string) bool { return op == plugin.OpNewUserConn }
func (g *gate) Handle(_ context.Context, _ string, content any) (*plugin.Response, any, error) {
	c, _ := content.(plugin.NewUserConnContent)
	if strings.HasPrefix(c.RemoteAddr, "10.2.0.9:") {
		if g.how == "error" {
			return nil, nil, fmt.Errorf("plugin unreachable")
		}
		return &plugin.Response{Reject: true, RejectReason: "not you"}, nil, nil
	}
	return &plugin.Response{Unchange: true}, nil, nil
}

// refused: a user connection the server decides not to bridge (a plugin turns it away) is closed, not left open without a
// peer; the next user is served.
func scRefused(pt path, how string) func(x *vs.Exec) {
	return func(x *vs.Exec) {
		defer sw.Guard()
		w := newWorld(x, 5)
		peek.F(w.Svc, "pluginManager").Interface().(*plugin.Manager).Register(&gate{how})
		a := w.MustLogin("a", sw.LoginOpt{})
		if r := a.Reg(pt.reg("pa")); !strings.HasPrefix(r, "ok") {
			vs.Fail("setup: %s", r)
			return
		}
		w.Quiesce()
		vs.SetInterest(true)
		t0 := x.Now()
		u, e := pt.open(w, "10.2.0.9:6100", "pa")
		if e == "" {
			// the visitor and muxer paths answer their own hand-shake before the bridge is attempted
			buf := make([]byte, 1)
			_, idle, err := u.ReadOrIdle(buf)
			el := x.Now() - t0
			if idle {
				vs.Fail("a user connection turned away by the new-user-connection plugin (%s) was left open without a peer (path %s, virtual time %v)", how, pt.name, el)
			} else if err == nil {
				vs.Fail("a user turned away by the new-user-connection plugin (%s) received data (path %s)", how, pt.name)
			} else if el > (userTimeout+1)*time.Second {
				vs.Fail("a user connection turned away by the plugin was closed after %v, user-connection timeout is %ds", el, userTimeout)
			}
			u.Close()
		}
		w.Quiesce()
		vs.SetInterest(false)
		for _, r := range w.ServedBy("10.2.0.9:6100") {
			if r.Started {
				vs.Fail("the turned-away user was announced on a work connection of %s/%s", r.Peer, r.Proxy)
			}
		}
		u2, e := pt.open(w, "10.2.0.1:6101", "pa")
		if e == "" {
			e = sw.Echo(u2, "payload-after-refusal")
		}
		if e != "" {
			vs.Fail("the user after the turned-away one was not served (path %s): %s", pt.name, e)
		}
		if u2 != nil {
			u2.Close()
		}
		w.Teardown()
	}
}
