// C15 (part e2) — server plugins gate every operation, fail closed, and see each other's edits.
// The real plugin.Manager with real HTTP plugins talking to stub plugin servers on loopback;
// complete product of chains x op subsets x outcomes for every operation, against a reference chain.
package main

import (
	"encoding/json"
	"fmt"
	"io"
	"net"
	"net/http"
	"strings"
	"sync"

	v1 "github.com/fatedier/frp/pkg/config/v1"
	"github.com/fatedier/frp/pkg/msg"
	plugin "github.com/fatedier/frp/pkg/plugin/server"

	"verif/mc/drv"
	_ "verif/mc/quiet"
)

var ops = []string{"Login", "NewProxy", "Ping", "NewWorkConn", "NewUserConn", "CloseProxy"}
var outcomes = []string{"accept", "modify", "reject", "http500", "reset", "badjson", "empty", "trailing", "twodocs", "shortbody"}
var subsets = []string{"none", "this", "all"}

type pluginSpec struct {
	Sub string `json:"ops"`
	Out string `json:"outcome"`
}

type chainCase struct {
	Op    string       `json:"op"`
	Chain []pluginSpec `json:"chain"`
}

// the field each operation's content carries through the chain (edits append to it)
func getMarker(op string, content map[string]any) string {
	switch op {
	case "Login":
		s, _ := content["user"].(string)
		return s
	case "NewProxy", "NewUserConn", "CloseProxy":
		s, _ := content["proxy_name"].(string)
		return s
	case "Ping":
		s, _ := content["privilege_key"].(string)
		return s
	case "NewWorkConn":
		s, _ := content["run_id"].(string)
		return s
	}
	return ""
}

func setMarker(op string, content map[string]any, v string) {
	switch op {
	case "Login":
		content["user"] = v
	case "NewProxy", "NewUserConn", "CloseProxy":
		content["proxy_name"] = v
	case "Ping":
		content["privilege_key"] = v
	case "NewWorkConn":
		content["run_id"] = v
	}
}

type stub struct {
	mu   sync.Mutex
	spec []pluginSpec
	seen [][]string // per plugin: markers seen, in order
}

func (s *stub) ServeHTTP(w http.ResponseWriter, r *http.Request) {
	var idx int
	fmt.Sscanf(r.URL.Path, "/p%d", &idx)
	body, _ := io.ReadAll(r.Body)
	var req struct {
		Op      string         `json:"op"`
		Content map[string]any `json:"content"`
	}
	json.Unmarshal(body, &req)
	s.mu.Lock()
	s.seen[idx] = append(s.seen[idx], req.Op+":"+getMarker(req.Op, req.Content))
	out := s.spec[idx].Out
	s.mu.Unlock()
	switch out {
	case "accept":
		w.Header().Set("Content-Type", "text/plain") // a wrong content type with a valid body is still an answer
		io.WriteString(w, `{"reject":false,"unchange":true}`)
	case "modify":
		setMarker(req.Op, req.Content, getMarker(req.Op, req.Content)+fmt.Sprintf("+p%d", idx))
		b, _ := json.Marshal(map[string]any{"reject": false, "unchange": false, "content": req.Content})
		w.Write(b)
	case "reject":
		io.WriteString(w, fmt.Sprintf(`{"reject":true,"reject_reason":"no from p%d"}`, idx))
	case "http500":
		w.WriteHeader(500)
		io.WriteString(w, `{"reject":false,"unchange":true}`)
	case "reset":
		if hj, ok := w.(http.Hijacker); ok {
			c, _, _ := hj.Hijack()
			if tc, ok := c.(*net.TCPConn); ok {
				tc.SetLinger(0)
			}
			c.Close()
		}
	case "badjson":
		io.WriteString(w, `{"reject":false,"unchange":tr`)
	case "empty":
	case "trailing": // a complete accepting object followed by bytes that make the body unparsable
		io.WriteString(w, `{"reject":false,"unchange":true}}<html>proxy error</html>`)
	case "twodocs":
		io.WriteString(w, `{"reject":false,"unchange":true}{"reject":true,"reject_reason":"second document"}`)
	case "shortbody": // the announced length is never delivered: the body cannot be read to its end
		if hj, ok := w.(http.Hijacker); ok {
			c, bw, _ := hj.Hijack()
			bw.WriteString("HTTP/1.1 200 OK\r\nContent-Type: application/json\r\nContent-Length: 200\r\n\r\n" + `{"reject":false,"unchange":true}`)
			bw.Flush()
			c.Close()
		}
	}
}

func supports(sub, op string) bool { return sub == "all" || sub == "this" }

func opsOf(sub, op string) []string {
	switch sub {
	case "all":
		return ops
	case "this":
		return []string{op}
	}
	// "none": registered for other operations only
	var out []string
	for _, o := range ops {
		if o != op {
			out = append(out, o)
		}
	}
	return out[:2]
}

func runChain(cc chainCase) string {
	st := &stub{spec: cc.Chain, seen: make([][]string, len(cc.Chain))}
	l, err := net.Listen("tcp", "127.0.0.1:0")
	if err != nil {
		return ""
	}
	srv := &http.Server{Handler: st}
	go srv.Serve(l)
	defer srv.Close()
	m := plugin.NewManager()
	for i, ps := range cc.Chain {
		m.Register(plugin.NewHTTPPluginOptions(v1.HTTPPluginOptions{Name: fmt.Sprintf("p%d", i), Addr: l.Addr().String(), Path: fmt.Sprintf("/p%d", i), Ops: opsOf(ps.Sub, cc.Op)}))
	}
	const start = "orig"
	user := plugin.UserInfo{User: "u", RunID: "r"}
	var got string
	var opErr error
	switch cc.Op {
	case "Login":
		c, err := m.Login(&plugin.LoginContent{Login: msg.Login{User: start}})
		opErr = err
		if c != nil {
			got = c.User
		}
	case "NewProxy":
		c, err := m.NewProxy(&plugin.NewProxyContent{User: user, NewProxy: msg.NewProxy{ProxyName: start}})
		opErr = err
		if c != nil {
			got = c.ProxyName
		}
	case "Ping":
		c, err := m.Ping(&plugin.PingContent{User: user, Ping: msg.Ping{PrivilegeKey: start}})
		opErr = err
		if c != nil {
			got = c.PrivilegeKey
		}
	case "NewWorkConn":
		c, err := m.NewWorkConn(&plugin.NewWorkConnContent{User: user, NewWorkConn: msg.NewWorkConn{RunID: start}})
		opErr = err
		if c != nil {
			got = c.RunID
		}
	case "NewUserConn":
		c, err := m.NewUserConn(&plugin.NewUserConnContent{User: user, ProxyName: start})
		opErr = err
		if c != nil {
			got = c.ProxyName
		}
	case "CloseProxy":
		opErr = m.CloseProxy(&plugin.CloseProxyContent{User: user, CloseProxy: msg.CloseProxy{ProxyName: start}})
	}
	// reference chain
	cur := start
	proceed := true
	wantSeen := make([][]string, len(cc.Chain))
	for i, ps := range cc.Chain {
		if ps.Sub == "none" {
			continue
		}
		if cc.Op == "CloseProxy" { // notification: everybody registered is told, whatever the others answered
			wantSeen[i] = []string{cc.Op + ":" + start}
			continue
		}
		if !proceed {
			continue
		}
		wantSeen[i] = []string{cc.Op + ":" + cur}
		switch ps.Out {
		case "accept":
		case "modify":
			cur += fmt.Sprintf("+p%d", i)
		default:
			proceed = false
		}
	}
	for i := range cc.Chain {
		if fmt.Sprint(st.seen[i]) != fmt.Sprint(wantSeen[i]) {
			return fmt.Sprintf("plugin %d (%s/%s) saw %v, the reference chain says %v", i, cc.Chain[i].Sub, cc.Chain[i].Out, st.seen[i], wantSeen[i])
		}
	}
	if cc.Op == "CloseProxy" {
		return ""
	}
	if proceed {
		if opErr != nil {
			return fmt.Sprintf("every consulted plugin accepted but the operation was refused: %v", opErr)
		}
		if got != cur {
			return fmt.Sprintf("the server acts on %q, the last plugin's edit is %q", got, cur)
		}
	} else if opErr == nil {
		return fmt.Sprintf("a plugin did not accept (reject / error / unparsable answer) but the operation proceeds with %q", got)
	} else if strings.Contains(fmt.Sprint(cc.Chain), "reject") {
		for i, ps := range cc.Chain {
			if ps.Sub != "none" && ps.Out == "reject" && len(wantSeen[i]) > 0 && !strings.Contains(opErr.Error(), fmt.Sprintf("no from p%d", i)) {
				return fmt.Sprintf("rejected by plugin %d but the error does not carry its reason: %v", i, opErr)
			}
		}
	}
	return ""
}

// strip: "content rewritten by one plugin is what the next plugin and finally the server act on" also when the rewrite
// REMOVES something: the first plugin returns the content without one of the metas and with an optional field left out
// (cleared); the second plugin and the server must not see what was removed.
func runStrip(op string) string {
	l, err := net.Listen("tcp", "127.0.0.1:0")
	if err != nil {
		return ""
	}
	var mu sync.Mutex
	var second map[string]any
	srv := &http.Server{Handler: http.HandlerFunc(func(w http.ResponseWriter, r *http.Request) {
		body, _ := io.ReadAll(r.Body)
		var req struct {
			Content map[string]any `json:"content"`
		}
		json.Unmarshal(body, &req)
		if r.URL.Path == "/p0" {
			if metas, ok := req.Content["metas"].(map[string]any); ok {
				delete(metas, "drop")
			}
			delete(req.Content, "group_key")
			delete(req.Content, "os")
			b, _ := json.Marshal(map[string]any{"reject": false, "unchange": false, "content": req.Content})
			w.Write(b)
			return
		}
		mu.Lock()
		second = req.Content
		mu.Unlock()
		io.WriteString(w, `{"reject":false,"unchange":true}`)
	})}
	go srv.Serve(l)
	defer srv.Close()
	m := plugin.NewManager()
	for i := 0; i < 2; i++ {
		m.Register(plugin.NewHTTPPluginOptions(v1.HTTPPluginOptions{Name: fmt.Sprintf("p%d", i), Addr: l.Addr().String(), Path: fmt.Sprintf("/p%d", i), Ops: []string{op}}))
	}
	metas := map[string]string{"keep": "1", "drop": "2"}
	var finalMetas map[string]string
	var finalOpt string
	switch op {
	case "Login":
		c, err := m.Login(&plugin.LoginContent{Login: msg.Login{User: "u", Os: "linux", Metas: metas}})
		if err != nil {
			return "login refused: " + err.Error()
		}
		finalMetas, finalOpt = c.Metas, c.Os
	case "NewProxy":
		c, err := m.NewProxy(&plugin.NewProxyContent{User: plugin.UserInfo{User: "u", RunID: "r"}, NewProxy: msg.NewProxy{ProxyName: "n", ProxyType: "tcp", GroupKey: "gk", Metas: metas}})
		if err != nil {
			return "new proxy refused: " + err.Error()
		}
		finalMetas, finalOpt = c.Metas, c.GroupKey
	}
	mu.Lock()
	defer mu.Unlock()
	if second == nil {
		return "the second plugin was not consulted"
	}
	if ms, _ := second["metas"].(map[string]any); ms["drop"] != nil || ms["keep"] == nil {
		return fmt.Sprintf("%s: the first plugin removed the meta \"drop\" (and kept \"keep\"); the second plugin saw metas %v", op, ms)
	}
	if second["group_key"] != nil || second["os"] != nil {
		return fmt.Sprintf("%s: the first plugin cleared an optional field; the second plugin still saw group_key=%v os=%v", op, second["group_key"], second["os"])
	}
	if _, still := finalMetas["drop"]; still || finalMetas["keep"] != "1" || finalOpt != "" {
		return fmt.Sprintf("%s: the server acts on metas %v and optional field %q after the first plugin removed \"drop\" and cleared the field", op, finalMetas, finalOpt)
	}
	return ""
}

func main() {
	drv.E2Replayers["strip"] = func(raw json.RawMessage) string {
		var op string
		json.Unmarshal(raw, &op)
		return runStrip(op)
	}
	drv.E2Replayers["chain"] = func(raw json.RawMessage) string {
		var cc chainCase
		json.Unmarshal(raw, &cc)
		return runChain(cc)
	}
	c := drv.Setup("C15", "e2", "exploration", nil)
	if c == nil {
		return
	}
	c.Rule("complete product: 6 operations x chains of n <= N real HTTP plugins x per-plugin operation subset {other ops only, this op, all ops} x per-plugin outcome {accept unchanged (wrong content type), accept with modified content, reject with reason, HTTP 500, connection reset, malformed JSON, empty body}, executed against stub plugin servers on loopback and compared with a reference chain (order, short-circuit, edits visible downstream, fail closed, not consulted when not registered, close-proxy notifies all); rewrites that remove a meta or clear an optional field (Login, NewProxy) are what the next plugin and the server see; non-trivial = distinct chain case")
	N := drv.Pick(c, 2, 3)
	var cases []chainCase
	var rec func(op string, chain []pluginSpec, d int)
	rec = func(op string, chain []pluginSpec, d int) {
		cases = append(cases, chainCase{op, append([]pluginSpec{}, chain...)})
		if d == 0 {
			return
		}
		for _, s := range subsets {
			for _, o := range outcomes {
				if s == "none" && o != "reject" && o != "modify" {
					continue // an unregistered plugin's outcome is irrelevant: two representatives
				}
				rec(op, append(chain, pluginSpec{s, o}), d-1)
			}
		}
	}
	for _, op := range ops {
		rec(op, nil, N)
	}
	var mu sync.Mutex
	var wg sync.WaitGroup
	ch := make(chan chainCase, 256)
	for w := 0; w < 16; w++ {
		wg.Add(1)
		go func() {
			defer wg.Done()
			for cc := range ch {
				e := runChain(cc)
				mu.Lock()
				c.Count(fmt.Sprintf("%v", cc))
				if e != "" {
					c.ViolateConfirmed("chain", "chain:"+cc.Op+":"+e, fmt.Sprintf("%s %v: %s", cc.Op, cc.Chain, e), cc, 2)
				}
				mu.Unlock()
			}
		}()
	}
	for _, cc := range cases {
		if c.TimeUp() {
			c.Cap("chain enumeration stopped by the budget")
			break
		}
		ch <- cc
	}
	close(ch)
	wg.Wait()
	for _, op := range []string{"Login", "NewProxy"} {
		c.Count("strip:" + op)
		if e := runStrip(op); e != "" {
			c.ViolateConfirmed("strip", "strip:"+op, e, op, 2)
		}
	}
	c.Sample(cases[len(cases)/2])
	c.Note("chain_cases", len(cases))
	c.Finish()
}
