// C15 (part e1) — the call sites: every hooked operation of the real frps consults the plugins and acts on their verdict.
package main

import (
	"context"
	"fmt"
	"sort"
	"strings"
	"time"

	"github.com/fatedier/frp/pkg/msg"
	plugin "github.com/fatedier/frp/pkg/plugin/server"

	"verif/mc/drv"
	"verif/mc/peek"
	"verif/mc/vs"
	sw "verif/mc/worlds/srvworld"
)

// stubPlugin is an in-memory server plugin (pure functions: no blocking I/O under the scheduler).
type stubPlugin struct {
	name string
	ops  map[string]bool
	fn   func(op string, content any) (*plugin.Response, any, error)
	log  []string
}

func (p *stubPlugin) Name() string             { return p.name }
func (p *stubPlugin) IsSupport(op string) bool { return p.ops[op] }
func (p *stubPlugin) Handle(_ context.Context, op string, content any) (*plugin.Response, any, error) {
	p.log = append(p.log, op+":"+describe(content))
	return p.fn(op, content)
}

func describe(c any) string {
	switch v := c.(type) {
	case plugin.LoginContent:
		return v.User
	case plugin.NewProxyContent:
		return fmt.Sprintf("%s@%d", v.ProxyName, v.RemotePort)
	case plugin.CloseProxyContent:
		return v.ProxyName
	case plugin.PingContent:
		return v.User.User
	case plugin.NewWorkConnContent:
		return v.RunID
	case plugin.NewUserConnContent:
		return v.ProxyName + "<-" + v.RemoteAddr
	}
	return fmt.Sprintf("%T", c)
}

func accept() (*plugin.Response, any, error) { return &plugin.Response{Unchange: true}, nil, nil }
func reject(why string) (*plugin.Response, any, error) {
	return &plugin.Response{Reject: true, RejectReason: why}, nil, nil
}

func register(w *sw.World, p *stubPlugin) {
	pm := peek.F(w.Svc, "pluginManager").Interface().(*plugin.Manager)
	pm.Register(p)
}

func all(ops ...string) map[string]bool {
	m := map[string]bool{}
	for _, o := range ops {
		m[o] = true
	}
	return m
}

func scSites(mode string) func(x *vs.Exec) {
	return func(x *vs.Exec) {
		defer sw.Guard()
		hb := int64(-1)
		if mode == "ping-reject" {
			hb = 4
		}
		w := sw.New(x, sw.Opt{AllowPorts: sw.P(20000, 20003), UserConnTimeout: 5, HeartbeatTimeout: hb})
		p := &stubPlugin{name: "stub", ops: all(plugin.OpLogin, plugin.OpNewProxy, plugin.OpPing, plugin.OpNewWorkConn, plugin.OpNewUserConn, plugin.OpCloseProxy)}
		p.fn = func(op string, content any) (*plugin.Response, any, error) {
			switch {
			case mode == "login-rewrite" && op == plugin.OpLogin:
				c := content.(plugin.LoginContent)
				c.User = "rewritten"
				return &plugin.Response{}, &c, nil
			case mode == "login-reject" && op == plugin.OpLogin:
				return reject("no login")
			case mode == "login-error" && op == plugin.OpLogin:
				return nil, nil, fmt.Errorf("plugin unreachable")
			case mode == "proxy-rewrite" && op == plugin.OpNewProxy:
				c := content.(plugin.NewProxyContent)
				if c.ProxyName != "t" {
					return accept()
				}
				c.RemotePort = 20002
				return &plugin.Response{}, &c, nil
			case mode == "proxy-reject" && op == plugin.OpNewProxy:
				return reject("no proxy")
			case mode == "proxy-error" && op == plugin.OpNewProxy:
				return nil, nil, fmt.Errorf("plugin unreachable")
			case mode == "ping-reject" && op == plugin.OpPing:
				return reject("no ping")
			case mode == "work-reject" && op == plugin.OpNewWorkConn:
				return reject("no work conn")
			case mode == "user-reject" && op == plugin.OpNewUserConn:
				return reject("no user conn")
			case mode == "close-error" && op == plugin.OpCloseProxy:
				return nil, nil, fmt.Errorf("plugin unreachable")
			}
			return accept()
		}
		register(w, p)
		vs.SetInterest(true)
		a, resp, err := w.Login("a", sw.LoginOpt{User: "ua", PoolCount: 0})
		switch mode {
		case "login-reject", "login-error":
			if err == nil {
				vs.Fail("%s: login proceeded although the plugin did not accept", mode)
			}
			if len(w.Sessions()) != 0 {
				vs.Fail("%s: a session exists", mode)
			}
			w.Teardown()
			return
		}
		if err != nil {
			vs.Fail("login: %v %v", err, resp)
			return
		}
		a.AutoWork()
		if mode == "login-rewrite" {
			if d := w.Dump(); !strings.Contains(d, `user="rewritten"`) {
				vs.Fail("login content rewritten by the plugin (user=rewritten) but the server acts on the original:\n%s", d)
			}
		}
		r := a.Reg(&msg.NewProxy{ProxyName: "t", ProxyType: "tcp", RemotePort: 20001})
		w.Quiesce()
		switch mode {
		case "proxy-reject", "proxy-error":
			if strings.HasPrefix(r, "ok") {
				vs.Fail("%s: registration proceeded: %s", mode, r)
			}
			if len(w.H.BoundTCP()) > 1 {
				vs.Fail("%s: a port was bound: %v", mode, w.H.BoundTCP())
			}
		case "proxy-rewrite":
			if r != "ok:20002" || w.H.TCPListenerOn(20002) == nil || w.H.TCPListenerOn(20001) != nil {
				vs.Fail("plugin rewrote the remote port to 20002: answer %s, bound %v", r, w.H.BoundTCP())
			}
		default:
			if r != "ok:20001" {
				vs.Fail("%s: registration: %s", mode, r)
			}
		}
		port := 20001
		if mode == "proxy-rewrite" {
			port = 20002
		}
		if strings.HasPrefix(r, "ok") {
			reqs := a.Reqs
			who, e := w.UserEcho("10.9.1.1:1", port, "x")
			w.Quiesce()
			switch mode {
			case "user-reject":
				if e == "" {
					vs.Fail("user connection rejected by the plugin was served by %s", who)
				}
				if a.Reqs != reqs {
					vs.Fail("rejected user connection consumed a work connection request")
				}
			case "work-reject":
				if e == "" {
					vs.Fail("work connection rejected by the plugin but the user was served by %s", who)
				}
				for _, wr := range w.Works {
					if wr.Started {
						vs.Fail("work connection rejected by the plugin was started")
					}
					if !wr.Conn.PeerClosed() {
						vs.Fail("work connection rejected by the plugin was not closed")
					}
				}
			default:
				if e != "" {
					vs.Fail("%s: user not served: %s", mode, e)
				}
			}
		}
		if mode == "ping-reject" {
			// valid pings that the plugin rejects must not refresh liveness
			for i := 0; i < 12 && !a.Closed; i++ {
				a.SendPing(nil)
				time.Sleep(time.Second)
			}
			if !a.Closed {
				vs.Fail("every heartbeat was rejected by the plugin but the session stayed alive for 12 s with a 4 s timeout")
			}
		}
		// close notifications: explicit close and session end
		p.log = nil
		if mode == "close-error" && strings.HasPrefix(r, "ok") {
			// the session ends with three proxies while the plugin fails every notification: each is still attempted
			a.Reg(&msg.NewProxy{ProxyName: "t2", ProxyType: "tcp", RemotePort: 20003})
			a.Reg(&msg.NewProxy{ProxyName: "t3", ProxyType: "tcp", RemotePort: 20000})
			w.Quiesce()
			a.Cut()
		} else if mode == "relogin-close" && strings.HasPrefix(r, "ok") {
			// the session is replaced by a re-login with its run id: its proxies stop, each with its notification
			a.Reg(&msg.NewProxy{ProxyName: "t2", ProxyType: "tcp", RemotePort: 20003})
			w.Quiesce()
			if a2, _, err := w.Login("a2", sw.LoginOpt{User: "ua", RunID: a.RunID}); err != nil {
				vs.Fail("re-login refused: %v", err)
			} else {
				w.Quiesce()
				a2.Cut()
			}
		} else if strings.HasPrefix(r, "ok") && !a.Closed {
			a.Reg(&msg.NewProxy{ProxyName: "t2", ProxyType: "tcp", RemotePort: 20003})
			a.CloseProxy("t")
			w.Quiesce()
			a.Cut()
		}
		w.Quiesce()
		vs.SetInterest(false)
		var closes []string
		for _, l := range p.log {
			if strings.HasPrefix(l, "CloseProxy:") {
				closes = append(closes, strings.TrimPrefix(l, "CloseProxy:"))
			}
		}
		sort.Strings(closes)
		if strings.HasPrefix(r, "ok") && mode != "ping-reject" {
			want := "[t]"
			if mode != "proxy-reject" {
				want = "[t t2]"
			}
			if mode == "close-error" {
				want = "[t t2 t3]"
			}
			if fmt.Sprint(closes) != want {
				vs.Fail("%s: close-proxy notifications %v, proxies that stopped %s", mode, closes, want)
			}
		}
		vs.Observe("%s reg=%s closes=%v", mode, r, closes)
		w.Teardown()
	}
}

var modes = []string{"accept", "login-rewrite", "login-reject", "login-error", "proxy-rewrite", "proxy-reject", "proxy-error", "ping-reject", "work-reject", "user-reject", "close-error", "relogin-close"}

func scenarios() {
	for _, m := range modes {
		vs.Register(&vs.Scenario{Name: "site/" + m, Horizon: 300 * time.Second, MaxSteps: 100000, NoEarlyTick: true, End: sw.StdEnd, Body: scSites(m)})
	}
}

func main() {
	c := drv.Setup("C15", "e1", "model_checking", scenarios)
	if c == nil {
		return
	}
	c.Rule("E1: real frps with an in-memory plugin registered for all operations; 10 plugin behaviours (accept, rewrite login user, reject / error on login, rewrite remote port, reject / error on new proxy, reject ping, reject work connection, reject user connection, error on every close notification); oracle: the server acts on the rewritten content, refused operations leave nothing behind, rejected pings do not refresh liveness, close notifications = proxies that stopped (explicit close, session end, session replaced by a re-login with its run id); all schedules with at most B deviations")
	for i, m := range modes {
		c.ExploreBoth("site/"+m, drv.Pick(c, 1, 2), 1.0/float64(len(modes)-i))
	}
	c.Finish()
}
