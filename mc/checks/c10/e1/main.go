// C10 — everything a proxy or session held is released on every termination path.
package main

import (
	"fmt"
	"io"
	"net"
	"strings"
	"sync"
	"sync/atomic"
	"time"

	libio "github.com/fatedier/golib/io"

	"github.com/fatedier/frp/pkg/msg"
	netpkg "github.com/fatedier/frp/pkg/util/net"

	"verif/mc/drv"
	"verif/mc/vs"
	sw "verif/mc/worlds/srvworld"
)

const (
	muxPort   = 7500
	httpPort  = 7080
	httpsPort = 7443
)

func newWorld(x *vs.Exec, hb int64) *sw.World {
	return sw.New(x, sw.Opt{AllowPorts: sw.P(20000, 20003), MaxPortsPerClient: 8, UserConnTimeout: 5, HeartbeatTimeout: hb, TCPMuxPort: muxPort, HTTPPort: httpPort, HTTPSPort: httpsPort, SubDomainHost: "sub.example.org"})
}

type ptype struct {
	reg     func(name string) *msg.NewProxy
	traffic func(w *sw.World, name, src string) string // "" if this type has no cheap user traffic in E1
}

func tcpTraffic(port int) func(w *sw.World, name, src string) string {
	return func(w *sw.World, name, src string) string {
		_, e := w.UserEcho(src, port, "data-"+src)
		return e
	}
}

var types = map[string]ptype{
	"tcp": {func(n string) *msg.NewProxy { return &msg.NewProxy{ProxyName: n, ProxyType: "tcp", RemotePort: 20001} }, tcpTraffic(20001)},
	"tcp0": {func(n string) *msg.NewProxy { return &msg.NewProxy{ProxyName: n, ProxyType: "tcp", RemotePort: 0} }, nil},
	"tcpgroup": {func(n string) *msg.NewProxy {
		return &msg.NewProxy{ProxyName: n, ProxyType: "tcp", RemotePort: 20002, Group: "G", GroupKey: "k"}
	}, tcpTraffic(20002)},
	"tcpgroup0": {func(n string) *msg.NewProxy {
		return &msg.NewProxy{ProxyName: n, ProxyType: "tcp", RemotePort: 0, Group: "G0", GroupKey: "k"}
	}, nil},
	"udp": {func(n string) *msg.NewProxy { return &msg.NewProxy{ProxyName: n, ProxyType: "udp", RemotePort: 20001} }, nil},
	"tcplim": {func(n string) *msg.NewProxy {
		return &msg.NewProxy{ProxyName: n, ProxyType: "tcp", RemotePort: 20001, BandwidthLimit: "64KB", BandwidthLimitMode: "server"}
	}, tcpTraffic(20001)},
	"udplim": {func(n string) *msg.NewProxy {
		return &msg.NewProxy{ProxyName: n, ProxyType: "udp", RemotePort: 20001, BandwidthLimit: "64KB", BandwidthLimitMode: "server"}
	}, nil},
	"http": {func(n string) *msg.NewProxy {
		return &msg.NewProxy{ProxyName: n, ProxyType: "http", CustomDomains: []string{"a.example.com", "B.Example.COM"}, Locations: []string{"/", "/x"}}
	}, nil},
	"httpsub": {func(n string) *msg.NewProxy {
		return &msg.NewProxy{ProxyName: n, ProxyType: "http", SubDomain: "www", HTTPUser: "u", HTTPPwd: "p"}
	}, nil},
	"httpgroup": {func(n string) *msg.NewProxy {
		return &msg.NewProxy{ProxyName: n, ProxyType: "http", CustomDomains: []string{"G.example.Com"}, Group: "HG", GroupKey: "k"}
	}, nil},
	"https": {func(n string) *msg.NewProxy {
		return &msg.NewProxy{ProxyName: n, ProxyType: "https", CustomDomains: []string{"s.example.com", "T.Example.com"}}
	}, nil},
	"tcpmux": {func(n string) *msg.NewProxy {
		return &msg.NewProxy{ProxyName: n, ProxyType: "tcpmux", Multiplexer: "httpconnect", CustomDomains: []string{"m.example.com", "N.example.COM"}}
	}, func(w *sw.World, name, src string) string {
		u, e := w.ConnectMux(src, "m.example.com", "")
		if u != nil {
			defer u.Close()
		}
		if e != "" {
			return e
		}
		return sw.Echo(u, "data-"+src)
	}},
	"tcpmuxgroup": {func(n string) *msg.NewProxy {
		return &msg.NewProxy{ProxyName: n, ProxyType: "tcpmux", Multiplexer: "httpconnect", CustomDomains: []string{"MG.example.com"}, Group: "MG", GroupKey: "k"}
	}, nil},
	"stcp": {func(n string) *msg.NewProxy { return &msg.NewProxy{ProxyName: n, ProxyType: "stcp", Sk: "sk", AllowUsers: []string{"*"}} },
		func(w *sw.World, name, src string) string {
			u, e := w.Visitor(src, &msg.NewVisitorConn{ProxyName: name}, "sk")
			if u != nil {
				defer u.Close()
			}
			if e != "" {
				return e
			}
			return sw.Echo(u, "data-"+src)
		}},
	"sudp": {func(n string) *msg.NewProxy { return &msg.NewProxy{ProxyName: n, ProxyType: "sudp", Sk: "sk"} }, nil},
	"xtcp": {func(n string) *msg.NewProxy { return &msg.NewProxy{ProxyName: n, ProxyType: "xtcp", Sk: "sk"} }, nil},
}

var typeOrder = []string{"tcp", "tcp0", "tcpgroup", "tcpgroup0", "udp", "tcplim", "udplim", "http", "httpsub", "httpgroup", "https", "tcpmux", "tcpmuxgroup", "stcp", "sudp", "xtcp"}

// term: register, use, terminate by `how`, check everything is back, register the identical proxy again; twice.
func scTerm(tname, how string) func(x *vs.Exec) {
	pt := types[tname]
	return func(x *vs.Exec) {
		defer sw.Guard()
		hb := int64(-1)
		if how == "hbtimeout" {
			hb = 3
		}
		silent := map[*sw.Peer]bool{}
		pinger := func(p *sw.Peer) {
			if hb <= 0 {
				return
			}
			go func() {
				for i := 0; i < 400 && !p.Closed && !silent[p]; i++ {
					p.SendPing(nil)
					time.Sleep(time.Second)
				}
			}()
		}
		w := newWorld(x, hb)
		// an unrelated proxy of another client must stay untouched throughout
		o := w.MustLogin("o", sw.LoginOpt{})
		if r := o.Reg(&msg.NewProxy{ProxyName: "other", ProxyType: "tcp", RemotePort: 20003}); r != "ok:20003" {
			vs.Fail("setup other: %s", r)
			return
		}
		// ... and so must its routes on the very hosts the terminating proxy uses, told apart only by the routing user
		for _, m := range []*msg.NewProxy{
			{ProxyName: "other-http", ProxyType: "http", CustomDomains: []string{"a.example.com"}, RouteByHTTPUser: "ou"},
			{ProxyName: "other-mux", ProxyType: "tcpmux", Multiplexer: "httpconnect", CustomDomains: []string{"m.example.com"}, RouteByHTTPUser: "ou"}} {
			if r := o.Reg(m); !strings.HasPrefix(r, "ok") {
				vs.Fail("setup %s: %s", m.ProxyName, r)
				return
			}
		}
		pinger(o) // the bystander keeps sending heartbeats
		a := w.MustLogin("a", sw.LoginOpt{User: "ua", PoolCount: 1})
		pinger(a)
		w.UserEcho("10.6.0.1:899", 20003, "warm-up") // brings the bystander's pool to its steady state
		w.Quiesce()
		base := w.DumpWithout("a")
		var census, detail []string
		gen := 0
		for cycle := 1; cycle <= 2; cycle++ {
			when := fmt.Sprintf("cycle %d, %s terminated by %s", cycle, tname, how)
			vs.SetInterest(cycle == 1)
			r := a.Reg(pt.reg("p"))
			if !strings.HasPrefix(r, "ok") {
				vs.Fail("%s: identical registration refused: %s", when, r)
				return
			}
			if pt.traffic != nil {
				if e := pt.traffic(w, "p", fmt.Sprintf("10.5.%d.1:900", cycle)); e != "" {
					vs.Fail("%s: user traffic failed: %s", when, e)
				}
			}
			switch how {
			case "close":
				a.CloseProxy("p")
				w.Quiesce()
				// on the same session right after the close request
			case "cut":
				a.Cut()
				w.Quiesce()
				gen++
				a = w.MustLogin(fmt.Sprintf("a%d", gen), sw.LoginOpt{User: "ua", PoolCount: 1})
			case "relogin":
				gen++
				a2, _, err := w.Login(fmt.Sprintf("a%d", gen), sw.LoginOpt{User: "ua", PoolCount: 1, RunID: a.RunID})
				if err != nil {
					vs.Fail("%s: re-login refused: %v", when, err)
					return
				}
				a2.AutoWork()
				a = a2
			case "hbtimeout":
				// the client falls silent; the server must drop it and release everything
				silent[a] = true
				t0 := x.Now()
				vs.Block("await-drop", func() bool { return a.Closed || x.Now() > t0+60*time.Second })
				if !a.Closed {
					vs.Fail("%s: silent client not dropped after 60s (timeout 3s)", when)
					return
				}
				w.Quiesce()
				gen++
				a = w.MustLogin(fmt.Sprintf("a%d", gen), sw.LoginOpt{User: "ua", PoolCount: 1})
				pinger(a)
			}
			vs.SetInterest(false)
			w.Quiesce()
			if how != "relogin" {
				if d := w.DumpWithout(a.Name); d != base {
					vs.Fail("%s: server state differs from the state before the registration:\n%s--- before:\n%s", when, d, base)
				}
			}
			if who, e := w.UserEcho(fmt.Sprintf("10.6.%d.1:901", cycle), 20003, "bystander"); e != "" || who != "o/other" {
				vs.Fail("%s: unrelated proxy disturbed: who=%q err=%s", when, who, e)
			}
			w.Quiesce()
			time.Sleep(90 * time.Second) // "shortly after": retry sleeps and the 60 s read deadline of a stopped udp proxy's last work connection have elapsed
			w.Quiesce()
			census = append(census, w.Census())
			detail = append(detail, w.CensusDetail())
		}
		if census[0] != census[1] {
			vs.Fail("%s terminated by %s: footprint grows across identical cycles: %s then %s\n-- after cycle 1:\n%s\n-- after cycle 2:\n%s", tname, how, census[0], census[1], detail[0], detail[1])
		}
		vs.Observe("census %v", census)
		w.Teardown()
		if d := w.Dump(); d != w.Base {
			vs.Fail("state after teardown differs from initial:\n%s", d)
		}
	}
}

// cutany: the control connection is cut at an arbitrary point of register / traffic / close.
func scCutAny(tname string) func(x *vs.Exec) {
	pt := types[tname]
	return func(x *vs.Exec) {
		defer sw.Guard()
		w := newWorld(x, -1)
		a := w.MustLogin("a", sw.LoginOpt{User: "ua", PoolCount: 1})
		w.Quiesce()
		vs.SetInterest(true)
		go func() {
			vs.Fault("cut control connection")
			a.Cut()
		}()
		r := a.Reg(pt.reg("p"))
		if strings.HasPrefix(r, "ok") && pt.traffic != nil {
			pt.traffic(w, "p", "10.5.0.1:900")
		}
		if !a.Closed {
			a.CloseProxy("p")
		}
		w.Quiesce()
		vs.SetInterest(false)
		vs.Observe("reg=%s cut=%v", strings.SplitN(r, ":", 2)[0], a.Closed)
		if a.Closed {
			w.Quiesce()
			if d := w.Dump(); d != w.Base {
				vs.Fail("control connection cut during %s registration/use: resources left behind:\n%s", tname, d)
			}
		}
		// a new session registers the identical proxy
		b := w.MustLogin("b", sw.LoginOpt{User: "ua", PoolCount: 1})
		if !a.Closed {
			a.Cut()
			w.Quiesce()
		}
		if r := b.Reg(pt.reg("p")); !strings.HasPrefix(r, "ok") {
			vs.Fail("identical registration on a new session after the old one ended is refused: %s", r)
		}
		w.Teardown()
		if d := w.Dump(); d != w.Base {
			vs.Fail("state after teardown differs from initial:\n%s", d)
		}
	}
}

// partial: a multi-resource registration fails part-way.
func scPartial(kind string) func(x *vs.Exec) {
	return func(x *vs.Exec) {
		defer sw.Guard()
		w := newWorld(x, -1)
		a, b := w.MustLogin("a", sw.LoginOpt{}), w.MustLogin("b", sw.LoginOpt{})
		var blocker, victim, retry *msg.NewProxy
		switch kind {
		case "http-2nd-domain":
			blocker = &msg.NewProxy{ProxyName: "blk", ProxyType: "http", CustomDomains: []string{"b.example.com"}}
			victim = &msg.NewProxy{ProxyName: "v", ProxyType: "http", CustomDomains: []string{"a.example.com", "b.example.com"}}
			retry = &msg.NewProxy{ProxyName: "v", ProxyType: "http", CustomDomains: []string{"a.example.com"}}
		case "http-2nd-location":
			blocker = &msg.NewProxy{ProxyName: "blk", ProxyType: "http", CustomDomains: []string{"a.example.com"}, Locations: []string{"/y"}}
			victim = &msg.NewProxy{ProxyName: "v", ProxyType: "http", CustomDomains: []string{"a.example.com"}, Locations: []string{"/x", "/y"}}
			retry = &msg.NewProxy{ProxyName: "v", ProxyType: "http", CustomDomains: []string{"a.example.com"}, Locations: []string{"/x"}}
		case "https-2nd-domain":
			blocker = &msg.NewProxy{ProxyName: "blk", ProxyType: "https", CustomDomains: []string{"t.example.com"}}
			victim = &msg.NewProxy{ProxyName: "v", ProxyType: "https", CustomDomains: []string{"s.example.com", "t.example.com"}}
			retry = &msg.NewProxy{ProxyName: "v", ProxyType: "https", CustomDomains: []string{"s.example.com"}}
		case "tcpmux-2nd-domain":
			blocker = &msg.NewProxy{ProxyName: "blk", ProxyType: "tcpmux", Multiplexer: "httpconnect", CustomDomains: []string{"n.example.com"}}
			victim = &msg.NewProxy{ProxyName: "v", ProxyType: "tcpmux", Multiplexer: "httpconnect", CustomDomains: []string{"m.example.com", "n.example.com"}}
			retry = &msg.NewProxy{ProxyName: "v", ProxyType: "tcpmux", Multiplexer: "httpconnect", CustomDomains: []string{"m.example.com"}}
		case "tcpmuxgroup-2nd-domain":
			blocker = &msg.NewProxy{ProxyName: "blk", ProxyType: "tcpmux", Multiplexer: "httpconnect", CustomDomains: []string{"n.example.com"}}
			victim = &msg.NewProxy{ProxyName: "v", ProxyType: "tcpmux", Multiplexer: "httpconnect", CustomDomains: []string{"m.example.com", "n.example.com"}, Group: "MG", GroupKey: "k"}
			retry = &msg.NewProxy{ProxyName: "v", ProxyType: "tcpmux", Multiplexer: "httpconnect", CustomDomains: []string{"m.example.com"}, Group: "MG", GroupKey: "k"}
		case "httpgroup-2nd-domain":
			blocker = &msg.NewProxy{ProxyName: "blk", ProxyType: "http", CustomDomains: []string{"b.example.com"}}
			victim = &msg.NewProxy{ProxyName: "v", ProxyType: "http", CustomDomains: []string{"a.example.com", "b.example.com"}, Group: "HG", GroupKey: "k"}
			retry = &msg.NewProxy{ProxyName: "v", ProxyType: "http", CustomDomains: []string{"a.example.com"}, Group: "HG", GroupKey: "k"}
		case "http-subdomain", "https-subdomain", "tcpmux-subdomain":
			// the custom domains succeed, the sub-domain — the last step — is taken by another client
			typ := strings.TrimSuffix(kind, "-subdomain")
			mk := func(name string, domains []string, sub string) *msg.NewProxy {
				m := &msg.NewProxy{ProxyName: name, ProxyType: typ, CustomDomains: domains, SubDomain: sub}
				if typ == "tcpmux" {
					m.Multiplexer = "httpconnect"
				}
				return m
			}
			blocker = mk("blk", nil, "taken")
			victim = mk("v", []string{"c1.example.com", "C2.Example.com"}, "taken")
			retry = mk("v", []string{"c1.example.com", "C2.Example.com"}, "free")
		case "name-taken":
			blocker = &msg.NewProxy{ProxyName: "v", ProxyType: "tcp", RemotePort: 20002}
			victim = &msg.NewProxy{ProxyName: "v", ProxyType: "tcp", RemotePort: 20001}
			retry = &msg.NewProxy{ProxyName: "v2", ProxyType: "tcp", RemotePort: 20001}
		case "port-taken":
			blocker = &msg.NewProxy{ProxyName: "blk", ProxyType: "tcp", RemotePort: 20001}
			victim = &msg.NewProxy{ProxyName: "v", ProxyType: "tcp", RemotePort: 20001}
			retry = &msg.NewProxy{ProxyName: "v", ProxyType: "tcp", RemotePort: 20002}
		case "udp-port-taken":
			blocker = &msg.NewProxy{ProxyName: "blk", ProxyType: "udp", RemotePort: 20001}
			victim = &msg.NewProxy{ProxyName: "v", ProxyType: "udp", RemotePort: 20001}
			retry = &msg.NewProxy{ProxyName: "v", ProxyType: "udp", RemotePort: 20002}
		case "tcp-listen-fails", "tcpgroup-listen-fails", "udp-listen-fails":
			typ, net := "tcp", "tcp"
			if kind == "udp-listen-fails" {
				typ, net = "udp", "udp"
			}
			victim = &msg.NewProxy{ProxyName: "v", ProxyType: typ, RemotePort: 20001}
			if kind == "tcpgroup-listen-fails" {
				victim.Group, victim.GroupKey = "G", "k"
			}
			retry = victim
			w.H.FailListenNth(net, 20001, 2) // after the manager's availability probe
		}
		if blocker != nil {
			if r := b.Reg(blocker); !strings.HasPrefix(r, "ok") {
				vs.Fail("setup blocker: %s", r)
				return
			}
		}
		w.Quiesce()
		before := w.Dump()
		vs.SetInterest(true)
		r := a.Reg(victim)
		vs.SetInterest(false)
		w.Quiesce()
		if strings.HasPrefix(r, "ok") {
			vs.Fail("%s: registration expected to fail part-way succeeded: %s", kind, r)
		}
		if d := w.Dump(); d != before {
			vs.Fail("%s: a registration that failed part-way left resources behind:\n%s--- before:\n%s", kind, d, before)
		}
		if r := a.Reg(retry); !strings.HasPrefix(r, "ok") {
			vs.Fail("%s: registration of the part that did not conflict is refused afterwards: %s", kind, r)
		}
		w.Teardown()
		if d := w.Dump(); d != w.Base {
			vs.Fail("state after teardown differs from initial:\n%s", d)
		}
	}
}

// ---- wrappers: Close from 1-2 threads, 1-3 times => exactly one underlying close and one callback ----

type countConn struct {
	net.Conn
	closes int32
}

func (c *countConn) Close() error { atomic.AddInt32(&c.closes, 1); return nil }
func (c *countConn) Read(p []byte) (int, error)  { return 0, io.EOF }
func (c *countConn) Write(p []byte) (int, error) { return len(p), nil }

func scWrapper(kind string) func(x *vs.Exec) {
	return func(x *vs.Exec) {
		under := &countConn{}
		var cb int32
		var wrapped io.Closer
		wantCB := int32(1)
		switch kind {
		case "closenotify":
			wrapped = netpkg.WrapCloseNotifyConn(under, func() { atomic.AddInt32(&cb, 1) })
		case "stats":
			wrapped = netpkg.WrapStatsConn(under, func(r, w int64) { atomic.AddInt32(&cb, 1) })
		case "rwc":
			wrapped = libio.WrapReadWriteCloser(under, under, func() error { atomic.AddInt32(&cb, 1); return under.Close() })
		case "rwcconn":
			rwc := libio.WrapReadWriteCloser(under, under, func() error { atomic.AddInt32(&cb, 1); return under.Close() })
			wrapped = netpkg.WrapReadWriteCloserToConn(rwc, under)
		case "encryption":
			e, err := libio.WithEncryption(under, []byte("k"))
			if err != nil {
				vs.Fail("WithEncryption: %v", err)
				return
			}
			wrapped = e
			wantCB = 0
		case "compression":
			wrapped = libio.WithCompression(under)
			wantCB = 0
		}
		var wg sync.WaitGroup
		vs.SetInterest(true)
		for t := 0; t < 2; t++ {
			wg.Add(1)
			go func(t int) {
				defer wg.Done()
				for i := 0; i <= t; i++ {
					wrapped.Close()
				}
			}(t)
		}
		wg.Wait()
		vs.SetInterest(false)
		if n := atomic.LoadInt32(&under.closes); n != 1 {
			vs.Fail("%s wrapper closed 3 times from 2 threads: underlying connection closed %d times, expected exactly 1", kind, n)
		}
		if n := atomic.LoadInt32(&cb); n != wantCB {
			vs.Fail("%s wrapper closed 3 times from 2 threads: callback ran %d times, expected %d", kind, n, wantCB)
		}
	}
}

func scenarios() {
	vs.ScenarioFactory = func(name string) *vs.Scenario {
		s := &vs.Scenario{Name: name, Horizon: 1000 * time.Second, MaxSteps: 80000, NoEarlyTick: true, End: sw.StdEnd}
		f := strings.Split(name, "/")
		switch f[0] {
		case "term":
			s.Body = scTerm(f[1], f[2])
		case "cutany":
			s.Body = scCutAny(f[1])
		case "partial":
			s.Body = scPartial(f[1])
		case "wrapper":
			s.Body = scWrapper(f[1])
			s.End = func(x *vs.Exec) string { return "" }
		default:
			return nil
		}
		return s
	}
}

func main() {
	c := drv.Setup("C10", "e1", "model_checking", scenarios)
	if c == nil {
		return
	}
	c.Rule("E1: real frps on the virtual network/clock; for each of 16 proxy shapes (incl. a tcp group on a server-chosen port) x {close request, connection cut, re-login, heartbeat timeout}: two identical register/use/terminate cycles, all schedules with at most B deviations; control connection cut injected at every scheduling point of register/use/close (fault enumeration); multi-resource registrations failing part-way; connection wrappers closed 3 times from 2 threads; non-trivial = distinct end state / observation trace")
	type run struct {
		s string
		b int
	}
	var runs []run
	for _, t := range typeOrder {
		for _, h := range []string{"close", "cut", "relogin"} {
			runs = append(runs, run{"term/" + t + "/" + h, drv.Pick(c, 1, 2)})
		}
		runs = append(runs, run{"cutany/" + t, drv.Pick(c, 1, 2)})
	}
	for _, t := range []string{"tcp", "http", "stcp"} {
		runs = append(runs, run{"term/" + t + "/hbtimeout", drv.Pick(c, 1, 1)})
	}
	for _, k := range []string{"http-2nd-domain", "http-2nd-location", "https-2nd-domain", "tcpmux-2nd-domain", "httpgroup-2nd-domain", "tcpmuxgroup-2nd-domain", "http-subdomain", "https-subdomain", "tcpmux-subdomain", "tcp-listen-fails", "tcpgroup-listen-fails", "udp-listen-fails", "name-taken", "port-taken", "udp-port-taken"} {
		runs = append(runs, run{"partial/" + k, drv.Pick(c, 1, 2)})
	}
	for _, k := range []string{"closenotify", "stats", "rwc", "rwcconn", "encryption", "compression"} {
		runs = append(runs, run{"wrapper/" + k, 3})
	}
	for i, r := range runs {
		c.ExploreBoth(r.s, r.b, 1.0/float64(len(runs)-i))
	}
	c.Finish()
}
