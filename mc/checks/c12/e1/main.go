// C12 — sessions own their proxies; names are unique; re-login replaces cleanly.
package main

import (
	"fmt"
	"regexp"
	"strings"
	"sync"
	"time"

	"context"

	"github.com/fatedier/frp/pkg/msg"
	plugin "github.com/fatedier/frp/pkg/plugin/server"

	"verif/mc/peek"

	"verif/mc/drv"
	"verif/mc/vs"
	sw "verif/mc/worlds/srvworld"
)

func newWorld(x *vs.Exec) *sw.World {
	return sw.New(x, sw.Opt{AllowPorts: sw.P(20000, 20003), UserConnTimeout: 5, HeartbeatTimeout: -1})
}

func tcp(name string, port int) *msg.NewProxy {
	return &msg.NewProxy{ProxyName: name, ProxyType: "tcp", RemotePort: port}
}

func serves(w *sw.World, port int, want string, tag string) {
	who, e := w.UserEcho("10.7.0.1:"+tag, port, "x"+tag)
	if e != "" || who != want {
		vs.Fail("user connection to port %d: served by %q (err %q), expected %s", port, who, e, want)
	}
}

// dupname: two sessions register the same proxy name at the same time.
func scDupName(x *vs.Exec) {
	defer sw.Guard()
	w := newWorld(x)
	a, b := w.MustLogin("a", sw.LoginOpt{}), w.MustLogin("b", sw.LoginOpt{})
	w.Quiesce()
	var ra, rb string
	var wg sync.WaitGroup
	wg.Add(2)
	vs.SetInterest(true)
	go func() { defer wg.Done(); ra = a.Reg(tcp("n", 20000)) }()
	go func() { defer wg.Done(); rb = b.Reg(tcp("n", 20001)) }()
	wg.Wait()
	w.Quiesce()
	vs.SetInterest(false)
	vs.Observe("ra=%s rb=%s", ra, rb)
	oka, okb := strings.HasPrefix(ra, "ok"), strings.HasPrefix(rb, "ok")
	if oka == okb {
		vs.Fail("two registrations of proxy name n: a=%s b=%s, expected exactly one to succeed", ra, rb)
	}
	w.NameConsistency("after duplicate registration")
	if oka {
		serves(w, 20000, "a/n", "1")
		if l := w.H.TCPListenerOn(20001); l != nil {
			vs.Fail("refused registration left port 20001 bound")
		}
	}
	if okb {
		serves(w, 20001, "b/n", "2")
		if l := w.H.TCPListenerOn(20000); l != nil {
			vs.Fail("refused registration left port 20000 bound")
		}
	}
	// a close request from the session that does not own the name changes nothing
	w.Quiesce()
	before := w.Dump()
	if oka {
		b.CloseProxy("n")
	} else {
		a.CloseProxy("n")
	}
	w.Quiesce()
	if d := w.Dump(); d != before {
		vs.Fail("close request from a non-owner changed the server state:\n%s--- before:\n%s", d, before)
	}
	if oka {
		serves(w, 20000, "a/n", "3")
	} else {
		serves(w, 20001, "b/n", "4")
	}
	w.Teardown()
	if d := w.Dump(); d != w.Base {
		vs.Fail("state after teardown differs from initial:\n%s", d)
	}
}

// dupsecret: the same race for secret proxies (stcp / sudp / xtcp), whose resource is an entry of the visitor-listener
// table keyed by the proxy name: the refused registration must not take the winner's entry with it.
func scDupSecret(kind string) func(x *vs.Exec) {
	return func(x *vs.Exec) {
		defer sw.Guard()
		w := newWorld(x)
		a, b := w.MustLogin("a", sw.LoginOpt{User: "ua"}), w.MustLogin("b", sw.LoginOpt{User: "ub"})
		a.AutoWork()
		b.AutoWork()
		w.Quiesce()
		var ra, rb string
		var wg sync.WaitGroup
		wg.Add(2)
		vs.SetInterest(true)
		go func() {
			defer wg.Done()
			ra = a.Reg(&msg.NewProxy{ProxyName: "n", ProxyType: kind, Sk: "key-a", AllowUsers: []string{"*"}})
		}()
		go func() {
			defer wg.Done()
			rb = b.Reg(&msg.NewProxy{ProxyName: "n", ProxyType: kind, Sk: "key-b", AllowUsers: []string{"*"}})
		}()
		wg.Wait()
		w.Quiesce()
		vs.SetInterest(false)
		oka, okb := strings.HasPrefix(ra, "ok"), strings.HasPrefix(rb, "ok")
		if oka == okb {
			vs.Fail("two registrations of %s proxy name n: a=%s b=%s, expected exactly one to succeed", kind, ra, rb)
			return
		}
		w.NameConsistency("after duplicate registration")
		winKey, loseKey, winner := "key-a", "key-b", "a"
		if okb {
			winKey, loseKey, winner = "key-b", "key-a", "b"
		}
		if kind != "xtcp" {
			c, e := w.Visitor("10.6.6.1:1", &msg.NewVisitorConn{ProxyName: "n"}, winKey)
			if e != "" {
				vs.Fail("%s proxy n is registered by session %s, but a visitor holding its key is turned away: %s", kind, winner, e)
			} else if kind == "stcp" {
				if e := sw.Echo(c, "through-the-winner"); e != "" {
					vs.Fail("%s proxy n of session %s does not carry the visitor's stream: %s", kind, winner, e)
				}
			}
			if c != nil {
				c.Close()
			}
			if c2, e := w.Visitor("10.6.6.2:2", &msg.NewVisitorConn{ProxyName: "n"}, loseKey); e == "" {
				vs.Fail("a visitor holding the key of the REFUSED registration was admitted to proxy n")
				c2.Close()
			} else if c2 != nil {
				c2.Close()
			}
		}
		w.Teardown()
		if d := w.Dump(); d != w.Base {
			vs.Fail("state after teardown differs from initial:\n%s", d)
		}
	}
}

// relogin: the client logs in again with its run id while the old session is live (and busy).
// slowHook is an in-memory server plugin whose NewProxy hook takes 45 s (virtual; longer than every read / connection timeout of the server) for the proxy named "...m":
// the old session is then still busy handling a message while the re-login arrives.
type slowHook struct{}

func (slowHook) Name() string             { return "slow" }
func (slowHook) IsSupport(op string) bool { return op == plugin.OpNewProxy }
func (slowHook) Handle(_ context.Context, _ string, content any) (*plugin.Response, any, error) {
	if c, ok := content.(plugin.NewProxyContent); ok && strings.HasSuffix(c.ProxyName, "m") {
		time.Sleep(45 * time.Second)
	}
	return &plugin.Response{Unchange: true}, nil, nil
}

func scRelogin(n int, busy bool, slow ...bool) func(x *vs.Exec) {
	return func(x *vs.Exec) {
		defer sw.Guard()
		w := newWorld(x)
		if len(slow) > 0 && slow[0] {
			peek.F(w.Svc, "pluginManager").Interface().(*plugin.Manager).Register(slowHook{})
		}
		a1 := w.MustLogin("a1", sw.LoginOpt{User: "ua", PoolCount: 1})
		if r := a1.Reg(tcp("n", 20001)); r != "ok:20001" {
			vs.Fail("setup: %s", r)
			return
		}
		w.Quiesce()
		rid := a1.RunID
		var wg sync.WaitGroup
		res := make([]string, n)
		peers := make([]*sw.Peer, n)
		vs.SetInterest(true)
		if busy {
			wg.Add(1)
			go func() { defer wg.Done(); a1.Reg(tcp("m", 20002)) }()
		}
		for i := 0; i < n; i++ {
			wg.Add(1)
			go func(i int) {
				defer wg.Done()
				p, resp, err := w.Login(fmt.Sprintf("a%d", i+2), sw.LoginOpt{User: "ua", RunID: rid, PoolCount: 1})
				if err != nil {
					res[i] = fmt.Sprintf("login failed: %v", err)
					return
				}
				p.AutoWork()
				peers[i] = p
				if resp.RunID != rid {
					res[i] = "login acknowledged with another run id " + resp.RunID
					return
				}
				// the login has been acknowledged: the client's own earlier registrations must not block it
				r := p.Reg(tcp("n", 20001))
				res[i] = r
			}(i)
		}
		wg.Wait()
		w.Quiesce()
		vs.SetInterest(false)
		vs.Observe("res=%v", res)
		// which new session survived?
		var alive []*sw.Peer
		for _, p := range peers {
			if p != nil && !p.Closed {
				alive = append(alive, p)
			}
		}
		if !a1.Closed {
			vs.Fail("old session's control connection still open after re-login")
		}
		if len(alive) != 1 {
			vs.Fail("%d re-logins with the same run id: %d sessions still connected, expected exactly 1", n, len(alive))
		}
		if ss := w.Sessions(); len(ss) != 1 || ss[0] != rid {
			vs.Fail("session table holds %v, expected exactly the run id of the client", ss)
		}
		w.NameConsistency("after re-login")
		for i, p := range peers {
			if p == nil || p.Closed {
				continue
			}
			// the surviving session: its registration right after the acknowledgement must have succeeded
			if res[i] != "ok:20001" {
				// when several re-logins raced, the registration may have been sent on a session that was itself replaced
				vs.Fail("registration of the client's own proxy name right after the re-login was acknowledged: %s", res[i])
			}
			// work connections are keyed by run id: one opened by an earlier incarnation of the same client
			// (same run id) may legitimately carry the traffic
			who, e := w.UserEcho("10.7.0.1:"+fmt.Sprint(50+i), 20001, "x")
			if e != "" || !strings.HasSuffix(who, "/n") || !strings.HasPrefix(who, "a") {
				vs.Fail("user connection to port 20001 after re-login: served by %q (err %q), expected the client's proxy n", who, e)
			}
		}
		w.Teardown()
		if d := w.Dump(); d != w.Base {
			vs.Fail("state after teardown differs from initial:\n%s", d)
		}
	}
}

// takeover: a session ends, another client registers the same name and port shortly after.
func scTakeover(x *vs.Exec) {
	defer sw.Guard()
	w := newWorld(x)
	a, b := w.MustLogin("a", sw.LoginOpt{}), w.MustLogin("b", sw.LoginOpt{})
	if r := a.Reg(tcp("n", 20001)); r != "ok:20001" {
		vs.Fail("setup: %s", r)
		return
	}
	w.Quiesce()
	var rb string
	var wg sync.WaitGroup
	wg.Add(2)
	vs.SetInterest(true)
	go func() { defer wg.Done(); a.Cut() }()
	go func() { defer wg.Done(); rb = b.Reg(tcp("n", 20001)) }()
	wg.Wait()
	w.Quiesce()
	vs.SetInterest(false)
	w.NameConsistency("after takeover attempt")
	if !strings.HasPrefix(rb, "ok") {
		// refused while the old session was still live: once it has ended the identical registration succeeds
		if r := b.Reg(tcp("n", 20001)); r != "ok:20001" {
			vs.Fail("identical registration after the old session ended is refused: %s", r)
		}
		w.Quiesce()
	}
	serves(w, 20001, "b/n", "9")
	if len(w.Sessions()) != 1 {
		vs.Fail("sessions %v, expected only b", w.Sessions())
	}
	w.Teardown()
	if d := w.Dump(); d != w.Base {
		vs.Fail("state after teardown differs from initial:\n%s", d)
	}
}

// nearnames: names that differ only by surrounding blanks or letter case. Whether the server treats them as one name or
// as two is its choice; either way the rules hold for each name as the sessions sent it: a close request or the end of a
// session touches only that session's proxies, a live name stays unique, and a client's own earlier registration never
// blocks its new one.
func scNearNames(nameA string) func(x *vs.Exec) {
	return func(x *vs.Exec) {
		defer sw.Guard()
		w := newWorld(x)
		a, b, c := w.MustLogin("a", sw.LoginOpt{}), w.MustLogin("b", sw.LoginOpt{}), w.MustLogin("c", sw.LoginOpt{})
		if r := a.Reg(tcp(nameA, 20000)); r != "ok:20000" {
			vs.Fail("setup: registration of %q: %s", nameA, r)
			return
		}
		rb := b.Reg(tcp("n", 20001))
		w.Quiesce()
		bLive := strings.HasPrefix(rb, "ok")
		vs.Observe("a=%q ok, b=\"n\" %s", nameA, rb)
		w.NameConsistency("after registering near names")
		check := func(when string, tag string) {
			if !bLive {
				return
			}
			serves(w, 20001, "b/n", tag)
			if r := c.Reg(tcp("n", 20002)); strings.HasPrefix(r, "ok") {
				vs.Fail("%s: a third session registered proxy name \"n\" (%s) while session b's proxy \"n\" is live", when, r)
				c.CloseProxy("n")
				w.Quiesce()
			}
			if w.H.TCPListenerOn(20002) != nil {
				vs.Fail("%s: the refused registration left port 20002 bound", when)
			}
		}
		check("with both registered", "1")
		vs.SetInterest(true)
		a.CloseProxy(nameA)
		w.Quiesce()
		vs.SetInterest(false)
		check(fmt.Sprintf("after session a closed its proxy %q", nameA), "2")
		if r := a.Reg(tcp(nameA, 20000)); r != "ok:20000" {
			vs.Fail("session a closed its proxy %q and registers it again: %s", nameA, r)
		}
		w.Quiesce()
		check(fmt.Sprintf("after session a registered %q again", nameA), "3")
		a.Cut()
		w.Quiesce()
		check("after session a ended", "4")
		a2 := w.MustLogin("a", sw.LoginOpt{})
		if r := a2.Reg(tcp(nameA, 20000)); r != "ok:20000" {
			vs.Fail("a new session of the same client registers %q after the old session ended: %s", nameA, r)
		}
		w.Quiesce()
		w.NameConsistency("at the end")
		w.Teardown()
		if d := w.Dump(); d != w.Base {
			vs.Fail("state after teardown differs from initial:\n%s", d)
		}
	}
}

var hex16 = regexp.MustCompile(`^[0-9a-f]{16}$`)

// fresh: logins without run id get new distinct ids.
func scFresh(x *vs.Exec) {
	defer sw.Guard()
	w := newWorld(x)
	seen := map[string]bool{}
	vs.SetInterest(true)
	var wg sync.WaitGroup
	ids := make([]string, 3)
	for i := 0; i < 3; i++ {
		wg.Add(1)
		go func(i int) {
			defer wg.Done()
			p := w.MustLogin(fmt.Sprintf("c%d", i), sw.LoginOpt{})
			ids[i] = p.RunID
		}(i)
	}
	wg.Wait()
	vs.SetInterest(false)
	for _, id := range ids {
		if !hex16.MatchString(id) {
			vs.Fail("run id %q is not 16 hex digits", id)
		}
		if seen[id] {
			vs.Fail("run id %q handed out twice", id)
		}
		seen[id] = true
	}
	if len(w.Sessions()) != 3 {
		vs.Fail("3 fresh logins, session table has %d entries", len(w.Sessions()))
	}
	w.Teardown()
	if d := w.Dump(); d != w.Base {
		vs.Fail("state after teardown differs from initial:\n%s", d)
	}
}

func scenarios() {
	mk := func(name string, body func(x *vs.Exec)) {
		vs.Register(&vs.Scenario{Name: name, Horizon: 300 * time.Second, MaxSteps: 40000, NoEarlyTick: true, End: sw.StdEnd, Body: body})
	}
	mk("dupname", scDupName)
	for _, k := range []string{"stcp", "sudp", "xtcp"} {
		mk("dupsecret-"+k, scDupSecret(k))
	}
	mk("relogin1", scRelogin(1, false))
	mk("relogin1-busy", scRelogin(1, true))
	mk("relogin2", scRelogin(2, false))
	mk("relogin1-slowhook", scRelogin(1, true, true))
	mk("takeover", scTakeover)
	mk("fresh", scFresh)
	for k, n := range nearNames {
		mk("nearnames-"+k, scNearNames(n))
	}
}

var nearNames = map[string]string{"trailing": "n ", "leading": " n", "upper": "N", "tab": "n\t"}

func main() {
	c := drv.Setup("C12", "e1", "model_checking", scenarios)
	if c == nil {
		return
	}
	c.Rule("E1: real frps on the virtual network, scripted clients; every schedule with at most B deviations of: duplicate-name registration from two sessions (tcp, and the secret kinds stcp / sudp / xtcp with a visitor probing the winner afterwards), re-login with the same run id (once, while the old session is registering, twice at once), session end racing with a take-over registration, concurrent fresh logins; proxy names that differ only by surrounding blanks or letter case held by different sessions (close, re-register, session end, new session: each touches its own name only); non-trivial = distinct end state / observation trace")
	c.Assume("unpredictability of run ids is crypto/rand's; only format and distinctness are checked")
	b := drv.Pick(c, 2, 3)
	runs := []struct {
		s string
		b int
	}{{"dupname", b}, {"dupsecret-stcp", b}, {"dupsecret-sudp", b}, {"dupsecret-xtcp", b}, {"relogin1", b}, {"relogin1-busy", b - 1}, {"relogin2", b - 1}, {"relogin1-slowhook", b - 1}, {"takeover", b}, {"fresh", 1}, {"nearnames-trailing", 1}, {"nearnames-leading", 1}, {"nearnames-upper", 1}, {"nearnames-tab", 1}}
	for i, r := range runs {
		share := 1.0 / float64(len(runs)-i)
		if share < 0.4 {
			share = 0.4 // scenarios that finish early leave their time to the later ones
		}
		c.ExploreBoth(r.s, r.b, share)
	}
	c.Finish()
}
