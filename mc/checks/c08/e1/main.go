// C08 — secret proxies admit only visitors holding the key and an allowed user.
package main

import (
	"os"
	"bytes"
	"fmt"
	"io"
	"net"
	"strings"
	"sync"
	"time"

	libio "github.com/fatedier/golib/io"

	"github.com/fatedier/frp/pkg/msg"
	"github.com/fatedier/frp/pkg/util/util"

	v1 "github.com/fatedier/frp/pkg/config/v1"

	"verif/mc/drv"
	"verif/mc/peek"
	"verif/mc/vs"
	"verif/mc/vs/vnet"
	sw "verif/mc/worlds/srvworld"
	tw "verif/mc/worlds/tunworld"
)

const sk = "secret-key-1"

func newWorld(x *vs.Exec) *sw.World {
	return sw.New(x, sw.Opt{AllowPorts: sw.P(20000, 20003), UserConnTimeout: 5, HeartbeatTimeout: -1})
}

var allowLists = map[string][]string{"def": nil, "u2": {"u2"}, "star": {"*"}, "u1u2": {"u1", "u2"}}

// ownerUser is the user name of the session owning the proxy ("u1"; "" for the proxy types suffixed @nouser).
func ownerUserOf(ptype string) string {
	if strings.HasSuffix(ptype, "@nouser") {
		return ""
	}
	return "u1"
}

func allowed(allow, vuser string) bool { return allowedFor(allow, vuser, "u1") }

func allowedFor(allow, vuser, ownerUser string) bool {
	l := allowLists[allow]
	if l == nil {
		l = []string{ownerUser} // default: only the owner's user
	}
	for _, u := range l {
		if u == vuser || u == "*" {
			return true
		}
	}
	return false
}

func payloads() map[string][]byte {
	inc := make([]byte, 20000)
	for i := range inc {
		inc[i] = byte(i*7 + i>>8*13)
	}
	return map[string][]byte{"short": []byte("hello visitor"), "zeros": make([]byte, 70000), "mixed": inc}
}

// visitor: one NewVisitorConn with the given parameters against a registered secret proxy.
func scVisitor(ptype, allow, vuser, proxy, sign, runid string) func(x *vs.Exec) {
	return func(x *vs.Exec) {
		defer sw.Guard()
		w := newWorld(x)
		ownerUser := ownerUserOf(ptype)
		ptype := strings.TrimSuffix(ptype, "@nouser")
		var owner *sw.Peer
		if ownerUser == "" {
			// MustLogin would give the session a default user name
			var err error
			if owner, _, err = w.Login("owner", sw.LoginOpt{}); err != nil {
				vs.Fail("setup: login: %v", err)
				return
			}
			owner.AutoWork()
		} else {
			owner = w.MustLogin("owner", sw.LoginOpt{User: ownerUser})
		}
		vis := w.MustLogin("vis", sw.LoginOpt{User: vuser})
		if r := owner.Reg(&msg.NewProxy{ProxyName: "p", ProxyType: ptype, Sk: sk, AllowUsers: allowLists[allow]}); !strings.HasPrefix(r, "ok") {
			vs.Fail("setup: %s", r)
			return
		}
		w.Quiesce()
		before := w.Dump()
		reqs := owner.Reqs
		ts := w.Now()
		m := &msg.NewVisitorConn{ProxyName: proxy, Timestamp: ts}
		switch sign {
		case "ok":
			m.SignKey = util.GetAuthKey(sk, ts)
		case "badkey":
			m.SignKey = util.GetAuthKey("other-key", ts)
		case "stalets":
			m.SignKey = util.GetAuthKey(sk, ts-1)
		case "empty":
			m.SignKey = " "
		}
		effUser := ""
		switch runid {
		case "own":
			m.RunID, effUser = vis.RunID, vuser
		case "unk":
			m.RunID = "00000000deadbeef"
		case "owner":
			m.RunID, effUser = owner.RunID, ownerUser // claims the owner's session
		}
		vs.SetInterest(true)
		if os.Getenv("C08_DEBUG") != "" {
			vs.Observe("DEBUG dump:\n%s", w.Dump())
		}
		c, e := w.Visitor("10.8.1.1:4000", m, sk)
		want := proxy == "p" && sign == "ok" && runid != "unk" && allowedFor(allow, effUser, ownerUser)
		if want {
			if e != "" {
				vs.Fail("visitor with the right key and allowed user %q was refused: %s", effUser, e)
			} else if e2 := sw.Echo(c, "through-the-secret-proxy"); e2 != "" {
				vs.Fail("admitted visitor stream does not reach the backend: %s", e2)
			} else if recs := w.ServedBy("10.8.1.1:4000"); len(recs) != 1 || recs[0].Peer != "owner" || recs[0].Proxy != "p" {
				vs.Fail("admitted visitor bridged to %v, expected the owner's proxy p", recs)
			}
		} else {
			if e == "" {
				vs.Fail("visitor admitted although it must be refused (proxy=%s sign=%s run id=%s user=%q allow=%s)", proxy, sign, runid, effUser, allow)
			} else if !strings.HasPrefix(e, "refused:") {
				vs.Fail("refused visitor did not get an error answer: %s", e)
			}
		}
		if c != nil {
			c.Close()
		}
		vs.SetInterest(false)
		w.Quiesce()
		if !want {
			if owner.Reqs != reqs {
				vs.Fail("refused visitor request reached the proxy owner: %d work connection requests were sent to it", owner.Reqs-reqs)
			}
			for _, r := range w.Works {
				if r.Started {
					vs.Fail("refused visitor request reached the backend (work connection started for %s)", r.Src)
				}
			}
			if d := w.Dump(); d != before {
				vs.Fail("refused visitor request left state behind:\n%s--- before:\n%s", d, before)
			}
		}
		w.Teardown()
	}
}

// transparent: admitted stream with every combination of visitor-side and proxy-side encryption/compression.
func scTransparent(flags string, pl string) func(x *vs.Exec) {
	vEnc, vComp, pEnc, pComp := flags[0] == '1', flags[1] == '1', flags[2] == '1', flags[3] == '1'
	return func(x *vs.Exec) {
		defer sw.Guard()
		w := newWorld(x)
		owner := w.MustLogin("owner", sw.LoginOpt{User: "u1"})
		owner.WorkWrap = func(proxy string, c net.Conn) (io.ReadWriteCloser, error) {
			var rwc io.ReadWriteCloser = c
			var err error
			if pEnc {
				if rwc, err = libio.WithEncryption(rwc, []byte(sw.Token)); err != nil {
					return nil, err
				}
			}
			if pComp {
				rwc = libio.WithCompression(rwc)
			}
			return rwc, nil
		}
		if r := owner.Reg(&msg.NewProxy{ProxyName: "p", ProxyType: "stcp", Sk: sk, AllowUsers: []string{"*"}, UseEncryption: pEnc, UseCompression: pComp}); !strings.HasPrefix(r, "ok") {
			vs.Fail("setup: %s", r)
			return
		}
		w.Quiesce()
		c, e := w.Visitor("10.8.2.1:4100", &msg.NewVisitorConn{ProxyName: "p", UseEncryption: vEnc, UseCompression: vComp}, sk)
		if e != "" {
			vs.Fail("visitor refused: %s", e)
			return
		}
		var rwc io.ReadWriteCloser = c
		var err error
		if vEnc {
			if rwc, err = libio.WithEncryption(rwc, []byte(sk)); err != nil {
				vs.Fail("enc: %v", err)
				return
			}
		}
		if vComp {
			rwc = libio.WithCompression(rwc)
		}
		data := payloads()[pl]
		done := false
		var got []byte
		var rerr error
		go func() {
			buf := make([]byte, len(data))
			_, rerr = io.ReadFull(rwc, buf)
			got = buf
			done = true
		}()
		for off := 0; off < len(data); off += 9000 {
			end := off + 9000
			if end > len(data) {
				end = len(data)
			}
			if _, err := rwc.Write(data[off:end]); err != nil {
				vs.Fail("write: %v", err)
				break
			}
		}
		if !vs.BlockOrIdle("echo", func() bool { return done }) {
			vs.Fail("stream through stcp (visitor enc=%v comp=%v, proxy enc=%v comp=%v, payload %s): echo never completed", vEnc, vComp, pEnc, pComp, pl)
		} else if rerr != nil || !bytes.Equal(got, data) {
			vs.Fail("stream through stcp (flags %s, payload %s) altered: err=%v equal=%v", flags, pl, rerr, bytes.Equal(got, data))
		}
		var backend []byte
		for _, r := range w.Works {
			backend = append(backend, r.Got...)
		}
		if done && !bytes.Equal(backend, data) {
			vs.Fail("backend received %d bytes that differ from the %d bytes the visitor wrote (flags %s)", len(backend), len(data), flags)
		}
		rwc.Close()
		w.Teardown()
	}
}

// xtcp: a NAT-hole visitor request on the visitor's control connection.
func scXTCP(allow, vuser, proxy, sign string, precheck bool) func(x *vs.Exec) {
	return func(x *vs.Exec) {
		defer sw.Guard()
		w := newWorld(x)
		owner := w.MustLogin("owner", sw.LoginOpt{User: "u1"})
		vis := w.MustLogin("vis", sw.LoginOpt{User: vuser})
		if r := owner.Reg(&msg.NewProxy{ProxyName: "p", ProxyType: "xtcp", Sk: sk, AllowUsers: allowLists[allow]}); !strings.HasPrefix(r, "ok") {
			vs.Fail("setup: %s", r)
			return
		}
		w.Quiesce()
		reqs := owner.Reqs
		ts := w.Now()
		m := &msg.NatHoleVisitor{TransactionID: "tx1", ProxyName: proxy, PreCheck: precheck, Protocol: "quic", Timestamp: ts,
			MappedAddrs: []string{"1.2.3.4:1000", "1.2.3.4:1000"}, AssistedAddrs: []string{"192.168.0.2:7"}}
		switch sign {
		case "ok":
			m.SignKey = util.GetAuthKey(sk, ts)
		case "badkey":
			m.SignKey = util.GetAuthKey("other", ts)
		case "stalets":
			m.SignKey = util.GetAuthKey(sk, ts-1)
		}
		vs.SetInterest(true)
		vis.Send(m)
		okUser := allowed(allow, vuser)
		live := proxy == "p"
		var resp *msg.NatHoleResp
		got := false
		go func() {
			if r := vis.Await(&msg.NatHoleResp{}, nil); r != nil {
				resp = r.(*msg.NatHoleResp)
			}
			got = true
		}()
		vs.BlockOrIdle("natholeresp", func() bool { return got })
		vs.SetInterest(false)
		w.Quiesce()
		sidDelivered := false
		for _, r := range w.Works {
			if r.Sid != "" {
				sidDelivered = true
			}
		}
		if precheck {
			wantOK := live && okUser
			if resp == nil {
				vs.Fail("pre-check got no answer")
			} else if (resp.Error == "") != wantOK {
				vs.Fail("pre-check for proxy=%s user=%q allow=%s answered error=%q, expected ok=%v", proxy, vuser, allow, resp.Error, wantOK)
			}
			if sidDelivered || owner.Reqs != reqs {
				vs.Fail("pre-check reached the proxy owner")
			}
		} else {
			admit := live && sign == "ok" && okUser
			if admit {
				if !sidDelivered {
					vs.Fail("correctly signed NAT-hole request of allowed user %q did not reach the proxy owner", vuser)
				}
			} else {
				if sidDelivered || owner.Reqs != reqs {
					vs.Fail("NAT-hole request that must be refused (proxy=%s sign=%s user=%q allow=%s) reached the proxy owner", proxy, sign, vuser, allow)
				}
				if resp == nil || resp.Error == "" {
					vs.Fail("NAT-hole request that must be refused got no error answer: %+v", resp)
				}
			}
		}
		// whatever happened, no session state survives completion / timeout
		time.Sleep(120 * time.Second)
		w.Quiesce()
		if n := peek.F(w.Svc, "rc.NatHoleController.sessions").Len(); n != 0 {
			vs.Fail("%d NAT-hole session(s) still in the server's table 120 s after a request (proxy=%s sign=%s user=%q allow=%s precheck=%v)", n, proxy, sign, vuser, allow, precheck)
		}
		w.Teardown()
	}
}

// race: a visitor arrives while the proxy is being registered / closed / its owner disconnects.
func scRace(ptype, what string) func(x *vs.Exec) {
	return func(x *vs.Exec) {
		defer sw.Guard()
		w := newWorld(x)
		owner := w.MustLogin("owner", sw.LoginOpt{User: "u1"})
		vis := w.MustLogin("vis", sw.LoginOpt{User: "u2"})
		np := &msg.NewProxy{ProxyName: "p", ProxyType: ptype, Sk: sk, AllowUsers: []string{"u2"}}
		if what != "register" {
			if r := owner.Reg(np); !strings.HasPrefix(r, "ok") {
				vs.Fail("setup: %s", r)
				return
			}
		}
		w.Quiesce()
		var wg sync.WaitGroup
		wg.Add(2)
		vs.SetInterest(true)
		go func() {
			defer wg.Done()
			switch what {
			case "register":
				owner.Reg(np)
			case "close":
				owner.CloseProxy("p")
			case "disconnect":
				owner.Cut()
			}
		}()
		var verr string
		go func() {
			defer wg.Done()
			if ptype == "xtcp" {
				ts := w.Now()
				vis.Send(&msg.NatHoleVisitor{TransactionID: "tx", ProxyName: "p", Protocol: "quic", Timestamp: ts, SignKey: util.GetAuthKey(sk, ts),
					MappedAddrs: []string{"1.2.3.4:1000", "1.2.3.4:1000"}})
				return
			}
			c, e := w.Visitor("10.8.3.1:4200", &msg.NewVisitorConn{ProxyName: "p", RunID: vis.RunID}, sk)
			verr = e
			if c != nil {
				if e == "" {
					verr = sw.Echo(c, "x")
					if strings.Contains(verr, "idle") {
						vs.Fail("visitor admitted while the proxy was going away is left open without a peer: %s", verr)
					}
				}
				c.Close()
			}
		}()
		wg.Wait()
		w.Quiesce()
		vs.SetInterest(false)
		vs.Observe("visitor: %q", verr)
		time.Sleep(120 * time.Second) // NAT-hole sessions must be gone after their timeout
		w.Quiesce()
		w.Teardown()
		if d := w.Dump(); d != w.Base {
			vs.Fail("state left behind:\n%s", d)
		}
	}
}

// realvisitor: the same transparency clause with frp's own programs on both sides — a real frpc owning the stcp proxy, a
// real frpc running the visitor — for every combination of the two sides' encryption / compression flags; the stream
// carries a message, stays silent for 75 s (longer than every hand-shake deadline on the path) and carries another.
func scRealVisitor(flags string) func(x *vs.Exec) {
	vEnc, vComp, pEnc, pComp := flags[0] == '1', flags[1] == '1', flags[2] == '1', flags[3] == '1'
	return func(x *vs.Exec) {
		defer sw.Guard()
		w := tw.New(x, sw.Opt{AllowPorts: sw.P(20000, 20003), UserConnTimeout: 5, HeartbeatTimeout: -1})
		w.StartBackend(8000, "echo")
		p := &v1.STCPProxyConfig{}
		p.Name, p.Type, p.LocalIP, p.LocalPort, p.Secretkey = "p", "stcp", "127.0.0.1", 8000, sk
		p.Transport.UseEncryption, p.Transport.UseCompression = pEnc, pComp
		cl := w.StartClient("owner", "", []v1.ProxyConfigurer{p}, nil, nil)
		if !w.AwaitRunning(cl, 30*time.Second, "p") {
			vs.Fail("setup: proxy not running")
			return
		}
		v := &v1.STCPVisitorConfig{}
		v.Name, v.Type, v.ServerName, v.SecretKey, v.BindAddr, v.BindPort = "vp", "stcp", "p", sk, "127.0.0.1", 6000
		v.Transport.UseEncryption, v.Transport.UseCompression = vEnc, vComp
		w.StartClient("visitor", "", nil, []v1.VisitorConfigurer{v}, nil)
		vs.Block("visitor-listening", func() bool { return w.H.TCPListenerOn(6000) != nil || x.Now() > 60*time.Second })
		w.Quiesce()
		u, err := w.H.DialFrom("10.8.3.1:4200", "127.0.0.1:6000")
		if err != nil {
			vs.Fail("realvisitor %s: cannot reach the visitor's port: %v", flags, err)
			return
		}
		exchange := func(u *vnet.StreamConn, tag string) bool {
			m := []byte("<<" + tag + " " + strings.Repeat("y", 900) + ">>")
			if _, err := u.Write(m); err != nil {
				vs.Fail("real visitor (flags %s): user write (%s) failed: %v", flags, tag, err)
				return false
			}
			buf := make([]byte, len(m))
			if _, idle, err := u.ReadFullOrIdle(buf); idle || err != nil {
				vs.Fail("real visitor (flags %s): message %s did not come back through the admitted stream (idle=%v err=%v)", flags, tag, idle, err)
				return false
			}
			if !bytes.Equal(buf, m) {
				vs.Fail("real visitor (flags %s): message %s altered", flags, tag)
				return false
			}
			return true
		}
		if exchange(u, "before the pause") {
			vs.BlockFor("pause", 75*time.Second, func() bool { return false })
			exchange(u, "after 75 s of silence")
		}
		// streams that overlap in time: a second user while the first stream is open, both used in turn, the first
		// closed, a third opened — each stream carries its own bytes only
		if u2, err := w.H.DialFrom("10.8.3.2:4201", "127.0.0.1:6000"); err != nil {
			vs.Fail("realvisitor %s: second user cannot reach the visitor's port: %v", flags, err)
		} else if exchange(u2, "second user, first stream open") && exchange(u, "first user again") && exchange(u2, "second user again") {
			u.Close()
			w.Quiesce()
			if u3, err := w.H.DialFrom("10.8.3.3:4202", "127.0.0.1:6000"); err != nil {
				vs.Fail("realvisitor %s: third user cannot reach the visitor's port: %v", flags, err)
			} else {
				_ = exchange(u3, "third user, after the first stream was closed") && exchange(u2, "second user a third time") && exchange(u3, "third user again")
				u3.Close()
			}
			u2.Close()
		}
		u.Close()
		w.Quiesce()
		w.StopAll()
	}
}

func scenarios() {
	vs.ScenarioFactory = func(name string) *vs.Scenario {
		s := &vs.Scenario{Name: name, Horizon: 1000 * time.Second, MaxSteps: 200000, NoEarlyTick: true, End: sw.StdEnd}
		f := strings.Split(name, "/")
		switch f[0] {
		case "v":
			s.Body = scVisitor(f[1], f[2], f[3], f[4], f[5], f[6])
		case "t":
			s.Body = scTransparent(f[1], f[2])
		case "rv":
			s.Body = scRealVisitor(f[1])
		case "x":
			s.Body = scXTCP(f[1], f[2], f[3], f[4], f[5] == "pre")
		case "race":
			s.Body = scRace(f[1], f[2])
		default:
			return nil
		}
		return s
	}
}

func main() {
	c := drv.Setup("C08", "e1", "model_checking", scenarios)
	if c == nil {
		return
	}
	c.Rule("E1: exhaustive product of visitor messages (proxy type x allow list x visitor user x proxy name x signature x run id) and NAT-hole requests (allow list x user x proxy x signature x pre-check) against the real frps, each compared with 'admitted iff signed with the proxy's key and user allowed'; 16 enc/comp combinations x 3 payload shapes end to end (scripted visitor), and the same 16 combinations with a real frpc as owner and a real frpc as visitor, the stream used again after 75 s of silence; races of a visitor with registration / close / owner disconnect under deviation-bounded DFS; non-trivial = distinct end state / observation trace")
	pool := vs.GetPool(c.Workers)
	var names []string
	for _, pt := range []string{"stcp", "sudp"} {
		for _, al := range []string{"def", "u2", "star", "u1u2"} {
			for _, vu := range []string{"u1", "u2", "u3"} {
				for _, px := range []string{"p", "nope"} {
					for _, sg := range []string{"ok", "badkey", "stalets", "empty"} {
						for _, rid := range []string{"none", "own", "unk", "owner"} {
							names = append(names, fmt.Sprintf("v/%s/%s/%s/%s/%s/%s", pt, al, vu, px, sg, rid))
						}
					}
				}
			}
		}
	}
	// the proxy's owner has no user name: the default allow list is then "visitors without a user name"
	for _, pt := range []string{"stcp@nouser", "sudp@nouser"} {
		for _, al := range []string{"def", "u2", "star"} {
			for _, vu := range []string{"u2", "u3"} {
				for _, rid := range []string{"none", "own", "owner"} {
					names = append(names, fmt.Sprintf("v/%s/%s/%s/p/ok/%s", pt, al, vu, rid))
				}
			}
		}
	}
	for _, al := range []string{"def", "u2", "star", "u1u2"} {
		for _, vu := range []string{"u1", "u2", "u3"} {
			for _, px := range []string{"p", "nope"} {
				for _, sg := range []string{"ok", "badkey", "stalets"} {
					for _, pre := range []string{"pre", "req"} {
						names = append(names, fmt.Sprintf("x/%s/%s/%s/%s/%s", al, vu, px, sg, pre))
					}
				}
			}
		}
	}
	for f := 0; f < 16; f++ {
		names = append(names, fmt.Sprintf("rv/%04b", f))
	}
	for f := 0; f < 16; f++ {
		for _, pl := range []string{"short", "zeros", "mixed"} {
			names = append(names, fmt.Sprintf("t/%04b/%s", f, pl))
		}
	}
	for i := 0; i < len(names); i += 256 {
		if c.TimeUp() {
			c.Cap(fmt.Sprintf("enumeration stopped by the budget after %d of %d cases", i, len(names)))
			break
		}
		j := i + 256
		if j > len(names) {
			j = len(names)
		}
		rs, err := pool.RunBatch(names[i:j], false)
		if err != nil {
			c.Cap("harness error: " + err.Error())
			break
		}
		for k := range rs {
			c.FoldExec(&rs[k])
		}
	}
	c.Sample(map[string]any{"cases": []string{names[0], names[len(names)/2], names[len(names)-1]}})
	c.Note("enumerated_cases", len(names))
	b := drv.Pick(c, 2, 3)
	races := []string{"race/stcp/close", "race/stcp/register", "race/stcp/disconnect", "race/xtcp/close", "race/xtcp/disconnect", "race/xtcp/register", "race/sudp/close"}
	for i, r := range races {
		c.Explore(r, b, 0.5/float64(len(races)-i))
		c.ExploreP(r, b, 1.0/float64(len(races)-i), 1)
	}
	// schedule deviations on representative admission cases
	for _, n := range []string{"v/stcp/u2/u2/p/ok/own", "v/stcp/def/u2/p/ok/own", "x/u2/u3/p/ok/req", "x/u2/u2/p/ok/req"} {
		c.Explore(n, 1, 0.3)
	}
	c.Finish()
}
