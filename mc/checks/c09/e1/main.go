// C09 — remote ports: whitelisted, exclusive, truthfully reported, quota-bounded.
// E1 on the real frps over the virtual network:
//  (b) BFS over sequential register/close histories of two clients against a reference allocator;
//  (c) every interleaving (deviation-bounded) of racing registrations / closes / listen failures.
package main

import (
	"fmt"
	"net"
	"reflect"
	"sort"
	"strconv"
	"strings"
	"sync"
	"time"

	"github.com/fatedier/frp/pkg/config/types"
	"github.com/fatedier/frp/pkg/msg"
	"github.com/fatedier/frp/server/ports"

	"verif/mc/drv"
	"verif/mc/peek"
	"verif/mc/vs"
	"verif/mc/vs/vnet"
	"verif/mc/worlds/srvworld"
)

type reflectValue = reflect.Value

const (
	lo, hi = 20000, 20002
	quota  = 2
)

func allowed(p int) bool { return p >= lo && p <= hi }

// ---- reference model of what the property promises ----

type live struct {
	owner string
	typ   string // "tcp" | "udp" | "grp"
	port  int
	req   int // requested port (group members must ask for the same one)
}

type model struct {
	live     map[string]*live  // proxy name -> holding
	reserved map[string]int    // tcp/udp name key -> last port
}

func (m *model) used(typ string, port int) bool {
	for _, l := range m.live {
		t := l.typ
		if t == "grp" {
			t = "tcp"
		}
		if t == typ && l.port == port {
			return true
		}
	}
	return false
}

func (m *model) held(owner string) int {
	n := 0
	for _, l := range m.live {
		if l.owner == owner {
			n++
		}
	}
	return n
}

func (m *model) grpMembers() int {
	n := 0
	for _, l := range m.live {
		if l.typ == "grp" {
			n++
		}
	}
	return n
}

// ---- invariants checked at every quiescent state ----

func usedPorts(w *srvworld.World, mgr string) map[int]string {
	out := map[int]string{}
	peek.Each(peek.F(w.Svc, "rc."+mgr+".usedPorts"), func(key string, _, v reflectValue) {
		p, _ := strconv.Atoi(key)
		out[p] = peek.Walk(v, "ProxyName").String()
	})
	return out
}

func checkInvariants(w *srvworld.World, m *model, when string) {
	boundT := map[int]bool{}
	for _, p := range w.H.BoundTCP() {
		if p == srvworld.BindPort {
			continue
		}
		boundT[p] = true
		if !allowed(p) {
			vs.Fail("%s: frps accepts tcp traffic on port %d outside allowPorts", when, p)
		}
	}
	boundU := map[int]bool{}
	for _, p := range w.H.BoundUDP() {
		boundU[p] = true
		if !allowed(p) {
			vs.Fail("%s: frps accepts udp traffic on port %d outside allowPorts", when, p)
		}
	}
	ut, uu := usedPorts(w, "TCPPortManager"), usedPorts(w, "UDPPortManager")
	if keys(ut) != keysB(boundT) {
		vs.Fail("%s: tcp accounting %v differs from what is really bound %v", when, keys(ut), keysB(boundT))
	}
	if keys(uu) != keysB(boundU) {
		vs.Fail("%s: udp accounting %v differs from what is really bound %v", when, keys(uu), keysB(boundU))
	}
	if m != nil {
		wantT, wantU := map[int]bool{}, map[int]bool{}
		for _, l := range m.live {
			if l.typ == "udp" {
				wantU[l.port] = true
			} else {
				wantT[l.port] = true
			}
		}
		if keysB(wantT) != keysB(boundT) || keysB(wantU) != keysB(boundU) {
			vs.Fail("%s: bound ports tcp=%v udp=%v differ from the ports of live proxies tcp=%v udp=%v", when, keysB(boundT), keysB(boundU), keysB(wantT), keysB(wantU))
		}
	}
	// quota
	peek.Each(peek.F(w.Svc, "ctlManager.ctlsByRunID"), func(key string, _, ctl reflectValue) {
		n := int(peek.Walk(ctl, "portsUsedNum").Int())
		np := peek.Walk(ctl, "proxies").Len()
		if n > quota {
			vs.Fail("%s: a session holds %d ports, quota is %d", when, n, quota)
		}
		if n != np {
			vs.Fail("%s: session port counter %d differs from its %d live proxies", when, n, np)
		}
	})
}

func keys(m map[int]string) string {
	var l []int
	for k := range m {
		l = append(l, k)
	}
	sort.Ints(l)
	return fmt.Sprint(l)
}

func keysB(m map[int]bool) string {
	var l []int
	for k := range m {
		l = append(l, k)
	}
	sort.Ints(l)
	return fmt.Sprint(l)
}

func portOf(addr string) int {
	i := strings.LastIndex(addr, ":")
	p, _ := strconv.Atoi(addr[i+1:])
	return p
}

func newWorld(x *vs.Exec) *srvworld.World {
	return srvworld.New(x, srvworld.Opt{AllowPorts: srvworld.P(lo, hi), MaxPortsPerClient: quota, UserConnTimeout: 5, HeartbeatTimeout: -1})
}

func login(w *srvworld.World, name string) *srvworld.Peer {
	p, _, err := w.Login(name, srvworld.LoginOpt{User: "u" + name})
	if err != nil {
		vs.Fail("setup: login %s: %v", name, err)
		panic("setup")
	}
	p.AutoWork()
	return p
}

func guard() {
	if r := recover(); r != nil && r != "setup" {
		panic(r)
	}
}

// ---- (b) sequential histories ----

// op syntax: <peer><+|-><kind><port>   kind: t=tcp u=udp g=tcp group   e.g. a+t0 b+t20001 a-t b+g20001
type op struct {
	peer string
	add  bool
	kind byte
	port int
}

func parseOps(s string) []op {
	var out []op
	for _, f := range strings.Split(s, ",") {
		if f == "" {
			continue
		}
		o := op{peer: f[0:1], add: f[1] == '+', kind: f[2]}
		if len(f) > 3 {
			o.port, _ = strconv.Atoi(f[3:])
		}
		out = append(out, o)
	}
	return out
}

func pxName(o op) string { return string(o.kind) + o.peer }

func scHistory(hist string) func(x *vs.Exec) {
	ops := parseOps(hist)
	return func(x *vs.Exec) {
		defer guard()
		w := newWorld(x)
		peers := map[string]*srvworld.Peer{"a": login(w, "a"), "b": login(w, "b")}
		m := &model{live: map[string]*live{}, reserved: map[string]int{}}
		for i, o := range ops {
			when := fmt.Sprintf("after op %d", i)
			p := peers[o.peer]
			name := pxName(o)
			typ := map[byte]string{'t': "tcp", 'u': "udp", 'g': "grp"}[o.kind]
			ptyp := typ
			if typ == "grp" {
				ptyp = "tcp"
			}
			before := w.Dump()
			if !o.add {
				p.CloseProxy(name)
				w.Quiesce()
				if l := m.live[name]; l != nil && l.owner == o.peer {
					delete(m.live, name)
				}
				checkInvariants(w, m, when)
				continue
			}
			nm := &msg.NewProxy{ProxyName: name, ProxyType: ptyp, RemotePort: o.port}
			if typ == "grp" {
				nm.Group, nm.GroupKey = "G", "k"
			}
			resp := p.NewProxy(nm)
			w.Quiesce()
			if resp == nil {
				vs.Fail("%s: no answer to registration", when)
				return
			}
			// what the property promises
			_, nameLive := m.live[name]
			overQuota := m.held(o.peer)+1 > quota
			mustFail, mustOK := false, false
			switch {
			case nameLive || overQuota:
				mustFail = true
			case o.port != 0 && !allowed(o.port):
				mustFail = true
			case typ == "grp" && m.grpMembers() > 0:
				// joins an existing group: same port required
				var gp int
				for _, l := range m.live {
					if l.typ == "grp" {
						gp = l.req
					}
				}
				if o.port == gp {
					mustOK = true
				} else {
					mustFail = true
				}
			case o.port != 0 && m.used(ptyp, o.port):
				mustFail = true
			case o.port != 0:
				mustOK = true
			default:
				free := 0
				for q := lo; q <= hi; q++ {
					if !m.used(ptyp, q) {
						free++
					}
				}
				if free > 0 {
					mustOK = true
				} else {
					mustFail = true
				}
			}
			ok := resp.Error == ""
			if mustFail && ok {
				vs.Fail("%s: registration %s port %d accepted although it must be refused (remote %s)", when, name, o.port, resp.RemoteAddr)
			}
			if mustOK && !ok {
				vs.Fail("%s: registration %s port %d refused although the port is allowed, free and within quota: %s", when, name, o.port, resp.Error)
			}
			if ok {
				got := portOf(resp.RemoteAddr)
				if !allowed(got) {
					vs.Fail("%s: reported remote address %s is outside allowPorts", when, resp.RemoteAddr)
				}
				if o.port != 0 && got != o.port {
					vs.Fail("%s: asked for port %d, reported %s", when, o.port, resp.RemoteAddr)
				}
				if typ != "grp" || m.grpMembers() == 0 {
					if m.used(ptyp, got) {
						vs.Fail("%s: port %d handed out twice", when, got)
					}
				}
				if o.port == 0 && (typ != "grp" || m.grpMembers() == 0) {
					if r, had := m.reserved[ptyp+"/"+name]; had && !m.used(ptyp, r) && got != r {
						vs.Fail("%s: %s asked for a server-chosen port; its previous port %d is still free but it got %d", when, name, r, got)
					}
				}
				// a member joining an existing group uses the group's port without asking the allocator for one:
				// the port is remembered for the member that obtained it
				joined := typ == "grp" && m.grpMembers() > 0
				m.live[name] = &live{owner: o.peer, typ: typ, port: got, req: o.port}
				if !joined {
					m.reserved[ptyp+"/"+name] = got
				}
				if ptyp == "tcp" {
					who, e := w.UserEcho(fmt.Sprintf("10.0.%d.1:%d", i, 1000+i), got, "hello")
					if e != "" {
						vs.Fail("%s: reported address %s does not accept user connections for %s: %s", when, resp.RemoteAddr, name, e)
					} else if typ != "grp" && who != o.peer+"/"+name {
						vs.Fail("%s: connection to %s reached %s instead of %s/%s", when, resp.RemoteAddr, who, o.peer, name)
					}
					w.Quiesce()
				}
			} else {
				w.DumpReserved = false
				if d := w.Dump(); d != before {
					vs.Fail("%s: refused registration changed the server state:\n%s--- before:\n%s", when, d, before)
				}
			}
			checkInvariants(w, m, when)
		}
		vs.Observe("%s", w.Dump())
		w.Teardown()
		checkInvariants(w, &model{live: map[string]*live{}}, "after teardown")
	}
}

// ---- (c) races ----

func regRace(kind string, first func(w *srvworld.World, a, b *srvworld.Peer) bool, t1, t2 func(w *srvworld.World, a, b *srvworld.Peer) string, after func(w *srvworld.World, a, b *srvworld.Peer, r1, r2 string)) func(x *vs.Exec) {
	return func(x *vs.Exec) {
		defer guard()
		w := newWorld(x)
		a, b := login(w, "a"), login(w, "b")
		if first != nil && !first(w, a, b) {
			return
		}
		w.Quiesce()
		var r1, r2 string
		var wg sync.WaitGroup
		wg.Add(2)
		vs.SetInterest(true)
		go func() { defer wg.Done(); r1 = t1(w, a, b) }()
		go func() { defer wg.Done(); r2 = t2(w, a, b) }()
		wg.Wait()
		w.Quiesce()
		vs.SetInterest(false)
		vs.Observe("r1=%s r2=%s", r1, r2)
		checkInvariants(w, nil, "after the race")
		after(w, a, b, r1, r2)
		w.Teardown()
		checkInvariants(w, &model{live: map[string]*live{}}, "after teardown")
		if d := w.Dump(); d != w.Base {
			vs.Fail("after teardown the server state differs from the initial one:\n%s", d)
		}
	}
}

func reg(p *srvworld.Peer, typ, name string, port int) string {
	r := p.NewProxy(&msg.NewProxy{ProxyName: name, ProxyType: typ, RemotePort: port})
	if r == nil {
		return "noanswer"
	}
	if r.Error != "" {
		return "err:" + r.Error
	}
	return "ok" + r.RemoteAddr
}

// ---- (a) the port manager alone against a reference allocator, BFS inside one execution ----

type mop struct {
	kind string // acq | rel | squat
	name string
	port int
	on   bool
}

func (o mop) String() string {
	switch o.kind {
	case "acq":
		return fmt.Sprintf("acq(%s,%d)", o.name, o.port)
	case "rel":
		return fmt.Sprintf("rel(%d)", o.port)
	}
	return fmt.Sprintf("squat(%d,%v)", o.port, o.on)
}

type mref struct {
	used     map[int]string
	reserved map[string]int
	squat    map[int]bool
	real     string // canonical dump of the real manager's own tables after the last operation
}

// realKey dumps the private tables of the real manager (ports relative to the instance's base): two histories are
// merged by the search only if the implementation, not just the reference, is in the same state.
func realKey(pm *ports.Manager) string {
	var out []string
	for _, tbl := range []string{"usedPorts", "reservedPorts"} {
		peek.Each(peek.F(pm, tbl), func(k string, _, v reflectValue) {
			if n, err := strconv.Atoi(k); err == nil {
				k = strconv.Itoa(n % 10)
			}
			out = append(out, fmt.Sprintf("%s[%s]=%s/%d/%v", tbl, k, peek.Walk(v, "ProxyName").String(), peek.Walk(v, "Port").Int()%10, peek.Walk(v, "Closed").Bool()))
		})
	}
	for _, k := range peek.MapKeys(peek.F(pm, "freePorts")) {
		n, _ := strconv.Atoi(k)
		out = append(out, fmt.Sprintf("free[%d]", n%10))
	}
	sort.Strings(out)
	return strings.Join(out, " ")
}

func (r *mref) key() string {
	return fmt.Sprint(keys(r.used), r.reserved, keysB(r.squat))
}

// applyOps replays ops on a fresh real manager (and a fresh reference) and checks every step; it returns the reference.
func applyOps(x *vs.Exec, ops []mop, base int) *mref {
	w := hostFor(x)
	lo2, hi2 := base, base+2
	pm := ports.NewManager("tcp", "127.0.0.1", []types.PortsRange{{Start: lo2, End: hi2}})
	ref := &mref{used: map[int]string{}, reserved: map[string]int{}, squat: map[int]bool{}}
	lns := map[int]net.Listener{}
	inAllow := func(p int) bool { return p >= lo2 && p <= hi2 }
	desc := func(i int) string { return fmt.Sprint(ops[:i+1]) }
	for i, o := range ops {
		port := o.port
		if port > 0 && port < 10 { // small numbers are offsets into this instance's range
			port = base + port - 1
		}
		switch o.kind {
		case "squat":
			w.Squat("tcp", port, o.on)
			if o.on {
				ref.squat[port] = true
			} else {
				delete(ref.squat, port)
			}
		case "rel":
			pm.Release(port)
			if _, ok := ref.used[port]; ok {
				delete(ref.used, port)
				if l := lns[port]; l != nil {
					l.Close()
					delete(lns, port)
				}
			}
		case "acq":
			got, err := pm.Acquire(o.name, port)
			avail := func(p int) bool { _, u := ref.used[p]; return inAllow(p) && !u && !ref.squat[p] }
			if port == 0 {
				anyFree := false
				for p := lo2; p <= hi2; p++ {
					anyFree = anyFree || avail(p)
				}
				if err != nil {
					if anyFree {
						vs.Fail("manager %s: server-chosen port refused (%v) although a port is allowed, free and available", desc(i), err)
					}
					break
				}
				if !avail(got) {
					vs.Fail("manager %s: server-chosen port %d is not allowed/free/available (used=%v squat=%v)", desc(i), got, keys(ref.used), keysB(ref.squat))
				}
				if r, had := ref.reserved[o.name]; had && avail(r) && got != r {
					vs.Fail("manager %s: previous port %d of %q is still free but %d was chosen", desc(i), r, o.name, got)
				}
			} else {
				want := avail(port)
				if want && err != nil {
					vs.Fail("manager %s: fixed port refused: %v", desc(i), err)
				}
				if !want && err == nil {
					vs.Fail("manager %s: fixed port %d granted although not allowed / owned / unavailable", desc(i), port)
				}
				if err == nil && got != port {
					vs.Fail("manager %s: asked %d got %d", desc(i), port, got)
				}
			}
			if err == nil {
				ref.used[got] = o.name
				ref.reserved[o.name] = got
				l, lerr := vnet.Listen("tcp", fmt.Sprintf("127.0.0.1:%d", got))
				if lerr != nil {
					vs.Fail("manager %s: granted port %d cannot be bound: %v", desc(i), got, lerr)
				} else {
					lns[got] = l
				}
			}
		}
		// accounting invariants
		used := peek.MapKeys(peek.F(pm, "usedPorts"))
		free := peek.MapKeys(peek.F(pm, "freePorts"))
		all := map[string]int{}
		for _, k := range used {
			all[k]++
		}
		for _, k := range free {
			all[k]++
		}
		okSet := len(all) == hi2-lo2+1
		for k, n := range all {
			p, _ := strconv.Atoi(k)
			if n != 1 || !inAllow(p) {
				okSet = false
			}
		}
		var refUsed []string
		for p := range ref.used {
			refUsed = append(refUsed, strconv.Itoa(p))
		}
		sort.Strings(refUsed)
		if !okSet || fmt.Sprint(used) != fmt.Sprint(refUsed) {
			vs.Fail("manager %s: accounting used=%v free=%v, expected used=%v and used+free = allowPorts (disjoint)", desc(i), used, free, refUsed)
		}
	}
	for _, l := range lns {
		l.Close()
	}
	for p := range ref.squat {
		w.Squat("tcp", p, false)
	}
	ref.real = realKey(pm)
	return ref
}

func hostFor(x *vs.Exec) *vnet.Host { return vnet.HostOf(x) }

func scManagerBFS(depth int) func(x *vs.Exec) {
	return func(x *vs.Exec) {
		var alphabet []mop
		for _, n := range []string{"a", "b"} {
			for _, p := range []int{0, 1, 2, 9, -1, 65536} {
				alphabet = append(alphabet, mop{kind: "acq", name: n, port: p})
			}
		}
		for _, p := range []int{1, 2, 9} {
			alphabet = append(alphabet, mop{kind: "rel", port: p})
		}
		alphabet = append(alphabet, mop{kind: "squat", port: 1, on: true}, mop{kind: "squat", port: 1, on: false})
		seen := map[string]bool{}
		frontier := [][]mop{nil}
		states, trans := 0, 0
		base := 21000
		maxTrans := 12000 * depth / 7 // about three times what the unchanged tree needs; a cap, reported as such
		capped := false
		for d := 1; d <= depth && !capped; d++ {
			var next [][]mop
			for _, h := range frontier {
				if trans > maxTrans || len(x.Fails) >= 10 {
					capped = true // enough: either the budget or ten reported deviations
					break
				}
				for _, a := range alphabet {
					nh := append(append([]mop(nil), h...), a)
					// every instance gets its own port range so that instances cannot interfere
					ref := applyOps(x, nh, base)
					base += 10
					if base > 60000 {
						base = 21000
					}
					trans++
					if k := ref.key2(); !seen[k] {
						seen[k] = true
						states++
						next = append(next, nh)
					}
				}
			}
			frontier = next
		}
		if capped {
			vs.Observe("manager BFS capped after %d transitions", trans)
		}
		vs.Observe("manager BFS depth=%d states=%d transitions=%d", depth, states, trans)
	}
}

// key2 is the canonical reference state relative to the instance's base port.
func (r *mref) key2() string {
	norm := func(p int) int { return p % 10 }
	var u, s []string
	for p, n := range r.used {
		u = append(u, fmt.Sprintf("%d:%s", norm(p), n))
	}
	for p := range r.squat {
		s = append(s, fmt.Sprint(norm(p)))
	}
	var res []string
	for n, p := range r.reserved {
		res = append(res, fmt.Sprintf("%s:%d", n, norm(p)))
	}
	sort.Strings(u)
	sort.Strings(s)
	sort.Strings(res)
	return fmt.Sprint(u, res, s, " | ", r.real)
}

func scenarios() {
	vs.ScenarioFactory = func(name string) *vs.Scenario {
		s := &vs.Scenario{Name: name, Horizon: 300 * time.Second, MaxSteps: 40000, NoEarlyTick: true, End: func(x *vs.Exec) string {
			w, _ := x.Data.(*srvworld.World)
			if w == nil {
				return "no world"
			}
			st, probs := w.EndReport(x)
			x.Fails = append(x.Fails, probs...)
			return st + strings.Join(x.Obs, "\n")
		}}
		switch {
		case strings.HasPrefix(name, "mgr/bfs"):
			d, _ := strconv.Atoi(strings.TrimPrefix(name, "mgr/bfs"))
			s.Body = scManagerBFS(d)
			s.Watchdog = 15 * time.Minute // the whole search runs inside one execution
			s.End = func(x *vs.Exec) string { return strings.Join(x.Obs, "\n") }
			s.MaxSteps = 50_000_000
		case strings.HasPrefix(name, "hist/"):
			s.Body = scHistory(strings.TrimPrefix(name, "hist/"))
		case name == "race/samefixed-tcp" || name == "race/samefixed-udp":
			typ := name[len(name)-3:]
			s.Body = regRace(typ, nil,
				func(w *srvworld.World, a, b *srvworld.Peer) string { return reg(a, typ, "pa", 20001) },
				func(w *srvworld.World, a, b *srvworld.Peer) string { return reg(b, typ, "pb", 20001) },
				func(w *srvworld.World, a, b *srvworld.Peer, r1, r2 string) {
					n := 0
					for _, r := range []string{r1, r2} {
						if strings.HasPrefix(r, "ok") {
							n++
						}
					}
					if n != 1 {
						vs.Fail("two registrations of the same fixed %s port: %d succeeded (%s / %s), expected exactly one", typ, n, r1, r2)
					}
				})
		case name == "race/zero-vs-reserved":
			s.Body = regRace("tcp",
				func(w *srvworld.World, a, b *srvworld.Peer) bool {
					r := reg(a, "tcp", "pa", 0)
					if r != "ok:20000" {
						vs.Fail("setup: expected pa on 20000, got %s", r)
						return false
					}
					a.CloseProxy("pa")
					return true
				},
				func(w *srvworld.World, a, b *srvworld.Peer) string { return reg(a, "tcp", "pa", 0) },
				func(w *srvworld.World, a, b *srvworld.Peer) string { return reg(b, "tcp", "pb", 20000) },
				func(w *srvworld.World, a, b *srvworld.Peer, r1, r2 string) {
					if !strings.HasPrefix(r1, "ok") {
						vs.Fail("server-chosen port refused although ports are free: %s", r1)
					}
					if r1 == "ok:20000" && r2 == "ok:20000" {
						vs.Fail("port 20000 granted to two live proxies")
					}
					if r1 != "ok:20000" && !strings.HasPrefix(r2, "ok") {
						vs.Fail("pa did not get its previous port 20000 back (%s) although the competing fixed registration failed (%s)", r1, r2)
					}
					for i, r := range []string{r1, r2} {
						if strings.HasPrefix(r, "ok") {
							who, e := w.UserEcho(fmt.Sprintf("10.9.%d.1:77", i), portOf(r), "x")
							want := []string{"a/pa", "b/pb"}[i]
							if e != "" || who != want {
								vs.Fail("reported address %s of %s is served by %q (err %s)", r, want, who, e)
							}
						}
					}
				})
		case name == "race/close-reopen-tcp" || name == "race/close-reopen-udp":
			typ := name[len(name)-3:]
			s.Body = regRace(typ,
				func(w *srvworld.World, a, b *srvworld.Peer) bool {
					if r := reg(a, typ, "pa", 20001); r != "ok:20001" {
						vs.Fail("setup: %s", r)
						return false
					}
					return true
				},
				func(w *srvworld.World, a, b *srvworld.Peer) string { a.CloseProxy("pa"); return "closed" },
				func(w *srvworld.World, a, b *srvworld.Peer) string { return reg(b, typ, "pb", 20001) },
				func(w *srvworld.World, a, b *srvworld.Peer, r1, r2 string) {
					if !strings.HasPrefix(r2, "ok") {
						// refused while the previous holder was still closing: must succeed now
						if r := reg(b, typ, "pb", 20001); r != "ok:20001" {
							vs.Fail("port 20001 was returned by its closing proxy but a new registration is refused: %s", r)
						}
					}
					w.Quiesce()
					checkInvariants(w, &model{live: map[string]*live{"pb": {owner: "b", typ: typ, port: 20001}}}, "after re-registration")
					// a third registration of the same port must be refused and must not disturb the owner
					if r := reg(a, typ, "pc", 20001); strings.HasPrefix(r, "ok") {
						vs.Fail("port 20001 owned by pb was granted again to pc")
					}
					checkInvariants(w, &model{live: map[string]*live{"pb": {owner: "b", typ: typ, port: 20001}}}, "after refused third registration")
				})
		case name == "fault/grabbed-after-acquire":
			// another process grabs the port between the manager's availability probe and the proxy's listen
			s.Body = func(x *vs.Exec) {
				defer guard()
				w := newWorld(x)
				a := login(w, "a")
				w.H.FailListenNth("tcp", 20001, 2) // 1st listen = availability probe, 2nd = the proxy's listener
				vs.SetInterest(true)
				r := reg(a, "tcp", "pa", 20001)
				vs.SetInterest(false)
				w.Quiesce()
				if strings.HasPrefix(r, "ok") {
					vs.Fail("registration succeeded although listen failed: %s", r)
				}
				checkInvariants(w, &model{live: map[string]*live{}}, "after failed listen")
				if r := reg(a, "tcp", "pa", 20001); r != "ok:20001" {
					vs.Fail("port of a failed registration is not available again: %s", r)
				}
				if r := reg(a, "tcp", "pa2", 20002); r != "ok:20002" {
					vs.Fail("quota not rolled back after failed registration: %s", r)
				}
				w.Quiesce()
				checkInvariants(w, nil, "after retry")
				w.Teardown()
			}
		default:
			return nil
		}
		return s
	}
}

func main() {
	c := drv.Setup("C09", "e1", "model_checking", scenarios)
	if c == nil {
		return
	}
	c.Rule("E1: (b) breadth-first search over sequential register/close histories of two clients (tcp, udp, tcp group; ports 0, in range, out of range; quota 2) on the real frps, deduplicated by the canonical dump of the server tables, each step compared with a reference allocator; (c) all schedules with at most B deviations of racing registrations/closes/listen failures; non-trivial = distinct server state / outcome")
	c.Assume("vnet models the OS port table (EADDRINUSE, port 0 = ephemeral outside allowPorts)")
	pool := vs.GetPool(c.Workers)

	// (b) BFS over histories
	alphabet := []string{}
	for _, p := range []string{"a", "b"} {
		for _, port := range []int{0, 20000, 20001, 30000} {
			alphabet = append(alphabet, fmt.Sprintf("%s+t%d", p, port))
		}
		alphabet = append(alphabet, p+"-t", p+"+u0", p+"+u20000", p+"-u", p+"+g20001", p+"+g0", p+"-g")
	}
	depth := drv.Pick(c, 4, 5)
	seen := map[string]bool{}
	frontier := []string{""}
	var states, trans int64
	histDeadline := c.Start.Add(time.Duration(float64(c.Deadline.Sub(c.Start)) * 0.45))
outer:
	for d := 1; d <= depth; d++ {
		var names, hists []string
		for _, h := range frontier {
			for _, a := range alphabet {
				nh := a
				if h != "" {
					nh = h + "," + a
				}
				hists = append(hists, nh)
				names = append(names, "hist/"+nh)
			}
		}
		var next []string
		for i := 0; i < len(names); i += 512 {
			if time.Now().After(histDeadline) {
				c.Cap(fmt.Sprintf("history BFS stopped by its time share at depth %d (%d of %d histories of this depth run)", d, i, len(names)))
				break outer
			}
			j := i + 512
			if j > len(names) {
				j = len(names)
			}
			rs, err := pool.RunBatch(names[i:j], false)
			if err != nil {
				fmt.Println("HARNESS ERROR:", err)
				c.Cap("harness error: " + err.Error())
				break outer
			}
			for k, r := range rs {
				trans++
				c.FoldExec(&r)
				if !seen[r.EndState] {
					seen[r.EndState] = true
					states++
					next = append(next, hists[i+k])
					if len(seen) <= 3 {
						c.Sample(map[string]any{"history": hists[i+k], "end_state": r.EndState})
					}
				}
			}
		}
		frontier = next
		c.Note(fmt.Sprintf("history_depth_%d", d), map[string]any{"histories": len(names), "new_states": len(next)})
	}
	c.Note("history_bfs", map[string]any{"max_depth": depth, "distinct_states": states, "histories_run": trans, "alphabet": alphabet})

	// (a) manager-level BFS (one execution; the BFS runs inside it, so one confirming replay is a whole search)
	c.ConfirmTimes = func(scn string) int {
		if strings.HasPrefix(scn, "mgr/") {
			return 1
		}
		return 0
	}
	md := drv.Pick(c, 7, 9)
	rs, err := pool.RunBatch([]string{fmt.Sprintf("mgr/bfs%d", md)}, true)
	if err != nil {
		c.Cap("harness error: " + err.Error())
	} else {
		c.FoldExec(&rs[0])
		for _, o := range rs[0].Obs {
			var d, st, tr int
			if strings.HasPrefix(o, "manager BFS capped") {
				c.Cap(o)
			}
			if n, _ := fmt.Sscanf(o, "manager BFS depth=%d states=%d transitions=%d", &d, &st, &tr); n == 3 {
				c.States(int64(st), int64(tr))
				c.Note("manager_bfs", map[string]any{"depth": d, "distinct_states": st, "transitions": tr})
			}
		}
	}

	// (c) races
	b := drv.Pick(c, 2, 3)
	races := []string{"race/samefixed-tcp", "race/samefixed-udp", "race/zero-vs-reserved", "race/close-reopen-tcp", "race/close-reopen-udp", "fault/grabbed-after-acquire"}
	for i, r := range races {
		c.ExploreBoth(r, b, 1.0/float64(len(races)-i))
	}
	c.Finish()
}
