// C09 part e2ini — the operator's port whitelist written in the (still supported) ini format. "Every public port …
// lies inside the operator's allowPorts set": for every spelling of an allow_ports line the loaded server
// configuration, handed to the real port manager, grants exactly the listed ports; a line that cannot be understood
// must make the load fail — it must never turn into "no whitelist", which allows every port.
package main

import (
	"encoding/json"
	"errors"
	"fmt"
	"os"
	"path/filepath"
	"strings"

	"github.com/fatedier/frp/pkg/config"
	"github.com/fatedier/frp/server/ports"

	"verif/mc/drv"
	_ "verif/mc/quiet"
)

type icase struct {
	Line  string `json:"allow_ports"`
	Valid bool   `json:"valid"`
	Want  []int  `json:"allowed_among_probes"`
}

var probes = []int{1999, 2000, 2001, 2002, 2003, 2999, 3000, 3001, 3002, 40000}

func run(ic icase) string {
	dir, err := os.MkdirTemp("/verif/.build", "c09ini")
	if err != nil {
		return ""
	}
	defer os.RemoveAll(dir)
	path := filepath.Join(dir, "frps.ini")
	_ = os.WriteFile(path, []byte("[common]\nbind_port = 7000\nallow_ports = "+ic.Line+"\nmax_ports_per_client = 3\n"), 0o600)
	cfg, _, err := config.LoadServerConfig(path, true)
	if !ic.Valid {
		if err == nil {
			return fmt.Sprintf("allow_ports = %q cannot be understood as a list of ports, yet the configuration loads with allowPorts %v (an empty list allows every port)", ic.Line, cfg.AllowPorts)
		}
		return ""
	}
	if err != nil {
		return fmt.Sprintf("allow_ports = %q refused: %v", ic.Line, err)
	}
	if cfg.MaxPortsPerClient != 3 {
		return fmt.Sprintf("max_ports_per_client = 3 loaded as %d", cfg.MaxPortsPerClient)
	}
	mgr := ports.NewManager("tcp", "127.0.0.1", cfg.AllowPorts)
	want := map[int]bool{}
	for _, p := range ic.Want {
		want[p] = true
	}
	for _, p := range probes {
		got, err := mgr.Acquire(fmt.Sprintf("probe-%d", p), p)
		switch {
		case err == nil:
			mgr.Release(got)
			if !want[p] || got != p {
				return fmt.Sprintf("allow_ports = %q: port %d was granted (as %d) although it is outside the operator's list", ic.Line, p, got)
			}
		case errors.Is(err, ports.ErrPortNotAllowed):
			if want[p] {
				return fmt.Sprintf("allow_ports = %q: port %d is in the operator's list but is refused as not allowed", ic.Line, p)
			}
		default:
			// busy in the OS: says nothing about the whitelist
		}
	}
	return ""
}

func main() {
	drv.E2Replayers["ini"] = func(raw json.RawMessage) string {
		var ic icase
		json.Unmarshal(raw, &ic)
		return run(ic)
	}
	c := drv.Setup("C09", "e2ini", "exploration", nil)
	if c == nil {
		return
	}
	c.Rule("every spelling of an ini allow_ports line (single ports, ranges, mixtures, blanks around numbers / commas / dashes, one-port ranges) loaded through config.LoadServerConfig and handed to the real port manager grants exactly the listed ports among 10 probe ports; lines that are not a list of ports (words, reversed range, trailing comma, out-of-range numbers are left to the manager) make the load fail and never yield an empty whitelist; non-trivial = distinct line")
	cases := []icase{
		{"2000", true, []int{2000}},
		{"2000-2002", true, []int{2000, 2001, 2002}},
		{"2000-2002,3000", true, []int{2000, 2001, 2002, 3000}},
		{"2000-2002, 3000", true, []int{2000, 2001, 2002, 3000}},
		{"2000-2002 ,3000", true, []int{2000, 2001, 2002, 3000}},
		{" 2000-2002,3000 ", true, []int{2000, 2001, 2002, 3000}},
		{"2000 - 2002,3001", true, []int{2000, 2001, 2002, 3001}},
		{"2000,2002,3000-3001", true, []int{2000, 2002, 3000, 3001}},
		{"3000-3000", true, []int{3000}},
		{"1999,2003,40000", true, []int{1999, 2003, 40000}},
		{"abc", false, nil},
		{"2000-2002,abc", false, nil},
		{"3000-2000", false, nil},
		{"2000-", false, nil},
		{"2000-2001-2002", false, nil},
		{"2000;3000", false, nil},
	}
	for _, ic := range cases {
		sig := "ini:" + strings.ReplaceAll(ic.Line, " ", "_")
		c.Count(sig)
		if v := run(ic); v != "" {
			c.Violate("ini", sig, v, ic)
		}
	}
	c.Sample(cases[3])
	c.Finish()
}
