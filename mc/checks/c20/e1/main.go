// C20 — NAT hole punching: authenticated, complementary instructions, bounded state.
package main

import (
	"fmt"
	"reflect"
	"sort"
	"strings"
	"sync"
	"time"

	"github.com/fatedier/frp/pkg/msg"
	"github.com/fatedier/frp/pkg/nathole"
	"github.com/fatedier/frp/pkg/transport"
	"github.com/fatedier/frp/pkg/util/util"

	"verif/mc/drv"
	"verif/mc/peek"
	"verif/mc/vs"
	sw "verif/mc/worlds/srvworld"
)

const sk = "xtcp-secret"

// ---- (a) the analysis state machine through the controller's public entry points ----

type feat struct {
	name    string
	hard    bool
	regular bool
	public  bool
	mapped  func(ip string, base int) []string
}

var feats = []feat{
	{"easy", false, false, false, func(ip string, b int) []string { return []string{j(ip, b), j(ip, b)} }},
	{"easypub", false, false, true, func(ip string, b int) []string { return []string{j(ip, b), j(ip, b)} }},
	{"hardreg", true, true, false, func(ip string, b int) []string { return []string{j(ip, b), j(ip, b+3)} }},
	{"hardregdesc", true, true, false, func(ip string, b int) []string { return []string{j(ip, b+3), j(ip, b)} }}, // the newer mapping has the lower port
	{"hardirr", true, false, false, func(ip string, b int) []string { return []string{j(ip, b), j(ip, b+500)} }},
	{"hardirrdesc", true, false, false, func(ip string, b int) []string { return []string{j(ip, b+500), j(ip, b)} }}, // far apart, the newer mapping lower
	{"hardip", true, false, false, func(ip string, b int) []string { return []string{j(ip, b), j("9."+ip[2:], b)} }},
	{"hardboth", true, false, false, func(ip string, b int) []string { return []string{j(ip, b), j("9."+ip[2:], b+7)} }},
}

func j(ip string, port int) string { return fmt.Sprintf("%s:%d", ip, port) }

type harness struct {
	x     *vs.Exec
	c     *nathole.Controller
	sidCh chan string
	vCh   chan msg.Message
	cCh   chan msg.Message
	oCh   chan msg.Message // a third, uninvolved control
	vT    transport.MessageTransporter
	cT    transport.MessageTransporter
	n     int
}

// chanSender is the harness's stand-in for a control connection's dispatcher: what the controller sends is queued.
type chanSender chan msg.Message

func (c chanSender) Send(m msg.Message) error { c <- m; return nil }

func newHarness(x *vs.Exec) *harness {
	h := &harness{x: x}
	h.c, _ = nathole.NewController(time.Hour)
	h.sidCh, _ = h.c.ListenClient("p", sk, []string{"*"})
	h.vCh, h.cCh, h.oCh = make(chan msg.Message, 100), make(chan msg.Message, 100), make(chan msg.Message, 100)
	h.vT, h.cT = transport.NewMessageTransporter(chanSender(h.vCh)), transport.NewMessageTransporter(chanSender(h.cCh))
	return h
}

type roundResult struct {
	v, c *msg.NatHoleResp
	sid  string
}

// round performs one complete exchange and returns both answers (nil if none arrived).
func (h *harness) round(vAddrs, vAssist, cAddrs, cAssist []string, report string) roundResult {
	// every message is a fresh value, as it would be after decoding from the wire
	cp := func(l []string) []string { return append([]string(nil), l...) }
	vAddrs, vAssist, cAddrs, cAssist = cp(vAddrs), cp(vAssist), cp(cAddrs), cp(cAssist)
	h.n++
	ts := time.Now().Unix()
	vm := &msg.NatHoleVisitor{TransactionID: fmt.Sprintf("v%d", h.n), ProxyName: "p", Protocol: "quic", Timestamp: ts,
		SignKey: util.GetAuthKey(sk, ts), MappedAddrs: cp(vAddrs), AssistedAddrs: cp(vAssist)}
	var wg sync.WaitGroup
	wg.Add(1)
	go func() { defer wg.Done(); h.c.HandleVisitor(vm, h.vT, "u") }()
	var rr roundResult
	select {
	case sid := <-h.sidCh:
		rr.sid = sid
		h.c.HandleClient(&msg.NatHoleClient{TransactionID: fmt.Sprintf("c%d", h.n), ProxyName: "p", Sid: sid, MappedAddrs: cp(cAddrs), AssistedAddrs: cp(cAssist)}, h.cT)
		if report == "dupclient" {
			h.c.HandleClient(&msg.NatHoleClient{TransactionID: "dup", ProxyName: "p", Sid: sid, MappedAddrs: cp(cAddrs), AssistedAddrs: cp(cAssist)}, h.cT)
		}
	case <-time.After(30 * time.Second):
	}
	// both answers (the sender's one is delayed by 1 s)
	deadline := time.After(20 * time.Second)
	for rr.v == nil || rr.c == nil {
		select {
		case m := <-h.vCh:
			rr.v, _ = m.(*msg.NatHoleResp)
		case m := <-h.cCh:
			rr.c, _ = m.(*msg.NatHoleResp)
		case <-deadline:
			goto done
		}
	}
done:
	switch report {
	case "success":
		h.c.HandleReport(&msg.NatHoleReport{Sid: rr.sid, Success: true})
	case "twice":
		h.c.HandleReport(&msg.NatHoleReport{Sid: rr.sid, Success: true})
		h.c.HandleReport(&msg.NatHoleReport{Sid: rr.sid, Success: true})
	case "unknown":
		h.c.HandleReport(&msg.NatHoleReport{Sid: "no-such-sid", Success: true})
	case "fail":
		h.c.HandleReport(&msg.NatHoleReport{Sid: rr.sid, Success: false})
	}
	wg.Wait() // HandleVisitor returns after its grace period: the session must be gone then
	if n := peek.F(h.c, "sessions").Len(); n != 0 {
		vs.Fail("after a completed exchange %d session(s) remain in the controller", n)
	}
	select {
	case m := <-h.vCh:
		vs.Fail("visitor received a second message %T", m)
	case m := <-h.cCh:
		if report != "dupclient" {
			vs.Fail("client received a second message %T", m)
		}
	case m := <-h.oCh:
		vs.Fail("an uninvolved control received %T", m)
	default:
	}
	return rr
}

func compact(l []string) []string {
	var out []string
	for i, s := range l {
		if i == 0 || s != l[i-1] {
			out = append(out, s)
		}
	}
	return out
}

// checkInstr is the oracle for one pair of instructions.
func checkInstr(when string, rr roundResult, cf, vf feat, cAddrs, cAssist, vAddrs, vAssist []string) (mode int) {
	if rr.v == nil || rr.c == nil {
		vs.Fail("%s: an answer is missing (visitor=%v client=%v)", when, rr.v != nil, rr.c != nil)
		return -1
	}
	if rr.v.Error != "" || rr.c.Error != "" {
		vs.Fail("%s: well-formed observations answered with errors %q / %q", when, rr.v.Error, rr.c.Error)
		return -1
	}
	vb, cb := rr.v.DetectBehavior, rr.c.DetectBehavior
	if rr.v.Sid != rr.c.Sid || rr.v.Sid == "" || rr.v.Sid != rr.sid {
		vs.Fail("%s: session ids differ: visitor %q client %q notified %q", when, rr.v.Sid, rr.c.Sid, rr.sid)
	}
	if vb.Mode != cb.Mode {
		vs.Fail("%s: detection modes differ: visitor %d client %d", when, vb.Mode, cb.Mode)
	}
	roles := []string{vb.Role, cb.Role}
	sort.Strings(roles)
	if roles[0] != "receiver" || roles[1] != "sender" {
		vs.Fail("%s: roles are visitor=%q client=%q, expected exactly one sender and one receiver", when, vb.Role, cb.Role)
	}
	switch vb.Mode {
	case 1: // the hard NAT sends
		if cf.hard != vf.hard {
			if (cf.hard && cb.Role != "sender") || (vf.hard && vb.Role != "sender") {
				vs.Fail("%s: mode 1 but the hard-NAT side is not the sender (client hard=%v role=%s, visitor hard=%v role=%s)", when, cf.hard, cb.Role, vf.hard, vb.Role)
			}
		}
	case 2: // the hard NAT listens
		if cf.hard != vf.hard {
			if (cf.hard && cb.Role != "receiver") || (vf.hard && vb.Role != "receiver") {
				vs.Fail("%s: mode 2 but the hard-NAT side is not the receiver (client hard=%v role=%s, visitor hard=%v role=%s)", when, cf.hard, cb.Role, vf.hard, vb.Role)
			}
		}
	case 4: // the side with regular port changes sends
		if cf.regular != vf.regular {
			if (cf.regular && cb.Role != "sender") || (vf.regular && vb.Role != "sender") {
				vs.Fail("%s: mode 4 but the regular-port side is not the sender (client regular=%v role=%s, visitor regular=%v role=%s)", when, cf.regular, cb.Role, vf.regular, vb.Role)
			}
		}
	}
	if fmt.Sprint(rr.v.CandidateAddrs) != fmt.Sprint(compact(cAddrs)) || fmt.Sprint(rr.v.AssistedAddrs) != fmt.Sprint(compact(cAssist)) {
		vs.Fail("%s: visitor was given %v / %v, expected the client's addresses %v / %v", when, rr.v.CandidateAddrs, rr.v.AssistedAddrs, compact(cAddrs), compact(cAssist))
	}
	if fmt.Sprint(rr.c.CandidateAddrs) != fmt.Sprint(compact(vAddrs)) || fmt.Sprint(rr.c.AssistedAddrs) != fmt.Sprint(compact(vAssist)) {
		vs.Fail("%s: client was given %v / %v, expected the visitor's addresses %v / %v", when, rr.c.CandidateAddrs, rr.c.AssistedAddrs, compact(vAddrs), compact(vAssist))
	}
	for _, b := range []msg.NatHoleDetectBehavior{vb, cb} {
		for _, r := range b.CandidatePorts {
			if r.From < 1 || r.To > 65535 || r.From > r.To {
				vs.Fail("%s: candidate port range [%d,%d] outside 1..65535 or empty", when, r.From, r.To)
			}
		}
	}
	return vb.Mode
}

func scores(h *harness) string {
	var parts []string
	peek.Each(peek.F(h.c, "analyzer.records"), func(key string, _, rec reflect.Value) {
		sc := peek.Walk(rec, "scores")
		var l []string
		for i := 0; i < sc.Len(); i++ {
			e := peek.Open(sc.Index(i))
			l = append(l, fmt.Sprintf("%d.%d=%d", peek.Walk(e, "Mode").Int(), peek.Walk(e, "Index").Int(), peek.Walk(e, "Score").Int()))
		}
		parts = append(parts, strings.Join(l, ","))
	})
	return strings.Join(parts, ";")
}

// analysis: BFS over histories of {plain round, round + success report} for one feature pair.
func scAnalysis(ci, vi, depth int) func(x *vs.Exec) {
	cf, vf := feats[ci], feats[vi]
	return func(x *vs.Exec) {
		seen := map[string]bool{}
		frontier := []string{""}
		states, trans := 0, 0
		modes := map[int]bool{}
		ipn := 0
		for d := 1; d <= depth; d++ {
			var next []string
			for _, hist := range frontier {
				for _, ev := range []string{"r", "s"} {
					nh := hist + ev
					// fresh controller records: a fresh pair of addresses per history
					ipn++
					h := newHarness(x)
					cip, vip := fmt.Sprintf("1.1.%d.%d", ipn/250, ipn%250+1), fmt.Sprintf("2.2.%d.%d", ipn/250, ipn%250+1)
					cAddrs, vAddrs := cf.mapped(cip, 1000), vf.mapped(vip, 2000)
					cAssist, vAssist := []string{"192.168.1.2:5"}, []string{"192.168.2.2:6"}
					if cf.public {
						cAssist = []string{cip + ":5"}
					}
					if vf.public {
						vAssist = []string{vip + ":6"}
					}
					for i, e := range nh {
						rep := ""
						if e == 's' {
							rep = "success"
						}
						rr := h.round(vAddrs, vAssist, cAddrs, cAssist, rep)
						m := checkInstr(fmt.Sprintf("%s/%s history %s round %d", cf.name, vf.name, nh, i), rr, cf, vf, cAddrs, cAssist, vAddrs, vAssist)
						modes[m] = true
					}
					trans++
					if k := scores(h); !seen[k] {
						seen[k] = true
						states++
						next = append(next, nh)
					}
					h.c.CloseClient("p")
				}
			}
			frontier = next
		}
		vs.Observe("analysis %s/%s depth=%d states=%d transitions=%d modes=%v", cf.name, vf.name, depth, states, trans, modes)
	}
}

// ports / malformed inputs
func scInputs(x *vs.Exec) {
	h := newHarness(x)
	n := 0
	for _, base := range []int{1, 2, 5, 1024, 65530, 65532, 65535} {
		for ci, cf := range feats {
			vf := feats[(ci+2)%len(feats)]
			cAddrs := cf.mapped("3.3.3.3", base)
			vAddrs := vf.mapped("4.4.4.4", base)
			ok := true
			for _, a := range append(append([]string{}, cAddrs...), vAddrs...) {
				var p int
				fmt.Sscanf(a[strings.LastIndex(a, ":")+1:], "%d", &p)
				if p < 1 || p > 65535 {
					ok = false
				}
			}
			rr := h.round(vAddrs, nil, cAddrs, nil, "")
			n++
			when := fmt.Sprintf("ports base %d %s/%s", base, cf.name, vf.name)
			if ok {
				checkInstr(when, rr, cf, vf, cAddrs, nil, vAddrs, nil)
			} else {
				expectError(when, rr)
			}
		}
	}
	good := []string{"5.5.5.5:4000", "5.5.5.5:4000"}
	bad := map[string][]string{
		"one address":       {"5.5.5.5:4000"},
		"no address":        nil,
		"not an address":    {"x", "x"},
		"missing port":      {"1.2.3.4", "1.2.3.4"},
		"negative port":     {"1.2.3.4:-1", "1.2.3.4:-1"},
		"zero port":         {"1.2.3.4:0", "1.2.3.4:0"},
		"port 65536":        {"1.2.3.4:65536", "1.2.3.4:65536"},
		"port 70000":        {"1.2.3.4:70000", "1.2.3.4:70003"},
		"huge port":         {"1.2.3.4:10000000000", "1.2.3.4:10000000000"},
		"host is not an ip": {"not-an-ip:80", "not-an-ip:80"},
		"empty host":        {":80", ":80"},
	}
	var names []string
	for k := range bad {
		names = append(names, k)
	}
	sort.Strings(names)
	for _, k := range names {
		for _, side := range []string{"visitor", "client"} {
			v, c := good, good
			if side == "visitor" {
				v = bad[k]
			} else {
				c = bad[k]
			}
			rr := h.round(v, nil, c, nil, "")
			n++
			expectError(fmt.Sprintf("%s sends %s %v", side, k, bad[k]), rr)
		}
	}
	// reports for unknown / duplicate session ids, duplicate client messages
	for _, rep := range []string{"unknown", "twice", "fail", "dupclient"} {
		rr := h.round(good, nil, good, nil, rep)
		n++
		checkInstr("report "+rep, rr, feats[0], feats[0], good, nil, good, nil)
	}
	vs.Observe("inputs rounds=%d", n)
}

func expectError(when string, rr roundResult) {
	if rr.v == nil || rr.c == nil {
		vs.Fail("%s: malformed or out-of-range addresses must yield an error answer to both parties; visitor answered=%v client answered=%v", when, rr.v != nil, rr.c != nil)
		return
	}
	for side, r := range map[string]*msg.NatHoleResp{"visitor": rr.v, "client": rr.c} {
		if r.Error == "" {
			vs.Fail("%s: %s got an instruction instead of an error: candidates=%v ports=%v role=%q", when, side, r.CandidateAddrs, r.DetectBehavior.CandidatePorts, r.DetectBehavior.Role)
		} else if len(r.CandidateAddrs) > 0 || r.DetectBehavior.Role != "" {
			vs.Fail("%s: %s got an error together with an instruction", when, side)
		}
	}
}

// ---- (b) controller hygiene on the real server ----

func scHygiene(what string) func(x *vs.Exec) {
	return func(x *vs.Exec) {
		defer sw.Guard()
		w := sw.New(x, sw.Opt{AllowPorts: sw.P(20000, 20001), UserConnTimeout: 5, HeartbeatTimeout: -1})
		owner := w.MustLogin("owner", sw.LoginOpt{User: "u1"})
		vis := w.MustLogin("vis", sw.LoginOpt{User: "u2"})
		other := w.MustLogin("other", sw.LoginOpt{User: "u3"})
		if r := owner.Reg(&msg.NewProxy{ProxyName: "p", ProxyType: "xtcp", Sk: sk, AllowUsers: []string{"u2"}}); !strings.HasPrefix(r, "ok") {
			vs.Fail("setup: %s", r)
			return
		}
		owner.OnSid = func(p *sw.Peer, sid string) {
			p.Send(&msg.NatHoleClient{TransactionID: "c1", ProxyName: "p", Sid: sid, MappedAddrs: []string{"7.7.7.7:100", "7.7.7.7:100"}})
			if what == "dupclient" {
				p.Send(&msg.NatHoleClient{TransactionID: "c2", ProxyName: "p", Sid: sid, MappedAddrs: []string{"7.7.7.7:100", "7.7.7.7:100"}})
			}
			if what == "report" {
				p.Send(&msg.NatHoleReport{Sid: sid, Success: true})
			}
		}
		w.Quiesce()
		ts := w.Now()
		vs.SetInterest(true)
		vis.Send(&msg.NatHoleVisitor{TransactionID: "v1", ProxyName: "p", Protocol: "quic", Timestamp: ts, SignKey: util.GetAuthKey(sk, ts),
			MappedAddrs: []string{"8.8.8.8:200", "8.8.8.8:200"}})
		switch what {
		case "close":
			go owner.CloseProxy("p")
		case "unknownsid":
			other.Send(&msg.NatHoleClient{TransactionID: "zz", ProxyName: "p", Sid: "1234nosuchsid", MappedAddrs: []string{"6.6.6.6:1", "6.6.6.6:1"}})
			other.Send(&msg.NatHoleReport{Sid: "1234nosuchsid", Success: true})
		case "ownercut":
			go owner.Cut()
		case "visitorcut":
			go vis.Cut()
		}
		w.Quiesce()
		vs.SetInterest(false)
		time.Sleep(150 * time.Second) // beyond every NAT-hole timeout
		w.Quiesce()
		nv, nc, no := 0, 0, 0
		for _, m := range vis.Inbox {
			if _, ok := m.(*msg.NatHoleResp); ok {
				nv++
			}
		}
		for _, m := range owner.Inbox {
			if _, ok := m.(*msg.NatHoleResp); ok {
				nc++
			}
		}
		for _, m := range other.Inbox {
			if _, ok := m.(*msg.NatHoleResp); ok {
				no++
			}
		}
		if no != 0 {
			vs.Fail("a control that takes no part in the session received %d NAT-hole answers", no)
		}
		if nv > 1 || nc > 1 {
			vs.Fail("answers: visitor %d, owner %d, expected at most one each", nv, nc)
		}
		if what == "plain" || what == "report" || what == "unknownsid" || what == "dupclient" {
			if nv != 1 || nc != 1 {
				vs.Fail("complete exchange (%s): visitor got %d answers, owner %d, expected 1 and 1", what, nv, nc)
			}
		}
		if n := peek.F(w.Svc, "rc.NatHoleController.sessions").Len(); n != 0 {
			vs.Fail("%d NAT-hole session(s) still present 150 s after the request (%s)", n, what)
		}
		vs.Observe("%s: visitor=%d owner=%d", what, nv, nc)
		w.Teardown()
		if d := w.Dump(); d != w.Base {
			vs.Fail("state left behind:\n%s", d)
		}
	}
}

// retry: the owner fails to deliver the work connection for a first request; a later request for the same, still
// registered proxy must be served all the same ("a response is sent to exactly the two controls involved").
func scRetry(x *vs.Exec) {
	defer sw.Guard()
	w := sw.New(x, sw.Opt{AllowPorts: sw.P(20000, 20001), UserConnTimeout: 5, HeartbeatTimeout: -1})
	owner := w.MustLogin("owner", sw.LoginOpt{User: "u1"})
	vis := w.MustLogin("vis", sw.LoginOpt{User: "u2"})
	if r := owner.Reg(&msg.NewProxy{ProxyName: "p", ProxyType: "xtcp", Sk: sk, AllowUsers: []string{"u2"}}); !strings.HasPrefix(r, "ok") {
		vs.Fail("setup: %s", r)
		return
	}
	owner.OnSid = func(p *sw.Peer, sid string) {
		p.Send(&msg.NatHoleClient{TransactionID: "c-" + sid, ProxyName: "p", Sid: sid, MappedAddrs: []string{"7.7.7.7:100", "7.7.7.7:100"}})
	}
	owner.OnReq = func(*sw.Peer) {} // the owner does not deliver work connections for now
	w.Quiesce()
	send := func(tx string) {
		ts := w.Now()
		vis.Send(&msg.NatHoleVisitor{TransactionID: tx, ProxyName: "p", Protocol: "quic", Timestamp: ts, SignKey: util.GetAuthKey(sk, ts), MappedAddrs: []string{"8.8.8.8:200", "8.8.8.8:200"}})
	}
	answered := func(tx string) (bool, string) {
		for _, m := range vis.Inbox {
			if r, ok := m.(*msg.NatHoleResp); ok && r.TransactionID == tx {
				return true, r.Error
			}
		}
		return false, ""
	}
	vs.SetInterest(true)
	send("v1")
	time.Sleep(40 * time.Second) // the first attempt fails: no work connection within the user-connection timeout
	owner.AutoWork()
	send("v2")
	vs.BlockFor("second-answer", 60*time.Second, func() bool { ok, _ := answered("v2"); return ok })
	vs.SetInterest(false)
	if ok, e := answered("v2"); !ok || e != "" {
		vs.Fail("after one request whose work connection the owner failed to deliver, a second request for the same registered xtcp proxy gets no instruction (answered=%v error=%q)", ok, e)
	}
	time.Sleep(150 * time.Second)
	w.Teardown()
}

// sign: a session is created only for a correctly signed request — also when the proxy's secret key is empty.
func scSign(skKind, signKind string) func(x *vs.Exec) {
	return func(x *vs.Exec) {
		defer sw.Guard()
		w := sw.New(x, sw.Opt{AllowPorts: sw.P(20000, 20001), UserConnTimeout: 5, HeartbeatTimeout: -1})
		owner := w.MustLogin("owner", sw.LoginOpt{User: "u1"})
		vis := w.MustLogin("vis", sw.LoginOpt{User: "u2"})
		key := map[string]string{"sk": sk, "empty": ""}[skKind]
		if r := owner.Reg(&msg.NewProxy{ProxyName: "p", ProxyType: "xtcp", Sk: key, AllowUsers: []string{"*"}}); !strings.HasPrefix(r, "ok") {
			vs.Fail("setup: %s", r)
			return
		}
		sids := 0
		owner.OnSid = func(p *sw.Peer, sid string) { sids++ }
		w.Quiesce()
		ts := w.Now()
		m := &msg.NatHoleVisitor{TransactionID: "v1", ProxyName: "p", Protocol: "quic", Timestamp: ts, MappedAddrs: []string{"8.8.8.8:200", "8.8.8.8:200"}}
		switch signKind {
		case "right":
			m.SignKey = util.GetAuthKey(key, ts)
		case "wrongkey":
			m.SignKey = util.GetAuthKey("some-other-key", ts)
		case "stalets":
			m.SignKey = util.GetAuthKey(key, ts-1)
		case "garbage":
			m.SignKey = "0123456789abcdef0123456789abcdef"
		case "none":
			m.SignKey = ""
		}
		vs.SetInterest(true)
		vis.Send(m)
		w.Quiesce()
		time.Sleep(3 * time.Second)
		w.Quiesce()
		vs.SetInterest(false)
		created := sids > 0 || peek.F(w.Svc, "rc.NatHoleController.sessions").Len() > 0
		if signKind == "right" && !created {
			vs.Fail("correctly signed NAT-hole request for a proxy with %s secret key did not create a session", skKind)
		}
		if signKind != "right" && created {
			vs.Fail("NAT-hole request with signature %q for a proxy with %s secret key created a session (owner notified %d times)", signKind, skKind, sids)
		}
		vs.Observe("%s/%s created=%v", skKind, signKind, created)
		time.Sleep(150 * time.Second)
		w.Teardown()
	}
}

func scenarios() {
	vs.ScenarioFactory = func(name string) *vs.Scenario {
		s := &vs.Scenario{Name: name, Horizon: 100000 * time.Hour, MaxSteps: 400_000_000, NoEarlyTick: true, Watchdog: 15 * time.Minute,
			End: func(x *vs.Exec) string {
				var bad []string
				for _, t := range x.Stuck() {
					bad = append(bad, fmt.Sprintf("thread never finished: %s [%s]", t.Name, t.Pending()))
				}
				sort.Strings(bad)
				x.Fails = append(x.Fails, bad...)
				return strings.Join(x.Obs, "\n")
			}}
		f := strings.Split(name, "/")
		switch f[0] {
		case "ana":
			var ci, vi, d int
			fmt.Sscanf(f[1], "%d-%d-%d", &ci, &vi, &d)
			s.Body = scAnalysis(ci, vi, d)
		case "inputs":
			s.Body = scInputs
		case "sign":
			s.Body = scSign(f[1], f[2])
			s.Horizon = 1000 * time.Second
			s.End = sw.StdEnd
		case "retry":
			s.Body = scRetry
			s.Horizon = 1000 * time.Second
			s.End = sw.StdEnd
		case "hyg":
			s.Body = scHygiene(f[1])
			s.Horizon = 1000 * time.Second
			s.End = sw.StdEnd
		default:
			return nil
		}
		return s
	}
}

func main() {
	c := drv.Setup("C20", "e1", "model_checking", scenarios)
	if c == nil {
		return
	}
	c.Rule("E1: (a) for all 64 pairs of NAT feature classes (easy, easy + public, hard with regular port change ascending / descending, irregular ascending / descending, with IP change, with both), BFS over histories of {exchange, exchange + success report} to depth D through the real Controller (HandleVisitor / HandleClient / HandleReport on the virtual clock), deduplicated on the analyzer's score vector; every round checked against the statement (same sid and mode, one sender + one receiver, mode rule, each side gets the other's addresses, port ranges inside 1..65535); boundary ports and malformed address lists must yield errors to both; signatures {right, other key, stale timestamp, garbage, none} x proxy secret key {set, empty}: a session only for the right one; (b) complete exchanges on the real frps racing with proxy close / owner or visitor disconnect / unknown and duplicate messages under deviation-bounded DFS; non-trivial = distinct score vector / end state")
	c.Assume("(c) 'two honest peers find each other' is not decided here: MakeHole needs IP TTL control on real sockets and uniformly random port sets, which the virtual network and the two-valued random source do not provide (see DESIGN.md)")
	pool := vs.GetPool(c.Workers)
	depth := drv.Pick(c, 6, 10)
	var names []string
	for ci := range feats {
		for vi := range feats {
			names = append(names, fmt.Sprintf("ana/%d-%d-%d", ci, vi, depth))
		}
	}
	names = append(names, "inputs")
	for _, k := range []string{"sk", "empty"} {
		for _, sg := range []string{"right", "wrongkey", "stalets", "garbage", "none"} {
			names = append(names, "sign/"+k+"/"+sg)
		}
	}
	rs, err := pool.RunBatch(names, true)
	if err != nil {
		c.Cap("harness error: " + err.Error())
	} else {
		for k := range rs {
			c.FoldExec(&rs[k])
			for _, o := range rs[k].Obs {
				var cn, vn string
				var d, st, tr int
				if n, _ := fmt.Sscanf(strings.Replace(o, "/", " ", 1), "analysis %s %s depth=%d states=%d transitions=%d", &cn, &vn, &d, &st, &tr); n == 5 {
					c.States(int64(st), int64(tr))
					c.Count(fmt.Sprintf("%s/%s:%d", cn, vn, st))
				}
			}
			if k < 2 {
				c.Sample(map[string]any{"scenario": names[k], "observations": rs[k].Obs})
			}
		}
	}
	b := drv.Pick(c, 2, 3)
	hyg := []string{"plain", "report", "close", "unknownsid", "dupclient", "ownercut", "visitorcut"}
	for i, h := range hyg {
		c.ExploreBoth("hyg/"+h, b, 1.0/float64(len(hyg)-i+1))
	}
	c.ExploreBoth("retry", 1, 0.5)
	c.Finish()
}
