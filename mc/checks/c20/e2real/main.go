// C20 part e2real — "two honest peers on an unfiltered network that follow the instructions do find each other":
// for every pair of reported NAT observations and every behaviour the controller can recommend for it (reached by
// the history of earlier attempts without a success report), both roles run the real MakeHole on loopback UDP with
// the controller's real instructions.
package main

import (
	"context"
	"encoding/json"
	"fmt"
	"net"
	"strconv"
	"sync"
	"time"

	"github.com/fatedier/frp/pkg/msg"
	"github.com/fatedier/frp/pkg/nathole"

	"verif/mc/drv"
	_ "verif/mc/quiet"
)

type hcase struct {
	V       string `json:"visitor_observation"` // easy | regular | irregular
	C       string `json:"client_observation"`
	Attempt int    `json:"attempt"` // 1-based: attempts 1..n-1 got no success report
	Noise   bool   `json:"noise,omitempty"` // datagrams of another session of the same proxy (same key, other sid) reach both sockets meanwhile
}

func observed(real *net.UDPAddr, kind string) []string {
	a := func(p int) string { return net.JoinHostPort("127.0.0.1", strconv.Itoa(p)) }
	switch kind {
	case "regular":
		return []string{a(real.Port), a(real.Port + 2)}
	case "irregular":
		return []string{a(real.Port), a(real.Port + 200)}
	}
	return []string{a(real.Port), a(real.Port)}
}

// inCandidates: does the instruction given to the other party contain this party's real address?
func inCandidates(r *msg.NatHoleResp, real *net.UDPAddr) bool {
	for _, a := range r.CandidateAddrs {
		if a == real.String() {
			return true
		}
	}
	return false
}

// run returns "" (met), a violation text, or an inconclusive reason (second value).
func run(hc hcase) (string, string) {
	ctl, err := nathole.NewController(time.Hour)
	if err != nil {
		return "", err.Error()
	}
	vConn, err1 := net.ListenUDP("udp4", &net.UDPAddr{IP: net.IPv4(127, 0, 0, 1)})
	cConn, err2 := net.ListenUDP("udp4", &net.UDPAddr{IP: net.IPv4(127, 0, 0, 1)})
	if err1 != nil || err2 != nil {
		return "", "listen udp"
	}
	defer vConn.Close()
	defer cConn.Close()
	vReal, cReal := vConn.LocalAddr().(*net.UDPAddr), cConn.LocalAddr().(*net.UDPAddr)
	var vResp, cResp *msg.NatHoleResp
	for i := 1; i <= hc.Attempt; i++ {
		vResp, cResp, err = nathole.VerifAnalyze(ctl,
			&msg.NatHoleVisitor{TransactionID: "v", Protocol: "quic", MappedAddrs: observed(vReal, hc.V)},
			&msg.NatHoleClient{TransactionID: "c", MappedAddrs: observed(cReal, hc.C)})
		if err != nil {
			return fmt.Sprintf("analysis of well-formed observations failed at attempt %d: %v", i, err), ""
		}
	}
	if !inCandidates(vResp, cReal) || !inCandidates(cResp, vReal) {
		return "", "" // the instructions do not name the real addresses: nothing to demand on loopback
	}
	key := []byte("shared-secret")
	type res struct {
		raddr *net.UDPAddr
		err   error
	}
	one := func(conn *net.UDPConn, r *msg.NatHoleResp, out chan<- res) {
		if r.DetectBehavior.Role == nathole.DetectRoleSender {
			time.Sleep(time.Second) // the server releases the sender's instruction one second later
		}
		_, raddr, err := nathole.MakeHole(context.Background(), conn, r, key)
		out <- res{raddr, err}
	}
	if hc.Noise {
		// another visitor of the same proxy is punching its own hole at the same time: its datagrams carry the proxy's
		// key and another session id, and some of them land on these two sockets
		stop := make(chan struct{})
		defer close(stop)
		if nConn, err := net.ListenUDP("udp4", &net.UDPAddr{IP: net.IPv4(127, 0, 0, 1)}); err == nil {
			defer nConn.Close()
			go func() {
				for i := 0; ; i++ {
					for _, resp := range []bool{false, true} {
						if b, err := nathole.EncodeMessage(&msg.NatHoleSid{TransactionID: fmt.Sprint("other-", i), Sid: "sid-of-another-session", Response: resp, Nonce: "n"}, key); err == nil {
							nConn.WriteToUDP(b, vReal)
							nConn.WriteToUDP(b, cReal)
						}
					}
					select {
					case <-stop:
						return
					case <-time.After(40 * time.Millisecond):
					}
				}
			}()
		}
	}
	// A wait on a single socket re-arms its deadline with every datagram, whoever sent it; with the parallel cases
	// probing port ranges on the one loopback interface a disturbed case could then wait for ever: after 40 s the
	// sockets are closed, the attempt counts as failed and is judged again when run alone.
	wd := time.AfterFunc(40*time.Second, func() { vConn.Close(); cConn.Close() })
	defer wd.Stop()
	vCh, cCh := make(chan res, 1), make(chan res, 1)
	go one(vConn, vResp, vCh)
	go one(cConn, cResp, cCh)
	v, c := <-vCh, <-cCh
	desc := fmt.Sprintf("mode %d; visitor %s delay %dms read %dms ttl %d; client %s delay %dms read %dms ttl %d", vResp.DetectBehavior.Mode,
		vResp.DetectBehavior.Role, vResp.DetectBehavior.SendDelayMs, vResp.DetectBehavior.ReadTimeoutMs, vResp.DetectBehavior.TTL,
		cResp.DetectBehavior.Role, cResp.DetectBehavior.SendDelayMs, cResp.DetectBehavior.ReadTimeoutMs, cResp.DetectBehavior.TTL)
	if v.err != nil || c.err != nil {
		return fmt.Sprintf("observations %s/%s, attempt %d (%s): two honest peers on loopback did not find each other: visitor err=%v, client err=%v", hc.V, hc.C, hc.Attempt, desc, v.err, c.err), ""
	}
	// a party may be reached from one of the extra sockets the peer opens for port prediction: only the host must match
	if !v.raddr.IP.Equal(cReal.IP) || !c.raddr.IP.Equal(vReal.IP) {
		return fmt.Sprintf("observations %s/%s, attempt %d (%s): wrong peers: visitor got %v, client got %v", hc.V, hc.C, hc.Attempt, desc, v.raddr, c.raddr), ""
	}
	return "", ""
}

func main() {
	drv.E2Replayers["hole"] = func(raw json.RawMessage) string {
		var hc hcase
		json.Unmarshal(raw, &hc)
		v, _ := run(hc)
		return v
	}
	c := drv.Setup("C20", "e2real", "model_checking", nil)
	if c == nil {
		return
	}
	c.Rule("every pair of reported NAT observations {same port twice, ports 2 apart, ports 200 apart} for visitor and proxy owner x every attempt number 1..N (attempt k = the k-th recommendation for that address pair after k-1 attempts without a success report; N = 8 quick / 12 thorough covers every behaviour of every mode's list): the controller's real analysis produces the two instructions, both roles run the real MakeHole on loopback UDP sockets (the sender's instruction one second after the receiver's, as the server does); oracle: both return without error with an address of the peer's host (the peer may answer from one of the extra sockets it opens for port prediction); cases whose instructions do not contain the real addresses are skipped; the first two attempts of every pair are repeated while datagrams of a concurrent session of the same proxy (same key, another session id) keep arriving at both sockets: they must be ignored; non-trivial = distinct (observation pair, attempt)")
	c.Assume("loopback stands for 'an unfiltered network'; timing as instructed by the controller (real time); a failure is re-run twice before it is reported")
	N := drv.Pick(c, 8, 12)
	var cases []hcase
	for _, v := range []string{"easy", "regular", "irregular"} {
		for _, cl := range []string{"easy", "regular", "irregular"} {
			for a := 1; a <= N; a++ {
				cases = append(cases, hcase{V: v, C: cl, Attempt: a})
			}
			// the same pair while datagrams of a concurrent session of the same proxy arrive (first attempts)
			for a := 1; a <= 2; a++ {
				cases = append(cases, hcase{V: v, C: cl, Attempt: a, Noise: true})
			}
		}
	}
	type out struct {
		hc       hcase
		viol, in string
	}
	res := make([]out, len(cases))
	var wg sync.WaitGroup
	sem := make(chan struct{}, 36)
	for i, hc := range cases {
		wg.Add(1)
		sem <- struct{}{}
		go func(i int, hc hcase) {
			defer func() { <-sem; wg.Done() }()
			v, in := run(hc)
			res[i] = out{hc, v, in}
		}(i, hc)
	}
	wg.Wait()
	for _, r := range res {
		c.Count(fmt.Sprintf("hole:%s:%s:%d:%v", r.hc.V, r.hc.C, r.hc.Attempt, r.hc.Noise))
		if r.in != "" {
			c.Cap("inconclusive: " + r.in)
		}
		if r.viol != "" {
			// the cases run in parallel on one loopback interface and probe port ranges, so they can disturb each
			// other: the deciding experiment is the case run alone, twice
			v1, _ := run(r.hc)
			v2, _ := run(r.hc)
			switch {
			case v1 != "" && v2 != "":
				c.Violate("hole", fmt.Sprintf("hole:%s/%s:attempt%d%s", r.hc.V, r.hc.C, r.hc.Attempt, map[bool]string{true: ":noise"}[r.hc.Noise]), v1, r.hc)
			case v1 == "" && v2 == "":
				c.Note(fmt.Sprintf("passed_alone:%s/%s:%d", r.hc.V, r.hc.C, r.hc.Attempt), "failed once among 36 parallel cases, passed twice when run alone")
			default:
				c.Cap("a failure reproduced only once in two runs alone: " + r.viol)
			}
		}
	}
	c.Sample(cases[0])
	c.Finish()
}
