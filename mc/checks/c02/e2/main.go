// C02 — HTTP proxying preserves requests and responses apart from declared rewrites.
// E2 with real sockets: real frps (vhost HTTP port) + real frpc (http proxy, and the http2http / http2https /
// https2http / https2https plugins) in-process on loopback, a logging backend, raw HTTP/1.1 written by the user side.
package main

import (
	"bufio"
	"bytes"
	"crypto/sha256"
	"crypto/tls"
	"encoding/hex"
	"encoding/json"
	"fmt"
	"io"
	"net"
	"net/http"
	"sort"
	"strings"
	"sync"
	"time"

	"github.com/samber/lo"

	"github.com/fatedier/frp/pkg/config/types"
	v1 "github.com/fatedier/frp/pkg/config/v1"

	"verif/mc/drv"
	_ "verif/mc/quiet"
	rw "verif/mc/worlds/realworld"
)

// ---- logging backend ----

type seen struct {
	Method, URI, Host, Proto string
	Header                   http.Header
	BodyHash                 string
	BodyLen                  int
	TE                       []string
	Remote                   string
}

type backend struct {
	ln     net.Listener
	mu     sync.Mutex
	log    []seen
	port   int
	silent bool // accept, read the request, never answer
}

// the response is chosen by request headers X-Resp-*
func (b *backend) ServeHTTP(w http.ResponseWriter, r *http.Request) {
	body, _ := io.ReadAll(r.Body)
	h := sha256.Sum256(body)
	b.mu.Lock()
	b.log = append(b.log, seen{r.Method, r.RequestURI, r.Host, r.Proto, r.Header.Clone(), hex.EncodeToString(h[:8]), len(body), r.TransferEncoding, r.RemoteAddr})
	silent := b.silent
	b.mu.Unlock()
	if silent {
		time.Sleep(8 * time.Second)
		return
	}
	status := 200
	fmt.Sscanf(r.Header.Get("X-Resp-Status"), "%d", &status)
	size := 0
	fmt.Sscanf(r.Header.Get("X-Resp-Size"), "%d", &size)
	w.Header()["X-Backend-Multi"] = []string{"one", "two"}
	w.Header().Set("X-backend-MiXed", "Case")
	w.Header().Set("Set-Cookie", "a=b; Path=/")
	if status == 301 {
		w.Header().Set("Location", "http://elsewhere.example.com/next?x=%2F")
	}
	payload := respBody(size)
	switch r.Header.Get("X-Resp-Framing") {
	case "chunked":
		w.WriteHeader(status)
		if f, ok := w.(http.Flusher); ok && size > 0 {
			w.Write(payload[:size/2])
			f.Flush()
			w.Write(payload[size/2:])
		} else {
			w.Write(payload)
		}
	default:
		w.Header().Set("Content-Length", fmt.Sprint(size))
		w.WriteHeader(status)
		if r.Method != "HEAD" {
			w.Write(payload)
		}
	}
}

func respBody(n int) []byte {
	b := make([]byte, n)
	for i := range b {
		b[i] = byte('A' + i%23)
	}
	return b
}

func startBackend(tlsOn bool) *backend {
	port := rw.FreePort()
	l, err := net.Listen("tcp", fmt.Sprintf("127.0.0.1:%d", port))
	if err != nil {
		panic(err)
	}
	b := &backend{ln: l, port: port}
	srv := &http.Server{Handler: b}
	if tlsOn {
		cert, err := tls.LoadX509KeyPair(rw.TestdataDir+"/server.crt", rw.TestdataDir+"/server.key")
		if err != nil {
			panic(err)
		}
		srv.TLSConfig = &tls.Config{Certificates: []tls.Certificate{cert}}
		go srv.ServeTLS(l, "", "")
	} else {
		go srv.Serve(l)
	}
	return b
}

func (b *backend) take() []seen {
	b.mu.Lock()
	defer b.mu.Unlock()
	l := b.log
	b.log = nil
	return l
}

// ---- cases ----

type reqCase struct {
	Method   string      `json:"method"`
	Target   string      `json:"target"`
	Headers  [][2]string `json:"headers"`
	Body     string      `json:"body"` // none | cl0 | small | chunked | big
	Status   int         `json:"status"`
	Framing  string      `json:"framing"` // cl | chunked
	Size     int         `json:"size"`
	HostPort bool        `json:"host_with_port,omitempty"` // Host header carries the port of the public endpoint
}

type routeCfg struct {
	Name        string `json:"name"`
	RewriteHost bool   `json:"rewriteHost"`
	ReqHeaders  bool   `json:"reqHeaders"`
	RespHeaders bool   `json:"respHeaders"`
	Enc, Comp   bool
	Plugin      string `json:"plugin"` // "", http2http, http2https, https2http, https2https
	Limit       string `json:"limit"`  // "", client, server: bandwidth limit (generous: 50 MB/s) enforced on that side
	Shared      bool   `json:"shared"` // the vhost port is the control port (first-bytes dispatch in front of the vhost server)
}

func bodyOf(kind string) []byte {
	switch kind {
	case "small", "chunked":
		return []byte("field=value&other=%26%3D&utf8=✓")
	case "big":
		return bytes.Repeat([]byte("0123456789abcdef"), 65536+3)
	}
	return nil
}

func writeRequest(c net.Conn, host string, rc reqCase) {
	var sb bytes.Buffer
	fmt.Fprintf(&sb, "%s %s HTTP/1.1\r\nHost: %s\r\n", rc.Method, rc.Target, host)
	for _, h := range rc.Headers {
		fmt.Fprintf(&sb, "%s: %s\r\n", h[0], h[1])
	}
	fmt.Fprintf(&sb, "X-Resp-Status: %d\r\nX-Resp-Framing: %s\r\nX-Resp-Size: %d\r\n", rc.Status, rc.Framing, rc.Size)
	body := bodyOf(rc.Body)
	switch rc.Body {
	case "cl0":
		sb.WriteString("Content-Length: 0\r\n\r\n")
	case "small", "big":
		fmt.Fprintf(&sb, "Content-Length: %d\r\n\r\n", len(body))
		sb.Write(body)
	case "chunked":
		sb.WriteString("Transfer-Encoding: chunked\r\n\r\n")
		half := len(body) / 2
		fmt.Fprintf(&sb, "%x\r\n%s\r\n%x\r\n%s\r\n0\r\n\r\n", half, body[:half], len(body)-half, body[half:])
	default:
		sb.WriteString("\r\n")
	}
	c.Write(sb.Bytes())
}

var hopByHop = map[string]bool{"Connection": true, "Keep-Alive": true, "Proxy-Connection": true, "Te": true, "Trailer": true, "Transfer-Encoding": true, "Upgrade": true, "Proxy-Authenticate": true, "Proxy-Authorization": true}

func canonKey(k string) string { return http.CanonicalHeaderKey(k) }

// checkOne compares what the backend saw / the user got with the reference transformation.
func checkOne(rc reqCase, rt routeCfg, host string, userAddr string, s seen, resp *http.Response, respBodyGot []byte) string {
	if s.Method != rc.Method {
		return fmt.Sprintf("backend saw method %s, user sent %s", s.Method, rc.Method)
	}
	if s.URI != rc.Target {
		return fmt.Sprintf("backend saw request target %q, user sent %q", s.URI, rc.Target)
	}
	wantHost := host
	if rt.RewriteHost {
		wantHost = "rewritten.example.com"
	}
	if s.Host != wantHost {
		return fmt.Sprintf("backend saw Host %q, expected %q", s.Host, wantHost)
	}
	want := http.Header{}
	connTokens := map[string]bool{}
	for _, h := range rc.Headers {
		if canonKey(h[0]) == "Connection" {
			for _, t := range strings.Split(h[1], ",") {
				connTokens[canonKey(strings.TrimSpace(t))] = true
			}
		}
	}
	for _, h := range rc.Headers {
		k := canonKey(h[0])
		if hopByHop[k] || connTokens[k] {
			continue
		}
		want[k] = append(want[k], h[1])
	}
	want.Set("X-Resp-Status", fmt.Sprint(rc.Status))
	want.Set("X-Resp-Framing", rc.Framing)
	want.Set("X-Resp-Size", fmt.Sprint(rc.Size))
	if rt.ReqHeaders {
		want.Set("X-From-Frp", "configured-value")
		want.Set("X-Resp-Extra", "overridden")
	}
	got := s.Header.Clone()
	// X-Forwarded-For: the user's entries extended by the user's address
	uip, _, _ := net.SplitHostPort(userAddr)
	xff := strings.Join(want["X-Forwarded-For"], ", ")
	if xff != "" {
		xff += ", "
	}
	xff += uip
	if g := strings.Join(got["X-Forwarded-For"], ", "); g != xff {
		return fmt.Sprintf("backend saw X-Forwarded-For %q, expected the user's value extended by the user's address: %q", g, xff)
	}
	for _, k := range []string{"X-Forwarded-For", "X-Forwarded-Host", "X-Forwarded-Proto", "Content-Length", "Accept-Encoding", "User-Agent"} {
		// forwarding headers of the reverse proxy family and framing are compared separately / tolerated
		if k == "Accept-Encoding" || k == "User-Agent" {
			if len(want[k]) == 0 {
				delete(got, k) // a proxy may add its own when the user sent none
			}
			continue
		}
		delete(got, k)
		delete(want, k)
	}
	var keys []string
	for k := range want {
		keys = append(keys, k)
	}
	for k := range got {
		if _, ok := want[k]; !ok {
			keys = append(keys, k)
		}
	}
	sort.Strings(keys)
	for _, k := range keys {
		if fmt.Sprint(got[k]) != fmt.Sprint(want[k]) {
			return fmt.Sprintf("end-to-end header %s: backend saw %q, user sent / configuration declares %q", k, got[k], want[k])
		}
	}
	body := bodyOf(rc.Body)
	h := sha256.Sum256(body)
	if s.BodyLen != len(body) || s.BodyHash != hex.EncodeToString(h[:8]) {
		return fmt.Sprintf("backend received a %d-byte body, user sent %d bytes (content equal=%v)", s.BodyLen, len(body), s.BodyHash == hex.EncodeToString(h[:8]))
	}
	// response
	if resp.StatusCode != rc.Status {
		return fmt.Sprintf("user got status %d, backend answered %d", resp.StatusCode, rc.Status)
	}
	if fmt.Sprint(resp.Header["X-Backend-Multi"]) != "[one two]" || resp.Header.Get("X-Backend-Mixed") != "Case" || resp.Header.Get("Set-Cookie") != "a=b; Path=/" {
		return fmt.Sprintf("backend response headers altered: %v", resp.Header)
	}
	if rc.Status == 301 && resp.Header.Get("Location") != "http://elsewhere.example.com/next?x=%2F" {
		return fmt.Sprintf("Location header altered: %q", resp.Header.Get("Location"))
	}
	if rt.RespHeaders != (resp.Header.Get("X-Resp-From-Frp") == "resp-configured") {
		return fmt.Sprintf("configured response header present=%v, configured=%v", resp.Header.Get("X-Resp-From-Frp") != "", rt.RespHeaders)
	}
	wantBody := respBody(rc.Size)
	if rc.Method == "HEAD" || rc.Status == 204 {
		wantBody = nil
	}
	if !bytes.Equal(respBodyGot, wantBody) {
		return fmt.Sprintf("user received a %d-byte response body, backend sent %d bytes", len(respBodyGot), len(wantBody))
	}
	return ""
}

// ---- world ----

type world struct {
	srv   *rw.Server
	cli   *rw.Client
	be    *backend
	host  string
	port  int
	rt    routeCfg
	https bool
}

func (w *world) close() {
	w.cli.Close()
	w.srv.Close()
	w.be.ln.Close()
}

func newWorld(rt routeCfg, timeoutS int64) (*world, string) {
	backendTLS := rt.Plugin == "http2https" || rt.Plugin == "https2https"
	frontTLS := strings.HasPrefix(rt.Plugin, "https2")
	be := startBackend(backendTLS)
	vport := rw.FreePort()
	srv, err := rw.StartServer(func(s *v1.ServerConfig) {
		if rt.Shared {
			vport = s.BindPort
		}
		if frontTLS {
			s.VhostHTTPSPort = vport
		} else {
			s.VhostHTTPPort = vport
		}
		s.VhostHTTPTimeout = timeoutS
	})
	if err != nil {
		return nil, "server: " + err.Error()
	}
	host := "web.example.com"
	var p v1.ProxyConfigurer
	setBase := func(b *v1.ProxyBaseConfig) {
		b.Name, b.LocalIP, b.LocalPort = "web", "127.0.0.1", be.port
		b.Transport.UseEncryption, b.Transport.UseCompression = rt.Enc, rt.Comp
		if rt.Limit != "" {
			b.Transport.BandwidthLimit, _ = types.NewBandwidthQuantity("50MB")
			b.Transport.BandwidthLimitMode = rt.Limit
		}
		switch rt.Plugin {
		case "http2http":
			b.Plugin.Type = v1.PluginHTTP2HTTP
			o := &v1.HTTP2HTTPPluginOptions{Type: v1.PluginHTTP2HTTP, LocalAddr: fmt.Sprintf("127.0.0.1:%d", be.port)}
			if rt.RewriteHost {
				o.HostHeaderRewrite = "rewritten.example.com"
			}
			if rt.ReqHeaders {
				o.RequestHeaders.Set = map[string]string{"X-From-Frp": "configured-value", "x-resp-extra": "overridden"} // the second key is deliberately not in canonical case
			}
			b.Plugin.ClientPluginOptions = o
		case "http2https":
			b.Plugin.Type = v1.PluginHTTP2HTTPS
			o := &v1.HTTP2HTTPSPluginOptions{Type: v1.PluginHTTP2HTTPS, LocalAddr: fmt.Sprintf("127.0.0.1:%d", be.port)}
			if rt.RewriteHost {
				o.HostHeaderRewrite = "rewritten.example.com"
			}
			if rt.ReqHeaders {
				o.RequestHeaders.Set = map[string]string{"X-From-Frp": "configured-value", "x-resp-extra": "overridden"} // the second key is deliberately not in canonical case
			}
			b.Plugin.ClientPluginOptions = o
		case "https2http":
			b.Plugin.Type = v1.PluginHTTPS2HTTP
			o := &v1.HTTPS2HTTPPluginOptions{Type: v1.PluginHTTPS2HTTP, LocalAddr: fmt.Sprintf("127.0.0.1:%d", be.port), CrtPath: rw.TestdataDir + "/server.crt", KeyPath: rw.TestdataDir + "/server.key"}
			if rt.RewriteHost {
				o.HostHeaderRewrite = "rewritten.example.com"
			}
			if rt.ReqHeaders {
				o.RequestHeaders.Set = map[string]string{"X-From-Frp": "configured-value", "x-resp-extra": "overridden"} // the second key is deliberately not in canonical case
			}
			b.Plugin.ClientPluginOptions = o
		case "https2https":
			b.Plugin.Type = v1.PluginHTTPS2HTTPS
			o := &v1.HTTPS2HTTPSPluginOptions{Type: v1.PluginHTTPS2HTTPS, LocalAddr: fmt.Sprintf("127.0.0.1:%d", be.port), CrtPath: rw.TestdataDir + "/server.crt", KeyPath: rw.TestdataDir + "/server.key"}
			if rt.RewriteHost {
				o.HostHeaderRewrite = "rewritten.example.com"
			}
			if rt.ReqHeaders {
				o.RequestHeaders.Set = map[string]string{"X-From-Frp": "configured-value", "x-resp-extra": "overridden"} // the second key is deliberately not in canonical case
			}
			b.Plugin.ClientPluginOptions = o
		}
	}
	if frontTLS {
		hp := &v1.HTTPSProxyConfig{}
		hp.Type = "https"
		hp.CustomDomains = []string{host}
		setBase(&hp.ProxyBaseConfig)
		p = hp
	} else {
		hp := &v1.HTTPProxyConfig{}
		hp.Type = "http"
		hp.CustomDomains = []string{host}
		setBase(&hp.ProxyBaseConfig)
		if rt.Plugin == "" {
			if rt.RewriteHost {
				hp.HostHeaderRewrite = "rewritten.example.com"
			}
			if rt.ReqHeaders {
				hp.RequestHeaders.Set = map[string]string{"X-From-Frp": "configured-value", "x-resp-extra": "overridden"} // the second key is deliberately not in canonical case
			}
		}
		if rt.RespHeaders {
			hp.ResponseHeaders.Set = map[string]string{"X-Resp-From-Frp": "resp-configured"}
		}
		p = hp
	}
	cli, err := rw.StartClient(srv, "", []v1.ProxyConfigurer{p}, nil, func(c *v1.ClientCommonConfig) { c.Transport.TLS.Enable = lo.ToPtr(false) })
	if err != nil {
		srv.Close()
		return nil, "client: " + err.Error()
	}
	if !cli.WaitRunning(8*time.Second, "web") || !rw.WaitPort(vport, 3*time.Second) {
		cli.Close()
		srv.Close()
		return nil, "proxy did not come up"
	}
	return &world{srv: srv, cli: cli, be: be, host: host, port: vport, rt: rt, https: frontTLS}, ""
}

func (w *world) dial() (net.Conn, error) {
	c, err := net.DialTimeout("tcp", fmt.Sprintf("127.0.0.1:%d", w.port), 3*time.Second)
	if err != nil {
		return nil, err
	}
	if w.https {
		tc := tls.Client(c, &tls.Config{ServerName: w.host, InsecureSkipVerify: true})
		if err := tc.Handshake(); err != nil {
			c.Close()
			return nil, err
		}
		return tc, nil
	}
	return c, nil
}

// runSeq sends the requests one after another on one keep-alive connection.
func (w *world) runSeq(seq []reqCase) (viol string, inconclusive string) {
	c, err := w.dial()
	if err != nil {
		return "", "dial: " + err.Error()
	}
	defer c.Close()
	br := bufio.NewReader(c)
	w.be.take()
	for i, rc := range seq {
		_ = c.SetDeadline(time.Now().Add(20 * time.Second))
		host := w.host
		if rc.HostPort {
			host = fmt.Sprintf("%s:%d", w.host, w.port)
		}
		writeRequest(c, host, rc)
		resp, err := http.ReadResponse(br, &http.Request{Method: rc.Method})
		if err != nil {
			if ne, ok := err.(net.Error); ok && ne.Timeout() {
				return "", fmt.Sprintf("request %d: timeout", i)
			}
			return fmt.Sprintf("request %d of the keep-alive sequence (%s %s body=%s): no response: %v", i, rc.Method, rc.Target, rc.Body, err), ""
		}
		body, rerr := io.ReadAll(resp.Body)
		resp.Body.Close()
		if rerr != nil {
			return fmt.Sprintf("request %d: response body: %v", i, rerr), ""
		}
		logs := w.be.take()
		if len(logs) != 1 {
			return fmt.Sprintf("request %d (%s %s): backend saw %d requests (user got status %d)", i, rc.Method, rc.Target, len(logs), resp.StatusCode), ""
		}
		if e := checkOne(rc, w.rt, host, c.LocalAddr().String(), logs[0], resp, body); e != "" {
			return fmt.Sprintf("request %d (%s %s headers=%v body=%s -> %d/%s/%d) route %+v: %s", i, rc.Method, rc.Target, rc.Headers, rc.Body, rc.Status, rc.Framing, rc.Size, w.rt, e), ""
		}
	}
	return "", ""
}

// runConcurrent: k user connections at once, n requests each, every request asks for a response of a distinct size;
// each user must get exactly the responses to its own requests and the backend must see every request once.
// Supplementary (free-running, not an exhaustive schedule exploration): it exists for state shared between the
// tunnels of one proxy (pooled buffers, codecs, transports); a failure is re-run before it is reported.
func (w *world) runConcurrent(k, n int) (viol string, inconclusive string) {
	w.be.take()
	errs := make(chan string, k)
	incs := make(chan string, k)
	var wg sync.WaitGroup
	for g := 0; g < k; g++ {
		wg.Add(1)
		go func(g int) {
			defer wg.Done()
			c, err := w.dial()
			if err != nil {
				incs <- "dial: " + err.Error()
				return
			}
			defer c.Close()
			br := bufio.NewReader(c)
			for i := 0; i < n; i++ {
				size := 3000 + 257*g + 17*i
				rc := reqCase{Method: "POST", Target: fmt.Sprintf("/c/%d/%d", g, i), Body: "small", Status: 200, Framing: "cl", Size: size}
				_ = c.SetDeadline(time.Now().Add(20 * time.Second))
				writeRequest(c, w.host, rc)
				resp, err := http.ReadResponse(br, &http.Request{Method: "POST"})
				if err != nil {
					if ne, ok := err.(net.Error); ok && ne.Timeout() {
						incs <- "timeout"
						return
					}
					errs <- fmt.Sprintf("user %d request %d: no response: %v", g, i, err)
					return
				}
				body, _ := io.ReadAll(resp.Body)
				resp.Body.Close()
				if resp.StatusCode != 200 || !bytes.Equal(body, respBody(size)) {
					errs <- fmt.Sprintf("user %d request %d: asked for a %d-byte response, got status %d with %d bytes (content equal=%v)", g, i, size, resp.StatusCode, len(body), bytes.Equal(body, respBody(size)))
					return
				}
			}
		}(g)
	}
	wg.Wait()
	select {
	case e := <-errs:
		return fmt.Sprintf("%d concurrent user connections, route %+v: %s", k, w.rt, e), ""
	default:
	}
	select {
	case e := <-incs:
		return "", e
	default:
	}
	got := map[string]int{}
	for _, s := range w.be.take() {
		got[s.URI]++
	}
	for g := 0; g < k; g++ {
		for i := 0; i < n; i++ {
			if u := fmt.Sprintf("/c/%d/%d", g, i); got[u] != 1 {
				return fmt.Sprintf("%d concurrent user connections, route %+v: backend saw request %s %d times", k, w.rt, u, got[u]), ""
			}
		}
	}
	return "", ""
}

var headerSets = map[string][][2]string{
	"none":      nil,
	"multi":     {{"X-Multi", "a"}, {"X-Multi", "b"}, {"Accept", "text/html"}, {"Accept", "application/json;q=0.9"}, {"Cookie", "a=1; b=2"}},
	"mixedcase": {{"x-LOWER-upper", "MiXeD vAlUe"}, {"ACCEPT-LANGUAGE", "de-CH"}},
	"large":     {{"X-Large", strings.Repeat("v", 8000)}},
	"huge":      {{"Cookie", "session=" + strings.Repeat("c", 60000)}, {"X-After-Huge", "still-here"}},
	"hopbyhop":  {{"Connection", "keep-alive, X-Drop-Me"}, {"X-Drop-Me", "secret"}, {"Keep-Alive", "timeout=5"}, {"X-Keep", "yes"}},
	"xff":       {{"X-Forwarded-For", "203.0.113.7"}, {"X-Forwarded-For", "198.51.100.9"}, {"User-Agent", "curl/8"}, {"Accept-Encoding", "identity"}},
	"respextra": {{"X-Resp-Extra", "from-user"}},
}

func main() {
	drv.E2Replayers["seq"] = func(raw json.RawMessage) string {
		var cs struct {
			Route routeCfg  `json:"route"`
			Seq   []reqCase `json:"seq"`
		}
		json.Unmarshal(raw, &cs)
		w, inc := newWorld(cs.Route, 5)
		if w == nil {
			fmt.Println("inconclusive:", inc)
			return ""
		}
		defer w.close()
		v, inc := w.runSeq(cs.Seq)
		if inc != "" {
			fmt.Println("inconclusive:", inc)
		}
		return v
	}
	c := drv.Setup("C02", "e2", "exploration", nil)
	if c == nil {
		return
	}
	c.Rule("complete product (per route configuration) of method x target x header set x request body x response status x response framing for single requests, and all keep-alive sequences of length <= 3 over a 4-request alphabet, sent as raw HTTP/1.1 through real frps + real frpc to a logging backend and compared with the reference transformation of the statement (same method, target, end-to-end headers + configured ones, Host rewrite, X-Forwarded-For extended by the user's address, body; response status, headers + configured ones, body); websocket upgrade and CONNECT as byte tunnels; unreachable / silent backend; the four http/https plugins; non-trivial = distinct (route, request sequence)")
	c.Assume("hop-by-hop headers (Connection, Keep-Alive, TE, Trailer, Transfer-Encoding, Upgrade, Proxy-*) and headers named by Connection are not end-to-end; X-Forwarded-Host / X-Forwarded-Proto added by the proxy and Accept-Encoding / User-Agent defaults added when the user sent none are tolerated; real sockets, one connection at a time per world")

	routes := []routeCfg{{Name: "plain"}, {Name: "rewrite", RewriteHost: true}, {Name: "reqset", ReqHeaders: true}, {Name: "respset", RespHeaders: true},
		{Name: "all+enc+comp", RewriteHost: true, ReqHeaders: true, RespHeaders: true, Enc: true, Comp: true}}
	routes = append(routes, routeCfg{Name: "srvlimit+enc+comp", Enc: true, Comp: true, Limit: "server"}, routeCfg{Name: "srvlimit", Limit: "server"}, routeCfg{Name: "clilimit+comp", Comp: true, Limit: "client"})
	routes = append(routes, routeCfg{Name: "shared", Shared: true}, routeCfg{Name: "shared+all+enc", Shared: true, RewriteHost: true, ReqHeaders: true, RespHeaders: true, Enc: true})
	if !c.Quick() {
		routes = append(routes, routeCfg{Name: "enc", Enc: true}, routeCfg{Name: "comp", Comp: true}, routeCfg{Name: "srvlimit+enc", Enc: true, Limit: "server"}, routeCfg{Name: "srvlimit+comp", Comp: true, Limit: "server"})
	}
	plugins := []routeCfg{{Name: "http2http", Plugin: "http2http"}, {Name: "http2https", Plugin: "http2https"}, {Name: "https2http", Plugin: "https2http"}, {Name: "https2https", Plugin: "https2https"},
		{Name: "http2http+comp", Plugin: "http2http", Comp: true}, {Name: "https2http+enc+comp", Plugin: "https2http", Enc: true, Comp: true},
		{Name: "http2http+rw", Plugin: "http2http", RewriteHost: true, ReqHeaders: true}, {Name: "https2http+rw", Plugin: "https2http", RewriteHost: true, ReqHeaders: true},
		{Name: "https2http+shared", Plugin: "https2http", Shared: true}}
	methods := []string{"GET", "HEAD", "POST", "PUT", "DELETE", "PATCH", "OPTIONS"}
	targets := []string{"/", "/a%2Fb", "/a%20b?x=1&y=%26", "//x", "/" + strings.Repeat("seg/", 200) + "?q=" + strings.Repeat("z", 500)}
	hsets := []string{"none", "multi", "mixedcase", "large", "huge", "hopbyhop", "xff", "respextra"}
	bodies := []string{"none", "cl0", "small", "chunked"}
	if !c.Quick() {
		bodies = append(bodies, "big")
	}
	type respShape struct {
		status int
		fr     string
		size   int
	}
	resps := []respShape{{200, "cl", 5}, {200, "chunked", 70000}, {204, "cl", 0}, {301, "cl", 0}, {404, "chunked", 10}, {500, "cl", 100}}
	if !c.Quick() {
		resps = append(resps, respShape{200, "cl", 3 << 20})
	}
	var mu sync.Mutex
	total, inconclusive := 0, 0
	runRoute := func(rt routeCfg, singles []reqCase, seqs [][]reqCase) {
		w, inc := newWorld(rt, 5)
		if w == nil {
			mu.Lock()
			inconclusive++
			c.Note("inconclusive:"+rt.Name, inc)
			mu.Unlock()
			return
		}
		defer w.close()
		do := func(seq []reqCase) {
			v, inc := w.runSeq(seq)
			mu.Lock()
			defer mu.Unlock()
			total++
			key := fmt.Sprintf("%s:%v", rt.Name, seq)
			if inc != "" {
				inconclusive++
				c.Count("")
				return
			}
			c.Count(key)
			if v != "" {
				c.ViolateConfirmed("seq", "seq:"+rt.Name+":"+sigOf(v), v, map[string]any{"route": rt, "seq": seq}, 2)
			}
		}
		for _, rc := range singles {
			if c.TimeUp() {
				return
			}
			do([]reqCase{rc})
		}
		for _, s := range seqs {
			if c.TimeUp() {
				return
			}
			do(s)
		}
	}
	// single requests: full product for the plain route, pairwise-style sub-lattices for the others (each dimension fully varied once)
	var full, axes []reqCase
	for _, m := range methods {
		for _, t := range targets {
			for _, h := range hsets {
				for _, b := range bodies {
					if (m == "GET" || m == "HEAD" || m == "OPTIONS" || m == "DELETE") && b != "none" && b != "cl0" {
						continue
					}
					for _, r := range resps {
						full = append(full, reqCase{m, t, headerSets[h], b, r.status, r.fr, r.size, false})
					}
				}
			}
		}
	}
	base := reqCase{"POST", "/a%20b?x=1&y=%26", headerSets["multi"], "small", 200, "chunked", 70000, false}
	for _, m := range methods {
		x := base
		x.Method = m
		if m == "GET" || m == "HEAD" || m == "OPTIONS" || m == "DELETE" {
			x.Body = "none"
		}
		axes = append(axes, x)
	}
	for _, t := range targets {
		x := base
		x.Target = t
		axes = append(axes, x)
	}
	for _, h := range hsets {
		x := base
		x.Headers = headerSets[h]
		axes = append(axes, x)
	}
	for _, b := range bodies {
		x := base
		x.Body = b
		axes = append(axes, x)
	}
	for _, r := range resps {
		x := base
		x.Status, x.Framing, x.Size = r.status, r.fr, r.size
		axes = append(axes, x)
	}
	{
		// the Host header names the port of the public endpoint, as a browser sends it for a non-default port
		x := base
		x.HostPort = true
		axes = append(axes, x)
		full = append(full, x)
	}
	// keep-alive sequences of length <= 3 over a 4-request alphabet
	alpha := []reqCase{
		{"GET", "/", nil, "none", 200, "cl", 5, false},
		{"POST", "/a%2Fb", headerSets["multi"], "chunked", 200, "chunked", 70000, false},
		{"HEAD", "/h", headerSets["xff"], "none", 200, "cl", 100, false},
		{"PUT", "/p?x=%26", headerSets["hopbyhop"], "small", 404, "chunked", 10, false},
	}
	var seqs [][]reqCase
	for _, a := range alpha {
		for _, b := range alpha {
			seqs = append(seqs, []reqCase{a, b})
			for _, d := range alpha {
				seqs = append(seqs, []reqCase{a, b, d})
			}
		}
	}
	var wg sync.WaitGroup
	sem := make(chan struct{}, 6)
	launch := func(rt routeCfg, singles []reqCase, sq [][]reqCase) {
		wg.Add(1)
		go func() {
			defer wg.Done()
			sem <- struct{}{}
			defer func() { <-sem }()
			runRoute(rt, singles, sq)
		}()
	}
	for k := 0; k < 4; k++ {
		var part []reqCase
		for i, x := range full {
			if i%4 == k {
				part = append(part, x)
			}
		}
		launch(routes[0], part, nil)
	}
	launch(routes[0], nil, seqs)
	for _, rt := range routes[1:] {
		launch(rt, axes, seqs[:20])
	}
	for _, rt := range plugins {
		launch(rt, axes, seqs[:12])
	}
	wg.Wait()
	c.Sample(map[string]any{"route": routes[4], "request": base})
	c.Note("requests_sequences", total)
	c.Note("inconclusive", inconclusive)
	if inconclusive > 0 {
		c.Cap(fmt.Sprintf("%d sequences / worlds inconclusive (timeouts)", inconclusive))
	}
	// concurrent users per route kind (supplementary)
	drv.E2Replayers["concurrent"] = func(raw json.RawMessage) string {
		var rt routeCfg
		json.Unmarshal(raw, &rt)
		w, inc := newWorld(rt, 5)
		if inc != "" {
			return ""
		}
		defer w.close()
		v, _ := w.runConcurrent(8, 5)
		return v
	}
	for _, rt := range []routeCfg{{Name: "plain"}, {Name: "enc+comp", Enc: true, Comp: true}, {Name: "http2http+comp", Plugin: "http2http", Comp: true}, {Name: "https2http+enc+comp", Plugin: "https2http", Enc: true, Comp: true}, {Name: "srvlimit+comp", Comp: true, Limit: "server"}} {
		w, inc := newWorld(rt, 5)
		if inc != "" {
			c.Cap("concurrent part, route " + rt.Name + " inconclusive: " + inc)
			continue
		}
		v, inc := w.runConcurrent(8, 5)
		w.close()
		c.Count("concurrent:" + rt.Name)
		if inc != "" {
			c.Cap("concurrent part, route " + rt.Name + " inconclusive: " + inc)
		}
		if v != "" {
			c.ViolateConfirmed("concurrent", "concurrent:"+rt.Name, v, rt, 2)
		}
	}
	special(c)
	c.Finish()
}

func sigOf(v string) string {
	if i := strings.LastIndex(v, "}: "); i >= 0 {
		v = v[i+3:]
	}
	if len(v) > 90 {
		v = v[:90]
	}
	return v
}
