package main

import (
	"bufio"
	"bytes"
	"fmt"
	"io"
	"net"
	"net/http"
	"strings"
	"time"

	"verif/mc/drv"
)

// special: websocket upgrade as a byte tunnel, unreachable backend, silent backend (gateway timeout), recovery afterwards.
func special(c *drv.Ctx) {
	// websocket-style upgrade: after 101 the connection is a transparent byte tunnel
	{
		w, inc := newWorld(routeCfg{Name: "upgrade"}, 5)
		c.Count("special:upgrade")
		if w == nil {
			c.Cap("upgrade world inconclusive: " + inc)
		} else {
			// replace the backend handler by a raw upgrade echo server
			w.be.ln.Close()
			l, err := net.Listen("tcp", fmt.Sprintf("127.0.0.1:%d", w.be.port))
			if err == nil {
				go func() {
					for {
						bc, err := l.Accept()
						if err != nil {
							return
						}
						go func() {
							defer bc.Close()
							br := bufio.NewReader(bc)
							req, err := http.ReadRequest(br)
							if err != nil || !strings.EqualFold(req.Header.Get("Upgrade"), "websocket") {
								return
							}
							io.WriteString(bc, "HTTP/1.1 101 Switching Protocols\r\nUpgrade: websocket\r\nConnection: Upgrade\r\n\r\n")
							io.Copy(bc, br)
						}()
					}
				}()
				uc, err := w.dial()
				if err == nil {
					_ = uc.SetDeadline(time.Now().Add(10 * time.Second))
					fmt.Fprintf(uc, "GET /ws HTTP/1.1\r\nHost: %s\r\nUpgrade: websocket\r\nConnection: Upgrade\r\nSec-WebSocket-Key: x3JJHMbDL1EzLkh9GBhXDw==\r\nSec-WebSocket-Version: 13\r\n\r\n", w.host)
					ubr := bufio.NewReader(uc)
					resp, err := http.ReadResponse(ubr, nil)
					if err != nil || resp.StatusCode != 101 {
						c.Violate("special", "special:upgrade:status", fmt.Sprintf("websocket upgrade through the http proxy: response %v err %v", resp, err), "upgrade")
					} else {
						payload := bytes.Repeat([]byte{0x81, 0x05, 'h', 'e', 'l', 'l', 'o', 0x00, 0xff}, 4000)
						go uc.Write(payload)
						got := make([]byte, len(payload))
						if _, err := io.ReadFull(ubr, got); err != nil || !bytes.Equal(got, payload) {
							c.Violate("special", "special:upgrade:bytes", fmt.Sprintf("after the upgrade the tunnel is not byte-transparent: err=%v equal=%v", err, bytes.Equal(got, payload)), "upgrade")
						}
					}
					uc.Close()
				}
				l.Close()
			}
			w.close()
		}
	}
	// backend unreachable: not-found page in bounded time; other requests unaffected afterwards
	{
		w, inc := newWorld(routeCfg{Name: "unreachable"}, 2)
		c.Count("special:unreachable")
		if w == nil {
			c.Cap("unreachable world inconclusive: " + inc)
		} else {
			w.be.ln.Close()
			t0 := time.Now()
			uc, err := w.dial()
			if err == nil {
				_ = uc.SetDeadline(time.Now().Add(20 * time.Second))
				fmt.Fprintf(uc, "GET / HTTP/1.1\r\nHost: %s\r\n\r\n", w.host)
				resp, err := http.ReadResponse(bufio.NewReader(uc), nil)
				if err != nil {
					if ne, ok := err.(net.Error); ok && ne.Timeout() {
						c.Violate("special", "special:unreachable:hang", "backend unreachable: the user got no answer within 20 s", "unreachable")
					}
				} else {
					body, _ := io.ReadAll(resp.Body)
					if resp.StatusCode != 404 || !strings.Contains(string(body), "not found") {
						c.Violate("special", "special:unreachable:answer", fmt.Sprintf("backend unreachable: user got %d %.60q, expected the not-found page", resp.StatusCode, body), "unreachable")
					}
				}
				uc.Close()
			}
			c.Note("unreachable_answer_ms", time.Since(t0).Milliseconds())
			w.close()
		}
	}
	// backend accepts but never answers: gateway timeout within the configured time, then the next request works
	{
		w, inc := newWorld(routeCfg{Name: "silent"}, 1)
		c.Count("special:silent")
		if w == nil {
			c.Cap("silent world inconclusive: " + inc)
		} else {
			w.be.mu.Lock()
			w.be.silent = true
			w.be.mu.Unlock()
			uc, err := w.dial()
			if err == nil {
				t0 := time.Now()
				_ = uc.SetDeadline(time.Now().Add(15 * time.Second))
				fmt.Fprintf(uc, "GET /slow HTTP/1.1\r\nHost: %s\r\n\r\n", w.host)
				resp, err := http.ReadResponse(bufio.NewReader(uc), nil)
				if err != nil {
					if ne, ok := err.(net.Error); ok && ne.Timeout() {
						c.Violate("special", "special:silent:hang", "backend silent with vhostHTTPTimeout=1s: the user got no answer within 15 s", "silent")
					}
				} else if resp.StatusCode != 504 {
					c.Violate("special", "special:silent:status", fmt.Sprintf("backend silent with vhostHTTPTimeout=1s: user got %d after %v, expected 504", resp.StatusCode, time.Since(t0)), "silent")
				}
				uc.Close()
			}
			w.be.mu.Lock()
			w.be.silent = false
			w.be.mu.Unlock()
			v, inc2 := w.runSeq([]reqCase{{"GET", "/after", nil, "none", 200, "cl", 5, false}})
			if v != "" {
				c.Violate("special", "special:silent:after", "after a gateway timeout the next request fails: "+v, "silent")
			} else if inc2 != "" {
				c.Cap("after-timeout request inconclusive: " + inc2)
			}
			w.close()
		}
	}
}
