// C13 — load-balancing groups: keyed membership, live members only, clean lifecycle.
// E1: the real frps on the virtual network, scripted clients; all interleavings of join /
// leave / user arrival up to a deviation bound.
package main

import (
	"encoding/base64"
	"fmt"
	"io"
	"strings"
	"sync"
	"time"

	"github.com/fatedier/frp/pkg/msg"
	"github.com/fatedier/frp/pkg/util/vhost"
	"github.com/fatedier/frp/server/controller"

	"verif/mc/drv"
	"verif/mc/peek"
	"verif/mc/vs"
	"verif/mc/worlds/srvworld"
)

const (
	muxPort  = 7500
	httpPort = 7080
	gport    = 20001
)

type kindT struct {
	name string
	reg  func(name, key string, variant int) *msg.NewProxy
	// probe sends one user connection/request to the group's endpoint as announced in resp and returns who served it.
	probe func(w *srvworld.World, resp *msg.NewProxyResp, src string) (string, string)
}

func tcpReg(port int) func(name, key string, variant int) *msg.NewProxy {
	return func(name, key string, variant int) *msg.NewProxy {
		m := &msg.NewProxy{ProxyName: name, ProxyType: "tcp", Group: "G", GroupKey: key, RemotePort: port}
		if variant == 1 {
			m.RemotePort = 20002 // different endpoint parameters
		}
		return m
	}
}

func portOf(resp *msg.NewProxyResp) int {
	var p int
	i := strings.LastIndex(resp.RemoteAddr, ":")
	fmt.Sscanf(resp.RemoteAddr[i+1:], "%d", &p)
	return p
}

func tcpProbe(w *srvworld.World, resp *msg.NewProxyResp, src string) (string, string) {
	return w.UserEcho(src, portOf(resp), "ping-"+src)
}

func muxReg(name, key string, variant int) *msg.NewProxy {
	m := &msg.NewProxy{ProxyName: name, ProxyType: "tcpmux", Multiplexer: "httpconnect", Group: "G", GroupKey: key, CustomDomains: []string{"mux.example.com"}}
	if variant == 1 {
		m.CustomDomains = []string{"other.example.com"}
	}
	return m
}

func muxProbe(w *srvworld.World, resp *msg.NewProxyResp, src string) (string, string) {
	u, err := w.H.DialFrom(src, fmt.Sprintf("127.0.0.1:%d", muxPort))
	if err != nil {
		return "", "dial: " + err.Error()
	}
	defer u.Close()
	fmt.Fprintf(u, "CONNECT mux.example.com:80 HTTP/1.1\r\nHost: mux.example.com:80\r\n\r\n")
	var head []byte
	one := make([]byte, 1)
	for !strings.HasSuffix(string(head), "\r\n\r\n") {
		if _, idle, err := u.ReadFullOrIdle(one); idle {
			return "", "no CONNECT reply: system idle with the user connection open"
		} else if err != nil {
			return "", "connect reply: " + err.Error()
		}
		head = append(head, one[0])
	}
	if !strings.HasPrefix(string(head), "HTTP/1.1 200") {
		return "", fmt.Sprintf("connect reply %q", head)
	}
	pl := "ping-" + src
	u.Write([]byte(pl))
	eb := make([]byte, len(pl))
	if _, idle, err := u.ReadFullOrIdle(eb); idle {
		return "", "no echo: system idle with the user connection open"
	} else if err != nil {
		return "", "echo: " + err.Error()
	}
	if string(eb) != pl {
		return "", fmt.Sprintf("echo mismatch %q", eb)
	}
	for _, r := range w.Works {
		if r.Src == src {
			return r.Peer + "/" + r.Proxy, ""
		}
	}
	return "", "no work record for " + src
}

func httpReg(name, key string, variant int) *msg.NewProxy {
	m := &msg.NewProxy{ProxyName: name, ProxyType: "http", Group: "G", GroupKey: key, CustomDomains: []string{"web.example.com"}}
	if variant == 1 {
		m.Locations = []string{"/other"}
	}
	return m
}

// httpProbe performs what HTTPReverseProxy does for one request: route lookup + CreateConnection.
func httpProbe(w *srvworld.World, resp *msg.NewProxyResp, src string) (string, string) {
	rc := peek.F(w.Svc, "rc").Interface().(*controller.ResourceController)
	ri := &vhost.RequestRouteInfo{Host: "web.example.com", URL: "/", RemoteAddr: src}
	if cfg := rc.HTTPReverseProxy.GetRouteConfig("web.example.com", "/", ""); cfg != nil && cfg.ChooseEndpointFn != nil {
		ri.Endpoint, _ = cfg.ChooseEndpointFn() // as the Rewrite hook of the reverse proxy does
	}
	c, err := rc.HTTPReverseProxy.CreateConnection(ri, true)
	if err != nil {
		return "", "createconn: " + err.Error()
	}
	defer c.Close()
	pl := "ping-" + src
	c.Write([]byte(pl))
	eb := make([]byte, len(pl))
	done := false
	var rerr error
	go func() { _, rerr = io.ReadFull(c, eb); done = true }()
	if !vs.BlockOrIdle("httpecho|idle", func() bool { return done }) {
		return "", "no echo: system idle"
	}
	if rerr != nil {
		return "", "echo: " + rerr.Error()
	}
	for _, r := range w.Works {
		if r.Src == src {
			return r.Peer + "/" + r.Proxy, ""
		}
	}
	return "", "no work record for " + src
}

var kinds = map[string]kindT{
	"tcp":    {"tcp", tcpReg(gport), tcpProbe},
	"tcp0":   {"tcp0", tcpReg(0), tcpProbe},
	"tcpmux": {"tcpmux", muxReg, muxProbe},
	"http":   {"http", httpReg, httpProbe},
}

func newWorld(x *vs.Exec) *srvworld.World {
	return srvworld.New(x, srvworld.Opt{TCPMuxPort: muxPort, HTTPPort: httpPort, UserConnTimeout: 5, HeartbeatTimeout: -1})
}

func login(w *srvworld.World, name string) *srvworld.Peer {
	p, _, err := w.Login(name, srvworld.LoginOpt{User: "u" + name})
	if err != nil {
		vs.Fail("setup: login %s: %v", name, err)
		panic("setup")
	}
	p.AutoWork()
	return p
}

func finish(w *srvworld.World) {
	w.Teardown()
	d := w.Dump()
	if d != w.Base {
		vs.Fail("after every session ended the server state differs from the initial state:\n%s--- initial:\n%s", d, w.Base)
	}
}

func end(x *vs.Exec) string {
	w, _ := x.Data.(*srvworld.World)
	if w == nil {
		return "no world"
	}
	st, probs := w.EndReport(x)
	for _, p := range probs {
		x.Fails = append(x.Fails, p)
	}
	return st + strings.Join(x.Obs, "\n")
}

// race: the last leave of member A races with the join of member B.
func scRace(k kindT) func(x *vs.Exec) {
	return func(x *vs.Exec) {
		defer func() {
			if r := recover(); r != nil && r != "setup" {
				panic(r)
			}
		}()
		w := newWorld(x)
		a, b := login(w, "a"), login(w, "b")
		ra := a.NewProxy(k.reg("g1", "k", 0))
		if ra == nil || ra.Error != "" {
			vs.Fail("first member refused: %+v", ra)
			return
		}
		w.Quiesce()
		var rb *msg.NewProxyResp
		var wg sync.WaitGroup
		wg.Add(2)
		vs.SetInterest(true)
		go func() { defer wg.Done(); a.CloseProxy("g1") }()
		go func() { defer wg.Done(); rb = b.NewProxy(k.reg("g2", "k", 0)) }()
		wg.Wait()
		w.Quiesce()
		vs.SetInterest(false)
		if rb == nil {
			vs.Fail("join racing with the last leave got no answer (session died)")
		} else if rb.Error != "" {
			vs.Fail("join racing with the last leave was refused: %s", rb.Error)
		} else {
			vs.Observe("joined at %s", rb.RemoteAddr)
			who, errText := k.probe(w, rb, "10.0.0.1:1111")
			if errText != "" {
				vs.Fail("group has a live member (g2 joined successfully) but a user connection to its endpoint failed: %s", errText)
			} else if who != "b/g2" {
				vs.Fail("user connection served by %s, expected the only live member b/g2", who)
			}
			b.CloseProxy("g2")
			w.Quiesce()
		}
		// the endpoint can be created again immediately
		r3 := a.NewProxy(k.reg("g3", "k", 0))
		if r3 == nil || r3.Error != "" {
			vs.Fail("group cannot be created again after its last member left: %+v", r3)
		} else if who, e := k.probe(w, r3, "10.0.0.3:3333"); e != "" || who != "a/g3" {
			vs.Fail("re-created group does not serve: who=%q err=%s", who, e)
		}
		finish(w)
	}
}

// params: wrong key / different endpoint parameters are refused and leave the group unchanged.
func scParams(k kindT) func(x *vs.Exec) {
	return func(x *vs.Exec) {
		defer func() {
			if r := recover(); r != nil && r != "setup" {
				panic(r)
			}
		}()
		w := newWorld(x)
		a, b := login(w, "a"), login(w, "b")
		ra := a.NewProxy(k.reg("g1", "k", 0))
		if ra == nil || ra.Error != "" {
			vs.Fail("first member refused: %+v", ra)
			return
		}
		w.Quiesce()
		before := w.Dump()
		vs.SetInterest(true)
		r1 := b.NewProxy(k.reg("bad1", "wrong", 0))
		r2 := b.NewProxy(k.reg("bad2", "k", 1))
		vs.SetInterest(false)
		w.Quiesce()
		if r1 == nil || r1.Error == "" {
			vs.Fail("join with a wrong group key was accepted: %+v", r1)
		}
		if r2 == nil || r2.Error == "" {
			vs.Fail("join with different endpoint parameters was accepted: %+v", r2)
		}
		if d := w.Dump(); d != before {
			vs.Fail("refused joins changed the server state:\n%s--- before:\n%s", d, before)
		}
		if k.name == "tcpmux" || k.name == "http" {
			// a member announcing two names, the second of which is taken by an ungrouped proxy: the join fails
			// part-way and must leave the group as it was
			blk := &msg.NewProxy{ProxyName: "blk", ProxyType: k.name, CustomDomains: []string{"taken.example.com"}}
			if k.name == "tcpmux" {
				blk.Multiplexer = "httpconnect"
			}
			if r := b.NewProxy(blk); r == nil || r.Error != "" {
				vs.Fail("setup: ungrouped proxy refused: %+v", r)
			}
			w.Quiesce()
			before2 := w.Dump()
			m := k.reg("multi", "k", 0)
			m.CustomDomains = append(m.CustomDomains, "taken.example.com")
			vs.SetInterest(true)
			r4 := b.NewProxy(m)
			vs.SetInterest(false)
			w.Quiesce()
			if r4 == nil || r4.Error == "" {
				vs.Fail("join announcing a name that another proxy holds was accepted: %+v", r4)
			}
			if d := w.Dump(); d != before2 {
				vs.Fail("a join refused part-way changed the server state:\n%s--- before:\n%s", d, before2)
			}
			b.CloseProxy("blk")
			w.Quiesce()
		}
		if k.name == "tcpmux" {
			// the CONNECT credentials are endpoint parameters too: one group, one user name, one password
			cred := func(name, user, pw string) *msg.NewProxy {
				return &msg.NewProxy{ProxyName: name, ProxyType: "tcpmux", Multiplexer: "httpconnect", Group: "GP", GroupKey: "k", CustomDomains: []string{"pw.example.com"}, HTTPUser: user, HTTPPwd: pw}
			}
			if r := a.NewProxy(cred("pw1", "alice", "pw")); r == nil || r.Error != "" {
				vs.Fail("setup: protected group refused: %+v", r)
			}
			w.Quiesce()
			before3 := w.Dump()
			for i, c := range [][2]string{{"alice", "other-pw"}, {"bob", "pw"}, {"", ""}} {
				if r := b.NewProxy(cred(fmt.Sprintf("pw-bad%d", i), c[0], c[1])); r == nil || r.Error == "" {
					vs.Fail("tcpmux group protected by alice:pw admitted a member announcing credentials %q:%q", c[0], c[1])
				}
			}
			w.Quiesce()
			if d := w.Dump(); d != before3 {
				vs.Fail("refused joins (credentials) changed the server state:\n%s--- before:\n%s", d, before3)
			}
			a.CloseProxy("pw1")
			w.Quiesce()
		}
		if who, e := k.probe(w, ra, "10.0.0.1:1111"); e != "" || who != "a/g1" {
			vs.Fail("after refused joins the member no longer serves: who=%q err=%s", who, e)
		}
		r3 := b.NewProxy(k.reg("g2", "k", 0))
		if r3 == nil || r3.Error != "" {
			vs.Fail("join with the right key and parameters was refused: %+v", r3)
		}
		finish(w)
	}
}

// deliver: two members, user connections arrive while one member leaves.
func scDeliver(k kindT, users int) func(x *vs.Exec) {
	return func(x *vs.Exec) {
		defer func() {
			if r := recover(); r != nil && r != "setup" {
				panic(r)
			}
		}()
		w := newWorld(x)
		a, b := login(w, "a"), login(w, "b")
		ra := a.NewProxy(k.reg("g1", "k", 0))
		rb := b.NewProxy(k.reg("g2", "k", 0))
		if ra == nil || ra.Error != "" || rb == nil || rb.Error != "" {
			vs.Fail("setup registrations refused: %+v %+v", ra, rb)
			return
		}
		w.Quiesce()
		var wg sync.WaitGroup
		served := make([]string, users)
		errs := make([]string, users)
		vs.SetInterest(true)
		for i := 0; i < users; i++ {
			wg.Add(1)
			go func(i int) {
				defer wg.Done()
				served[i], errs[i] = k.probe(w, rb, fmt.Sprintf("10.0.0.%d:%d", i+1, 1000+i))
			}(i)
		}
		wg.Add(1)
		go func() { defer wg.Done(); a.CloseProxy("g1") }()
		wg.Wait()
		vs.SetInterest(false)
		w.Quiesce()
		for i := 0; i < users; i++ {
			if errs[i] != "" {
				vs.Fail("user connection %d lost although member g2 stayed live: %s", i, errs[i])
			} else if served[i] != "a/g1" && served[i] != "b/g2" {
				vs.Fail("user connection %d served by %q", i, served[i])
			}
			n := 0
			for _, r := range w.Works {
				if r.Src == fmt.Sprintf("10.0.0.%d:%d", i+1, 1000+i) {
					n++
				}
			}
			if n > 1 {
				vs.Fail("user connection %d handed to %d work connections", i, n)
			}
		}
		vs.Observe("served=%v", served)
		// after a left, everything goes to b
		if who, e := k.probe(w, rb, "10.0.0.9:9999"); e != "" || who != "b/g2" {
			vs.Fail("after g1 left, a user connection was served by %q (err %s), expected b/g2", who, e)
		}
		finish(w)
	}
}

// rotate: http requests rotate over stable members.
func scRotate() func(x *vs.Exec) {
	k := kinds["http"]
	return func(x *vs.Exec) {
		defer func() {
			if r := recover(); r != nil && r != "setup" {
				panic(r)
			}
		}()
		w := newWorld(x)
		a, b := login(w, "a"), login(w, "b")
		ra := a.NewProxy(k.reg("g1", "k", 0))
		rb := b.NewProxy(k.reg("g2", "k", 0))
		if ra == nil || ra.Error != "" || rb == nil || rb.Error != "" {
			vs.Fail("setup registrations refused: %+v %+v", ra, rb)
			return
		}
		w.Quiesce()
		count := map[string]int{}
		for i := 0; i < 6; i++ {
			who, e := k.probe(w, rb, fmt.Sprintf("10.0.1.%d:%d", i+1, 2000+i))
			if e != "" {
				vs.Fail("request %d failed: %s", i, e)
			}
			count[who]++
		}
		if count["a/g1"] != 3 || count["b/g2"] != 3 {
			vs.Fail("6 requests over 2 stable members were distributed %v, expected 3/3", count)
		}
		finish(w)
	}
}

// siblings: two groups share a host and are told apart by the routing user only. When the last member of one leaves,
// the other group's endpoint must stay: "the group's endpoint exists exactly as long as it has members".
func scSiblings(kind string) func(x *vs.Exec) {
	return func(x *vs.Exec) {
		defer func() {
			if r := recover(); r != nil && r != "setup" {
				panic(r)
			}
		}()
		w := newWorld(x)
		a, b := login(w, "a"), login(w, "b")
		reg := func(name, group, user string) *msg.NewProxy {
			if kind == "http" {
				return &msg.NewProxy{ProxyName: name, ProxyType: "http", Group: group, GroupKey: "k", CustomDomains: []string{"web.example.com"}, RouteByHTTPUser: user}
			}
			return &msg.NewProxy{ProxyName: name, ProxyType: "tcpmux", Multiplexer: "httpconnect", Group: group, GroupKey: "k", CustomDomains: []string{"mux.example.com"}, RouteByHTTPUser: user}
		}
		ra := a.NewProxy(reg("g1", "GA", "ua"))
		rb := b.NewProxy(reg("g2", "GB", "ub"))
		if ra == nil || ra.Error != "" || rb == nil || rb.Error != "" {
			vs.Fail("setup registrations refused: %+v %+v", ra, rb)
			return
		}
		w.Quiesce()
		probe := func(user, src string) (string, string) {
			if kind == "http" {
				rc := peek.F(w.Svc, "rc").Interface().(*controller.ResourceController)
				ri := &vhost.RequestRouteInfo{Host: "web.example.com", URL: "/", RemoteAddr: src, HTTPUser: user}
				cfg := rc.HTTPReverseProxy.GetRouteConfig("web.example.com", "/", user)
				if cfg == nil {
					return "", "no route (not-found page)"
				}
				if cfg.ChooseEndpointFn != nil {
					ri.Endpoint, _ = cfg.ChooseEndpointFn()
				}
				c, err := rc.HTTPReverseProxy.CreateConnection(ri, true)
				if err != nil {
					return "", "createconn: " + err.Error()
				}
				defer c.Close()
				c.Write([]byte("ping"))
				eb := make([]byte, 4)
				done := false
				go func() { io.ReadFull(c, eb); done = true }()
				if !vs.BlockOrIdle("echo|idle", func() bool { return done }) {
					return "", "no echo"
				}
			} else {
				u, e := w.ConnectMux(src, "mux.example.com", "Proxy-Authorization: Basic "+base64.StdEncoding.EncodeToString([]byte(user+":x"))+"\r\n")
				if e != "" {
					return "", e
				}
				defer u.Close()
				u.Write([]byte("ping"))
				eb := make([]byte, 4)
				if _, idle, err := u.ReadFullOrIdle(eb); idle || err != nil {
					return "", fmt.Sprintf("no echo (idle=%v err=%v)", idle, err)
				}
			}
			for _, r := range w.Works {
				if r.Src == src {
					return r.Peer + "/" + r.Proxy, ""
				}
			}
			return "", "no work record for " + src
		}
		if who, e := probe("ub", "10.0.2.1:3001"); e != "" || who != "b/g2" {
			vs.Fail("setup: request for user ub served by %q (%s)", who, e)
		}
		vs.SetInterest(true)
		a.CloseProxy("g1")
		w.Quiesce()
		vs.SetInterest(false)
		if who, e := probe("ub", "10.0.2.2:3002"); e != "" || who != "b/g2" {
			vs.Fail("%s groups GA (user ua) and GB (user ub) on one host: after the last member of GA left, a request for user ub is served by %q (%s); GB still has a live member", kind, who, e)
		}
		if who, e := probe("ua", "10.0.2.3:3003"); e == "" {
			vs.Fail("%s: after the last member of GA left a request for user ua is still served, by %q", kind, who)
		}
		finish(w)
	}
}

func scenarios() {
	vs.ScenarioFactory = func(name string) *vs.Scenario {
		parts := strings.Split(name, "/")
		if len(parts) != 2 {
			return nil
		}
		k, ok := kinds[parts[0]]
		if !ok {
			return nil
		}
		s := &vs.Scenario{Name: name, Horizon: 200 * time.Second, End: end, MaxSteps: 20000, NoEarlyTick: true}
		switch parts[1] {
		case "race":
			s.Body = scRace(k)
		case "params":
			s.Body = scParams(k)
		case "deliver2":
			s.Body = scDeliver(k, 2)
		case "deliver3":
			s.Body = scDeliver(k, 3)
		case "rotate":
			s.Body = scRotate()
		case "siblings":
			s.Body = scSiblings(parts[0])
		default:
			return nil
		}
		return s
	}
}

func main() {
	c := drv.Setup("C13", "e1", "model_checking", scenarios)
	if c == nil {
		return
	}
	c.Rule("E1: real frps on the virtual network; scripted clients; every schedule of the region of interest (join/leave/user arrival) with at most B deviations from the default schedule; non-trivial = distinct end state or observation trace")
	c.Assume("virtual network and clock model the OS; third-party muxers not involved (tcpMux off)")
	type run struct {
		scn   string
		bound int
	}
	var runs []run
	b := drv.Pick(c, 2, 3)
	for _, k := range []string{"tcp", "tcp0", "tcpmux", "http"} {
		runs = append(runs, run{k + "/params", 1}, run{k + "/race", b}, run{k + "/deliver2", b - 1})
	}
	runs = append(runs, run{"http/rotate", 0}, run{"http/siblings", 1}, run{"tcpmux/siblings", 1})
	if !c.Quick() {
		runs = append(runs, run{"tcp/deliver3", 2}, run{"tcpmux/deliver3", 2})
	}
	for i, r := range runs {
		c.ExploreBoth(r.scn, r.bound, 1.0/float64(len(runs)-i))
	}
	c.Finish()
}
