// C14 part e2real — the server's heartbeat rule holds on both connection layouts: plain connections and stream
// multiplexing (tcpMux). Real frps on loopback, a scripted peer speaking the wire protocol (through a yamux stream when
// tcpMux is on): a logged-in peer that never sends a heartbeat is torn down although the configured timeout was given
// together with tcpMux; a peer that keeps sending heartbeats is not.
package main

import (
	"encoding/json"
	"fmt"
	"io"
	"net"
	"time"

	"github.com/hashicorp/yamux"
	"github.com/samber/lo"

	v1 "github.com/fatedier/frp/pkg/config/v1"
	"github.com/fatedier/frp/pkg/msg"
	netpkg "github.com/fatedier/frp/pkg/util/net"
	"github.com/fatedier/frp/pkg/util/util"

	"verif/mc/drv"
	"verif/mc/peek"
	_ "verif/mc/quiet"
	rw "verif/mc/worlds/realworld"
)

type hcase struct {
	Mux      bool `json:"tcpMux"`
	TimeoutS int  `json:"heartbeatTimeout"`
	Pings    bool `json:"peer_sends_heartbeats"`
}

func sessions(s *rw.Server) int { return peek.F(s.Svc, "ctlManager.ctlsByRunID").Len() }

func run(hc hcase) (viol, inconclusive string) {
	srv, err := rw.StartServer(func(s *v1.ServerConfig) {
		s.Transport.TCPMux = lo.ToPtr(hc.Mux)
		s.Transport.HeartbeatTimeout = int64(hc.TimeoutS)
	})
	if err != nil {
		return "", "server: " + err.Error()
	}
	defer srv.Close()
	raw, err := net.DialTimeout("tcp", fmt.Sprintf("127.0.0.1:%d", srv.Cfg.BindPort), 2*time.Second)
	if err != nil {
		return "", "dial: " + err.Error()
	}
	defer raw.Close()
	var conn io.ReadWriteCloser = raw
	if hc.Mux {
		cfg := yamux.DefaultConfig()
		cfg.LogOutput = io.Discard
		sess, err := yamux.Client(raw, cfg)
		if err != nil {
			return "", "yamux: " + err.Error()
		}
		defer sess.Close()
		st, err := sess.OpenStream()
		if err != nil {
			return "", "yamux stream: " + err.Error()
		}
		conn = st
	}
	ts := time.Now().Unix()
	if err := msg.WriteMsg(conn, &msg.Login{Version: "0.62.0", User: "hb", PrivilegeKey: util.GetAuthKey(rw.Token, ts), Timestamp: ts}); err != nil {
		return "", "login write: " + err.Error()
	}
	_ = raw.SetReadDeadline(time.Now().Add(5 * time.Second))
	var resp msg.LoginResp
	if err := msg.ReadMsgInto(conn, &resp); err != nil || resp.Error != "" {
		return "", fmt.Sprintf("login: %v %s", err, resp.Error)
	}
	_ = raw.SetReadDeadline(time.Time{})
	enc, err := netpkg.NewCryptoReadWriter(conn, []byte(rw.Token))
	if err != nil {
		return "", err.Error()
	}
	go io.Copy(io.Discard, enc)
	for i := 0; i < 100 && sessions(srv) == 0; i++ {
		time.Sleep(10 * time.Millisecond)
	}
	if sessions(srv) != 1 {
		return "", "session did not appear"
	}
	T := time.Duration(hc.TimeoutS) * time.Second
	if hc.Pings {
		// heartbeats every T/4 for 3T: never torn down
		end := time.Now().Add(3 * T)
		for time.Now().Before(end) {
			if err := msg.WriteMsg(enc, &msg.Ping{}); err != nil {
				return fmt.Sprintf("tcpMux=%v heartbeatTimeout=%ds: a peer sending a heartbeat every %v was disconnected (%v)", hc.Mux, hc.TimeoutS, T/4, err), ""
			}
			time.Sleep(T / 4)
			if sessions(srv) != 1 {
				return fmt.Sprintf("tcpMux=%v heartbeatTimeout=%ds: the session of a peer sending a heartbeat every %v was torn down", hc.Mux, hc.TimeoutS, T/4), ""
			}
		}
	}
	// silence: torn down within the timeout plus a small constant (judged with a 10x margin)
	deadline := time.Now().Add(10*T + 5*time.Second)
	for time.Now().Before(deadline) {
		if sessions(srv) == 0 {
			return "", ""
		}
		time.Sleep(50 * time.Millisecond)
	}
	return fmt.Sprintf("tcpMux=%v heartbeatTimeout=%ds: a logged-in peer that sends no heartbeat still has its session %v after falling silent", hc.Mux, hc.TimeoutS, 10*T+5*time.Second), ""
}

func main() {
	drv.E2Replayers["hb"] = func(raw json.RawMessage) string {
		var hc hcase
		json.Unmarshal(raw, &hc)
		v, _ := run(hc)
		return v
	}
	c := drv.Setup("C14", "e2real", "model_checking", nil)
	if c == nil {
		return
	}
	c.Rule("real frps on loopback x {plain connections, stream multiplexing} x explicit heartbeatTimeout {1, 2} s x scripted peer {silent after login, heartbeats every T/4 for 3T then silent}: the silent peer's session disappears (judged at 10 T + 5 s), the pinging peer's session does not; non-trivial = distinct case")
	var cases []hcase
	for _, mux := range []bool{false, true} {
		for _, t := range []int{1, 2} {
			for _, p := range []bool{false, true} {
				cases = append(cases, hcase{mux, t, p})
			}
		}
	}
	type out struct{ v, in string }
	res := make([]out, len(cases))
	done := make(chan int, len(cases))
	for i, hc := range cases {
		go func(i int, hc hcase) { v, in := run(hc); res[i] = out{v, in}; done <- i }(i, hc)
	}
	for range cases {
		<-done
	}
	for i, hc := range cases {
		c.Count(fmt.Sprintf("hb:%+v", hc))
		if res[i].in != "" {
			c.Cap("inconclusive: " + res[i].in)
		}
		if res[i].v != "" {
			c.ViolateConfirmed("hb", fmt.Sprintf("hb:%+v", hc), res[i].v, hc, 2)
		}
	}
	c.Sample(cases[0])
	c.Finish()
}
