// C14 — dead peers are detected and tunnels heal themselves.
package main

import (
	"context"
	"fmt"
	"os"
	"strings"
	"time"

	v1 "github.com/fatedier/frp/pkg/config/v1"
	"github.com/fatedier/frp/pkg/msg"
	plugin "github.com/fatedier/frp/pkg/plugin/server"

	"verif/mc/drv"
	"verif/mc/peek"
	"verif/mc/vs"
	"verif/mc/vs/vnet"
	cw "verif/mc/worlds/cliworld"
	tw "verif/mc/worlds/tunworld"
	sw "verif/mc/worlds/srvworld"
)

// ---- server side: the real frps watches a scripted peer ----

// srvLiveness: peer pings every `every` seconds until `silentFrom` (0 = forever), then falls silent (or sends invalid pings).
func scSrv(T, every, silentFrom int, invalid bool) func(x *vs.Exec) {
	return func(x *vs.Exec) {
		defer sw.Guard()
		var scopes []v1.AuthScope
		if invalid {
			scopes = []v1.AuthScope{v1.AuthScopeHeartBeats}
		}
		w := sw.New(x, sw.Opt{AllowPorts: sw.P(20000, 20001), HeartbeatTimeout: int64(T), UserConnTimeout: 5, Scopes: scopes})
		p := w.MustLogin("p", sw.LoginOpt{User: "u"})
		if r := p.Reg(&msg.NewProxy{ProxyName: "t", ProxyType: "tcp", RemotePort: 20000}); r != "ok:20000" {
			vs.Fail("setup: %s", r)
			return
		}
		t0 := x.Now()
		lastValid := t0 // the login counts as the first sign of life
		horizon := time.Duration(5*T) * time.Second
		vs.SetInterest(true)
		for x.Now()-t0 < horizon && !p.Closed {
			el := int((x.Now() - t0) / time.Second)
			if el > 0 && el%every == 0 {
				if silentFrom == 0 || el < silentFrom {
					p.SendPing(nil)
					lastValid = x.Now()
				} else if invalid {
					p.SendPing(func(m *msg.Ping) { m.Timestamp = w.Now(); m.PrivilegeKey = "forged" })
				}
			}
			time.Sleep(time.Second)
		}
		vs.SetInterest(false)
		w.Quiesce()
		if silentFrom == 0 {
			if p.Closed {
				vs.Fail("timeout %ds, valid heartbeat every %ds: session torn down after %v", T, every, p.ClosedAt-t0)
			}
		} else {
			if !p.Closed {
				vs.Fail("timeout %ds: peer silent since %v (last valid heartbeat at %v) still connected at %v", T, time.Duration(silentFrom)*time.Second, lastValid-t0, x.Now()-t0)
			} else {
				d := p.ClosedAt - lastValid
				if d <= time.Duration(T)*time.Second {
					vs.Fail("timeout %ds: session torn down only %v after the last valid heartbeat", T, d)
				}
				if d > time.Duration(T+2)*time.Second {
					vs.Fail("timeout %ds: session torn down %v after the last valid heartbeat, later than timeout + 2s", T, d)
				}
				if dmp := w.Dump(); dmp != w.Base {
					vs.Fail("resources of the timed-out session not released:\n%s", dmp)
				}
			}
		}
		vs.Observe("T=%d every=%d silentFrom=%d invalid=%v closed=%v", T, every, silentFrom, invalid, p.Closed)
		w.Teardown()
	}
}

// ---- client side: the real frpc against the model server ----

var cfgProxies = []string{"web", "ssh"}

var loginFailExit bool // set per scenario (name suffix "/exit"): the client runs with frpc's default loginFailExit=true

func newClient(x *vs.Exec, hbI, hbT int64, down bool) *cw.World {
	return cw.New(x, cw.Opt{HeartbeatInterval: hbI, HeartbeatTimeout: hbT, ServerDownAtStart: down, NoPoolRequests: true, LoginFailExit: loginFailExit && !down,
		Proxies: []v1.ProxyConfigurer{cw.TCPProxy("web", 8080, 9000), cw.TCPProxy("ssh", 22, 9001)}})
}

func healthy(w *cw.World) bool {
	return w.Srv.LiveCount() == 1 && fmt.Sprint(w.Srv.Registered()) == "[ssh web]"
}

func awaitHealthy(w *cw.World, within time.Duration, what string) bool {
	vs.BlockFor("await-healthy", within, func() bool { return healthy(w) }) // (bounded on the virtual clock even if nothing else keeps it moving)
	if !healthy(w) {
		vs.Fail("%s: %v after the server became reachable again the client has not restored its session and proxies (live sessions=%d registered=%v)\n%s",
			what, within, w.Srv.LiveCount(), w.Srv.Registered(), tail(w.Srv.Log(), 25))
		return false
	}
	return true
}

func tail(s string, n int) string {
	l := strings.Split(strings.TrimSpace(s), "\n")
	if len(l) > n {
		l = l[len(l)-n:]
	}
	return strings.Join(l, "\n")
}

// pacing checks that connection attempts to the server are not a tight loop.
func pacing(w *cw.World, what string) {
	var at []time.Duration
	for _, d := range w.H.DialLog {
		if d.Port == cw.ServerPort && !d.OK {
			at = append(at, d.At)
		}
	}
	for _, e := range w.Srv.Events {
		if e.Kind == "loginrej" || (e.Kind == "sessionend" && e.Name == "cut-after-login") {
			at = append(at, e.At)
		}
	}
	// sort (events and dials are each chronological)
	for i := 1; i < len(at); i++ {
		for j := i; j > 0 && at[j] < at[j-1]; j-- {
			at[j], at[j-1] = at[j-1], at[j]
		}
	}
	// one immediate reconnect right after losing a session is fine; three attempts inside 190 ms are a tight loop
	for i := 2; i < len(at); i++ {
		if g := at[i] - at[i-2]; g < 190*time.Millisecond {
			vs.Fail("%s: three failed connection attempts within %v (tight retry loop): at %v, %v and %v", what, g, at[i-2], at[i-1], at[i])
			break
		}
	}
	win := func(d time.Duration) int {
		best := 0
		for i := range at {
			n := 0
			for j := i; j < len(at) && at[j]-at[i] < d; j++ {
				n++
			}
			if n > best {
				best = n
			}
		}
		return best
	}
	// "tight loop" is read as: no pause at all (above), or a sustained rate that does not decay: more than 10 attempts
	// in a second or more than 40 in a minute (the exponential back-off of the client stays near 15 a minute even
	// against a server that accepts every login and drops the session at once)
	if n := win(time.Second); n > 10 {
		vs.Fail("%s: %d failed connection attempts within one second", what, n)
	}
	if n := win(60 * time.Second); n > 40 {
		vs.Fail("%s: %d failed connection attempts within one minute", what, n)
	}
	vs.Observe("failed attempts=%d max/1s=%d max/60s=%d at=%v", len(at), win(time.Second), win(60*time.Second), at)
}

// silent: the server stops answering heartbeats.
func scSilentServer(hbI, hbT int64, mute bool) func(x *vs.Exec) {
	return func(x *vs.Exec) {
		w := newClient(x, hbI, hbT, false)
		if !awaitHealthy(w, 30*time.Second, "first login") {
			return
		}
		w.Srv.MutePong = mute
		first := w.Srv.LiveSession()
		loginAt := w.Srv.EventsOf("login")[0].At
		vs.SetInterest(true)
		time.Sleep(time.Duration(4*hbT) * time.Second)
		vs.SetInterest(false)
		if !mute {
			if !first.Live {
				vs.Fail("server answers every heartbeat (interval %ds, timeout %ds) but the client dropped the session", hbI, hbT)
			}
		} else {
			if first.Live {
				vs.Fail("server never answers heartbeats: client still holds the session %v after login (timeout %ds)", x.Now()-loginAt, hbT)
			} else {
				var endAt time.Duration
				for _, e := range w.Srv.Events {
					if e.Kind == "sessionend" && e.Sess == first.ID {
						endAt = e.At
					}
				}
				if d := endAt - loginAt; d <= time.Duration(hbT)*time.Second || d > time.Duration(hbT+2)*time.Second {
					vs.Fail("silent server dropped %v after the last sign of life, expected within (timeout, timeout+2s] with timeout %ds", d, hbT)
				}
			}
			w.Srv.MutePong = false
			awaitHealthy(w, 60*time.Second, "after the server answers again")
		}
		pacing(w, "silent server")
		w.Svc.Close()
	}
}

// faults: a sequence of outages; afterwards the client must heal by itself.
func scFaults(seq string, gap time.Duration) func(x *vs.Exec) {
	fs := strings.Split(seq, ",")
	return func(x *vs.Exec) {
		down := fs[0] == "downstart"
		w := newClient(x, 1, 3, down)
		if down {
			time.Sleep(40 * time.Second)
			w.Srv.Start()
			fs = fs[1:]
		}
		if !awaitHealthy(w, 60*time.Second, "first login") {
			return
		}
		vs.SetInterest(true)
		for _, f := range fs {
			switch {
			case strings.HasPrefix(f, "down"):
				var secs int
				fmt.Sscanf(f, "down%d", &secs)
				w.Srv.Stop()
				time.Sleep(time.Duration(secs) * time.Second)
				w.Srv.Start()
			case f == "reject":
				w.Srv.RejectLogins = 2
				w.Srv.CutAll()
			case f == "flap60":
				// every login succeeds and the session dies at once, for a minute
				w.Srv.CutAfterLogin = 1 << 30
				w.Srv.CutAll()
				time.Sleep(60 * time.Second)
				w.Srv.CutAfterLogin = 0
			case f == "cutlogin":
				w.Srv.CutAfterLogin = 2
				w.Srv.CutAll()
			case f == "cut":
				w.Srv.CutAll()
			case f == "mute":
				w.Srv.MutePong = true
				time.Sleep(8 * time.Second)
				w.Srv.MutePong = false
			case f == "restart":
				w.Srv.Restart()
			}
			time.Sleep(gap)
		}
		vs.SetInterest(false)
		// "once the server is reachable again": logins the model server is still going to refuse or cut (left over from
		// the last faults) are part of the outage, and each of them may cost the client one back-off step (at most
		// 20 s + 10 % jitter): they extend the bound instead of counting against the client
		bound := 60*time.Second + time.Duration(w.Srv.RejectLogins+w.Srv.CutAfterLogin)*23*time.Second
		awaitHealthy(w, bound, "after faults "+seq)
		pacing(w, "faults "+seq)
		vs.Observe("logins=%d", len(w.Srv.EventsOf("login")))
		w.Svc.Close()
	}
}

// outreload: the configuration is reloaded while the server is unreachable (after the connection was lost and at least one
// re-login failed, or right after the loss); once the server is back the client registers the proxies configured *now*.
func scOutageReload(at int) func(x *vs.Exec) {
	return func(x *vs.Exec) {
		w := newClient(x, 1, 3, false)
		if !awaitHealthy(w, 60*time.Second, "first login") {
			return
		}
		vs.SetInterest(true)
		w.Srv.Stop()
		time.Sleep(time.Duration(at) * time.Second)
		if err := w.Svc.UpdateAllConfigurer([]v1.ProxyConfigurer{cw.TCPProxy("web", 8080, 9000), cw.TCPProxy("db", 5432, 9002)}, nil); err != nil {
			vs.Fail("reload during the outage refused: %v", err)
			return
		}
		time.Sleep(time.Duration(30-at) * time.Second)
		w.Srv.Start()
		vs.SetInterest(false)
		ok := func() bool { return w.Srv.LiveCount() == 1 && fmt.Sprint(w.Srv.Registered()) == "[db web]" }
		vs.BlockFor("await-reloaded-set", 60*time.Second, ok)
		if !ok() {
			vs.Fail("the configuration was reloaded %d s into a 30 s outage (proxies web, ssh -> web, db); 60 s after the server came back it has live sessions=%d registered=%v, expected the proxies configured now [db web]\n%s",
				at, w.Srv.LiveCount(), w.Srv.Registered(), tail(w.Srv.Log(), 25))
		}
		w.Svc.Close()
	}
}

// many: a client with n proxies loses its control connection; it must come back with all of them. (The client's
// teardown announces the end of every proxy on the dying session's bounded send queue: the number of proxies is an input.)
func scMany(n int, fault string) func(x *vs.Exec) {
	return func(x *vs.Exec) {
		var ps []v1.ProxyConfigurer
		for i := 0; i < n; i++ {
			ps = append(ps, cw.TCPProxy(fmt.Sprintf("p%03d", i), 8080, 9000+i))
		}
		w := cw.New(x, cw.Opt{HeartbeatInterval: 1, HeartbeatTimeout: 3, NoPoolRequests: true, Proxies: ps})
		all := func() bool { return w.Srv.LiveCount() == 1 && len(w.Srv.Registered()) == n }
		await := func(within time.Duration, what string) bool {
			vs.BlockFor("await-all", within, all)
			if !all() {
				vs.Fail("client with %d proxies, %s: %v later it has not restored its session and proxies (live sessions=%d, registered=%d of %d)", n, what, within, w.Srv.LiveCount(), len(w.Srv.Registered()), n)
				return false
			}
			return true
		}
		if !await(120*time.Second, "first login") {
			return
		}
		switch fault {
		case "cut":
			w.Srv.CutAll()
		case "restart":
			w.Srv.Restart()
		case "mute":
			w.Srv.MutePong = true
			time.Sleep(8 * time.Second)
			w.Srv.MutePong = false
		}
		time.Sleep(time.Second)
		await(180*time.Second, "after the control connection was lost ("+fault+")")
		w.Svc.Close()
	}
}

// userEcho sends payload through the public port and waits (bounded, virtual time) for the echo.
func userEcho(w *tw.World, src string, port int, payload string) string {
	u, err := w.H.DialFrom(src, fmt.Sprintf("127.0.0.1:%d", port))
	if err != nil {
		return "dial: " + err.Error()
	}
	defer u.Close()
	if _, err := u.Write([]byte(payload)); err != nil {
		return "write: " + err.Error()
	}
	if !vs.BlockFor("echo", 10*time.Second, func() bool { return u.Pending() >= len(payload) || u.PeerClosed() }) {
		return "no echo within 10 s"
	}
	if u.Pending() < len(payload) {
		return "connection closed by the server without an echo"
	}
	buf := make([]byte, len(payload))
	u.Read(buf)
	if string(buf) != payload {
		return fmt.Sprintf("echo mismatch %q", buf)
	}
	return ""
}

// rejectNth is an in-memory login plugin that refuses the n-th login it sees (a plugin that is temporarily unhappy, a
// token being rotated, a clock that is off for a moment).
type rejectNth struct {
	n    int
	seen *int
}

func (rejectNth) Name() string               { return "reject-nth" }
func (rejectNth) IsSupport(op string) bool   { return op == plugin.OpLogin }
func (r rejectNth) Handle(_ context.Context, _ string, _ any) (*plugin.Response, any, error) {
	*r.seen++
	if *r.seen == r.n {
		return &plugin.Response{Reject: true, RejectReason: "not now"}, nil, nil
	}
	return &plugin.Response{Unchange: true}, nil, nil
}

// heal: real frps + real frpc + backend; the control connection dies in a way only one side notices (or both);
// afterwards the tunnel must carry traffic again without operator action.
func scHeal(how string) func(x *vs.Exec) {
	return func(x *vs.Exec) {
		defer sw.Guard()
		w := tw.New(x, sw.Opt{AllowPorts: sw.P(20000, 20003), UserConnTimeout: 5, HeartbeatTimeout: 10})
		w.StartBackend(8080, "echo")
		p := &v1.TCPProxyConfig{}
		p.Name, p.Type, p.LocalIP, p.LocalPort, p.RemotePort = "web", "tcp", "127.0.0.1", 8080, 20001
		cl := w.StartClient("c", "", []v1.ProxyConfigurer{p}, nil, func(c *v1.ClientCommonConfig) {
			c.Transport.HeartbeatInterval, c.Transport.HeartbeatTimeout = 1, 3
		})
		if !w.AwaitRunning(cl, 30*time.Second, "web") {
			vs.Fail("setup: proxy did not start")
			return
		}
		if e := userEcho(w, "10.9.0.1:1", 20001, "before"); e != "" {
			vs.Fail("setup: tunnel does not work: %s", e)
			w.StopAll()
			return
		}
		ctl := w.ControlConn(cl)
		seen := 1 // the first login has happened
		if how == "halfopen-client-reject" {
			// the first re-login is refused once; the client must come back under its own run id all the same
			peek.F(w.Svc, "pluginManager").Interface().(*plugin.Manager).Register(rejectNth{n: 2, seen: &seen})
		}
		vs.SetInterest(true)
		switch how {
		case "halfopen-client-reject":
			ctl.Peer.Sever()
		case "halfopen-client":
			// the client's end dies; the server notices nothing until its heartbeat timeout
			ctl.Peer.Sever()
		case "halfopen-server":
			ctl.Sever()
		case "cut":
			ctl.Close()
			ctl.Peer.Close()
		}
		maxSessions := 0
		for i := 0; i < 40; i++ {
			time.Sleep(time.Second)
			if n := len(w.Sessions()); n > maxSessions {
				maxSessions = n
			}
		}
		vs.SetInterest(false)
		if maxSessions > 1 {
			vs.Fail("control connection lost (%s): the server held %d sessions of the one client at the same time: the client did not come back under the run id it was given, so its old session was not replaced", how, maxSessions)
		}
		healed := false
		for i := 0; i < 6 && !healed; i++ {
			if e := userEcho(w, fmt.Sprintf("10.9.0.2:%d", 10+i), 20001, "after"); e == "" {
				healed = true
			} else {
				vs.Observe("t=%v not healed: %s", x.Now(), e)
				time.Sleep(10 * time.Second)
			}
		}
		if !healed {
			vs.Fail("control connection lost (%s): 100 s later the tunnel still carries no traffic although the server is reachable (sessions=%v)", how, w.Sessions())
		}
		w.StopAll()
	}
}

func endClient(x *vs.Exec) string {
	return strings.Join(x.Obs, "\n")
}

func scenarios() {
	vs.ScenarioFactory = func(name string) *vs.Scenario {
		s := &vs.Scenario{Name: name, Horizon: 3000 * time.Second, MaxSteps: 2_000_000, NoEarlyTick: true, Watchdog: 2 * time.Minute}
		f := strings.Split(name, "/")
		switch f[0] {
		case "srv":
			var T, every, silent int
			var inv int
			fmt.Sscanf(f[1], "T%d-e%d-s%d-i%d", &T, &every, &silent, &inv)
			s.Body = scSrv(T, every, silent, inv == 1)
			s.End = sw.StdEnd
		case "silent":
			var i, t, m int
			fmt.Sscanf(f[1], "%d-%d-%d", &i, &t, &m)
			s.Body = scSilentServer(int64(i), int64(t), m == 1)
			s.End = endClient
		case "heal":
			s.Body = scHeal(f[1])
			s.End = sw.StdEnd
		case "many":
			var n int
			fmt.Sscanf(f[1], "%d", &n)
			s.Body = scMany(n, f[2])
			s.End = endClient
		case "outreload":
			var at int
			fmt.Sscanf(f[1], "%d", &at)
			s.Body = scOutageReload(at)
			s.End = endClient
		case "faults":
			gap := time.Second
			if len(f) > 2 {
				var g int
				fmt.Sscanf(f[2], "%d", &g)
				gap = time.Duration(g) * time.Second
			}
			body := scFaults(f[1], gap)
			exit := len(f) > 3 && f[3] == "exit"
			s.Body = func(x *vs.Exec) { loginFailExit = exit; body(x) }
			s.End = endClient
		default:
			return nil
		}
		return s
	}
}

func main() {
	vnet.DebugDial = os.Getenv("DEBUG_DIAL") != ""
	c := drv.Setup("C14", "e1", "model_checking", scenarios)
	if c == nil {
		return
	}
	c.Rule("E1 on the virtual clock: (server) real frps vs scripted peer for heartbeat timeouts {3,10,90}s x ping periods x every second at which the peer falls silent or starts sending invalid heartbeats; (client) real frpc vs model server: silent server, and all fault sequences of length <= L over {unreachable for 0/1/30/300 s, login rejected, cut right after login, cut, heartbeats unanswered, restart} with the server down at start or not, and fault sequences of length <= 2 against a client with the default loginFailExit=true (whose first login succeeded); clients with 99 / 100 / 101 / 130 proxies (around the capacity of the session's send queue) that lose the control connection; oracle: drop within (timeout, timeout+2s], never for a live peer, resources released, self-healing within 60 s, a server that accepts logins and drops the session at once for a minute, never 3 failed connection attempts within 190 ms, <= 10 per second and <= 40 per minute; (tunnel) real frps + real frpc + backend: control connection severed on the client's side only (also with the first re-login refused by a plugin: never two sessions of the one client), on the server's side only, or cut: the tunnel carries traffic again within 100 s, all schedules with at most B deviations; non-trivial = distinct observation trace; a reload of the configuration 0 / 4 / 20 s into a 30 s outage: the proxies configured at the time the server is back are the ones registered")
	pool := vs.GetPool(c.Workers)
	var names []string
	for _, T := range []int{3, 10, 90} {
		names = append(names, fmt.Sprintf("srv/T%d-e1-s0-i0", T), fmt.Sprintf("srv/T%d-e%d-s0-i0", T, T-1))
		grid := 2 * T
		step := 1
		if T == 90 {
			step = drv.Pick(c, 15, 5)
		}
		for s := 1; s <= grid; s += step {
			names = append(names, fmt.Sprintf("srv/T%d-e1-s%d-i0", T, s))
			if T != 90 {
				names = append(names, fmt.Sprintf("srv/T%d-e1-s%d-i1", T, s))
			}
		}
	}
	names = append(names, "silent/1-3-0", "silent/1-3-1", "silent/30-90-0", "silent/30-90-1", "silent/2-5-1")
	alpha := []string{"down0", "down1", "down30", "down300", "reject", "cutlogin", "cut", "mute", "restart", "flap60"}
	L := drv.Pick(c, 3, 4)
	var rec func(prefix []string, d int)
	rec = func(prefix []string, d int) {
		if len(prefix) > 0 {
			names = append(names, "faults/"+strings.Join(prefix, ","))
			if !c.Quick() {
				names = append(names, "faults/"+strings.Join(prefix, ",")+"/0", "faults/"+strings.Join(prefix, ",")+"/30")
			}
		}
		if d == 0 {
			return
		}
		for _, a := range alpha {
			rec(append(append([]string{}, prefix...), a), d-1)
		}
	}
	rec(nil, L)
	rec([]string{"downstart"}, L-1)
	// the same faults against a client with frpc's default loginFailExit=true: only a failing FIRST login may end it
	for _, a := range alpha {
		names = append(names, "faults/"+a+"/1/exit")
		for _, b := range []string{"reject", "cutlogin", "down30"} {
			names = append(names, "faults/"+a+","+b+"/1/exit")
		}
	}
	var many []string
	for _, n := range []int{99, 100, 101, 130} {
		for _, f := range []string{"cut", "mute"} {
			many = append(many, fmt.Sprintf("many/%d/%s", n, f))
		}
	}
	for i := 0; i < len(names); i += 256 {
		if c.TimeUp() {
			c.Cap(fmt.Sprintf("enumeration stopped by the budget after %d of %d cases", i, len(names)))
			break
		}
		j := i + 256
		if j > len(names) {
			j = len(names)
		}
		rs, err := pool.RunBatch(names[i:j], true)
		if err != nil {
			c.Cap("harness error: " + err.Error())
			break
		}
		for k := range rs {
			c.FoldExec(&rs[k])
			c.Count(strings.Join(rs[k].Obs, "|"))
		}
		if i == 0 {
			c.Sample(map[string]any{"case": names[0], "observations": rs[0].Obs})
		}
	}
	c.Note("enumerated_cases", len(names))
	// schedule deviations on representative cases
	for _, n := range []string{"srv/T3-e1-s2-i0", "srv/T3-e1-s4-i1", "silent/1-3-1", "faults/cut,down1", "faults/restart,reject"} {
		c.ExploreBoth(n, 1, 0.25)
	}
	// a reload while the server is unreachable: right after the loss, after the first failed re-logins, late
	for _, n := range []string{"outreload/0", "outreload/4", "outreload/20"} {
		c.ExploreBoth(n, drv.Pick(c, 0, 1), 0.1)
	}
	// many proxies: both default orders (whether the dying session's sender or its teardown runs first is the point)
	for _, n := range many {
		c.ExploreBoth(n, 0, 0.1)
	}
	// real frps + real frpc: the tunnel heals after the control connection dies on one side or on both
	for _, n := range []string{"heal/halfopen-client", "heal/halfopen-server", "heal/cut", "heal/halfopen-client-reject"} {
		c.ExploreBoth(n, drv.Pick(c, 1, 2), 0.34)
	}
	c.Finish()
}
