// C18 — a proxy definition means the same in every format and on both ends.
// E2: exhaustive single-field (and pairwise, thorough) deviations over per-field alphabets for the 8 proxy types,
// through Complete -> MarshalToMsg -> wire -> NewProxyConfigurerFromMsg; the same logical document rendered as
// JSON / YAML / TOML; unknown keys at every nesting path; every command-line flag against a hand-written
// flag -> key table; validation constraints; literal round trips; template rendering.
package main

import (
	"bytes"
	"encoding/json"
	"fmt"
	"os"
	"os/exec"
	"path/filepath"
	"reflect"
	"sort"
	"strconv"
	"strings"
	"sync"
	"sync/atomic"

	toml "github.com/pelletier/go-toml/v2"
	"github.com/spf13/cobra"

	"github.com/fatedier/frp/pkg/config"
	"github.com/fatedier/frp/pkg/config/types"
	v1 "github.com/fatedier/frp/pkg/config/v1"
	"github.com/fatedier/frp/pkg/config/v1/validation"
	"github.com/fatedier/frp/pkg/msg"

	"verif/mc/drv"
	_ "verif/mc/quiet"
)

// ---- generic document helpers ----

type doc = map[string]any

func setPath(d doc, path string, v any) {
	parts := strings.Split(path, ".")
	cur := d
	for _, p := range parts[:len(parts)-1] {
		nx, ok := cur[p].(doc)
		if !ok {
			nx = doc{}
			cur[p] = nx
		}
		cur = nx
	}
	cur[parts[len(parts)-1]] = v
}

func cloneDoc(d doc) doc {
	b, _ := json.Marshal(d)
	var out doc
	json.Unmarshal(b, &out)
	return out
}

func toJSON(d doc) []byte { b, _ := json.MarshalIndent(d, "", "  "); return b }

func toTOML(d doc) []byte {
	b, err := toml.Marshal(d)
	if err != nil {
		panic(err)
	}
	return b
}

// toYAML emits block-style YAML (strings double-quoted with JSON escapes, which YAML accepts).
func toYAML(v any, indent int) string {
	pad := strings.Repeat("  ", indent)
	switch t := v.(type) {
	case doc:
		if len(t) == 0 {
			return " {}\n"
		}
		keys := make([]string, 0, len(t))
		for k := range t {
			keys = append(keys, k)
		}
		sort.Strings(keys)
		var b strings.Builder
		b.WriteString("\n")
		for _, k := range keys {
			kq, _ := json.Marshal(k)
			b.WriteString(pad + string(kq) + ":" + toYAML(t[k], indent+1))
		}
		return b.String()
	case []any:
		if len(t) == 0 {
			return " []\n"
		}
		var b strings.Builder
		b.WriteString("\n")
		for _, e := range t {
			s := toYAML(e, indent+1)
			if strings.HasPrefix(s, "\n") {
				// nested collection under a dash
				lines := strings.SplitN(strings.TrimPrefix(s, "\n"), "\n", 2)
				b.WriteString(pad + "- " + strings.TrimLeft(lines[0], " ") + "\n")
				if len(lines) > 1 {
					b.WriteString(lines[1])
				}
			} else {
				b.WriteString(pad + "-" + s)
			}
		}
		return b.String()
	default:
		j, _ := json.Marshal(t)
		return " " + string(j) + "\n"
	}
}

func yamlDoc(d doc) []byte { return []byte(strings.TrimPrefix(toYAML(d, 0), "\n")) }

// normalize a loaded struct for comparison: JSON rendering (nil and empty collections identified by omitempty).
func canon(v any) string {
	b, err := json.Marshal(v)
	if err != nil {
		return "marshal error: " + err.Error()
	}
	var x any
	json.Unmarshal(b, &x)
	x = dropEmpty(x)
	b, _ = json.Marshal(x)
	return string(b)
}

func dropEmpty(x any) any {
	switch t := x.(type) {
	case map[string]any:
		for k, v := range t {
			v = dropEmpty(v)
			if v == nil {
				delete(t, k)
			} else {
				t[k] = v
			}
		}
		if len(t) == 0 {
			return nil
		}
		return t
	case []any:
		if len(t) == 0 {
			return nil
		}
		for i := range t {
			t[i] = dropEmpty(t[i])
		}
		return t
	}
	return x
}

// ---- (1) both ends ----

var proxyTypes = []string{"tcp", "udp", "http", "https", "tcpmux", "stcp", "sudp", "xtcp"}

// fields the server acts on, by JSON path in the client-side document
var commonFields = map[string][]any{
	"name":                         {"p", "名前", "with space", "a.b-c_d"},
	"transport.useEncryption":      {true},
	"transport.useCompression":     {true},
	"transport.bandwidthLimit":     {"1KB", "10MB", "1.5MB"},
	"transport.bandwidthLimitMode": {"server", "client"},
	"loadBalancer.group":           {"g1"},
	"loadBalancer.groupKey":        {"k1", "ключ"},
	"metadatas":                    {doc{}, doc{"a": "b"}, doc{"x": "1", "y": "ü"}},
	"annotations":                  {doc{"example.com/a": "b"}},
}

var typeFields = map[string]map[string][]any{
	"tcp": {"remotePort": {0, 1, 6000, 65535}},
	"udp": {"remotePort": {0, 1, 6000, 65535}},
	"http": {"customDomains": {[]any{"a.example.com"}, []any{"a.example.com", "B.Example.Com"}}, "subdomain": {"sub"}, "locations": {[]any{}, []any{"/"}, []any{"/a", "/b"}},
		"httpUser": {"u"}, "httpPassword": {"p w"}, "hostHeaderRewrite": {"rew.example.com"}, "requestHeaders.set": {doc{"X-A": "1"}}, "responseHeaders.set": {doc{"X-B": "2"}}, "routeByHTTPUser": {"ru"}},
	"https":  {"customDomains": {[]any{"a.example.com"}, []any{"a.example.com", "b.example.com"}}, "subdomain": {"sub"}},
	"tcpmux": {"customDomains": {[]any{"a.example.com"}}, "subdomain": {"sub"}, "httpUser": {"u"}, "httpPassword": {"p"}, "routeByHTTPUser": {"ru"}, "multiplexer": {"httpconnect"}},
	"stcp":   {"secretKey": {"sk", "ключ"}, "allowUsers": {[]any{}, []any{"*"}, []any{"a", "b"}}},
	"sudp":   {"secretKey": {"sk"}, "allowUsers": {[]any{"*"}, []any{"a", "b"}}},
	"xtcp":   {"secretKey": {"sk"}, "allowUsers": {[]any{"*"}, []any{"a", "b"}}},
}

func baseDoc(typ string) doc {
	d := doc{"name": "base", "type": typ, "localIP": "127.0.0.1", "localPort": 8080}
	switch typ {
	case "http", "https", "tcpmux":
		d["customDomains"] = []any{"base.example.com"}
	}
	if typ == "tcpmux" {
		d["multiplexer"] = "httpconnect"
	}
	return d
}

// project extracts what the server acts on from a configurer (by field name, recursively).
func project(c v1.ProxyConfigurer) string {
	want := map[string]bool{"Name": true, "Type": true, "UseEncryption": true, "UseCompression": true, "BandwidthLimit": true, "BandwidthLimitMode": true,
		"Group": true, "GroupKey": true, "Metadatas": true, "Annotations": true, "RemotePort": true, "CustomDomains": true, "SubDomain": true, "Locations": true,
		"HTTPUser": true, "HTTPPassword": true, "HostHeaderRewrite": true, "RequestHeaders": true, "ResponseHeaders": true, "RouteByHTTPUser": true,
		"Secretkey": true, "AllowUsers": true, "Multiplexer": true}
	out := map[string]any{}
	var walk func(v reflect.Value)
	walk = func(v reflect.Value) {
		for v.Kind() == reflect.Pointer {
			if v.IsNil() {
				return
			}
			v = v.Elem()
		}
		if v.Kind() != reflect.Struct {
			return
		}
		t := v.Type()
		for i := 0; i < t.NumField(); i++ {
			f := t.Field(i)
			fv := v.Field(i)
			if want[f.Name] {
				if f.Name == "BandwidthLimit" {
					bq := fv.Interface().(types.BandwidthQuantity)
					out[f.Name] = bq.Bytes()
				} else {
					out[f.Name] = fv.Interface()
				}
				continue
			}
			if f.Name == "HealthCheck" || f.Name == "ProxyBackend" || f.Name == "Plugin" {
				continue
			}
			if fv.Kind() == reflect.Struct || (fv.Kind() == reflect.Pointer && fv.Type().Elem().Kind() == reflect.Struct) {
				walk(fv)
			}
		}
	}
	walk(reflect.ValueOf(c))
	return canon(out)
}

var serverCfg = func() *v1.ServerConfig {
	s := &v1.ServerConfig{}
	s.VhostHTTPPort, s.VhostHTTPSPort, s.TCPMuxHTTPConnectPort = 80, 443, 1337
	s.SubDomainHost = "frps.example.org"
	s.Complete()
	return s
}()

func loadProxy(d doc, strict bool) (v1.ProxyConfigurer, error) {
	var tc v1.TypedProxyConfig
	if err := config.LoadConfigure(toJSON(d), &tc, strict); err != nil {
		return nil, err
	}
	return tc.ProxyConfigurer, nil
}

func bothEnds(d doc) string {
	c, err := loadProxy(d, true)
	if err != nil {
		return "client cannot load: " + err.Error()
	}
	c.Complete("")
	if err := validation.ValidateProxyConfigurerForClient(c); err != nil {
		return "" // not a valid client configuration: outside the property
	}
	var m msg.NewProxy
	c.MarshalToMsg(&m)
	var buf bytes.Buffer
	if err := msg.WriteMsg(&buf, &m); err != nil {
		return "encode: " + err.Error()
	}
	var m2 msg.NewProxy
	if err := msg.ReadMsgInto(&buf, &m2); err != nil {
		return "decode: " + err.Error()
	}
	s, err := config.NewProxyConfigurerFromMsg(&m2, serverCfg)
	if err != nil {
		return "" // refused by the server's validation (e.g. sub domain rules): not a meaning change
	}
	if a, b := project(c), project(s); a != b {
		return fmt.Sprintf("server reconstructs %s from what the client loaded as %s", b, a)
	}
	return ""
}

// ---- (2) formats ----

func formats(d doc, into func() any) string {
	var res [3][2]string
	for i, b := range [][]byte{toJSON(d), yamlDoc(d), toTOML(d)} {
		for j, strict := range []bool{true, false} {
			x := into()
			if err := config.LoadConfigure(b, x, strict); err != nil {
				res[i][j] = "error: " + err.Error()
			} else {
				res[i][j] = canon(x)
			}
		}
	}
	names := []string{"json", "yaml", "toml"}
	for i := range res {
		if res[i][0] != res[i][1] {
			return fmt.Sprintf("%s: strict and non-strict loading differ: %.200s vs %.200s", names[i], res[i][0], res[i][1])
		}
		if res[i][0] != res[0][0] {
			return fmt.Sprintf("%s and json yield different structures: %.300s vs %.300s", names[i], res[i][0], res[0][0])
		}
	}
	if strings.HasPrefix(res[0][0], "error") {
		return "the document does not load: " + res[0][0]
	}
	return ""
}

// ---- (3) strict mode ----

func pathsOf(d any, prefix string, out *[]string) {
	switch t := d.(type) {
	case doc:
		*out = append(*out, prefix)
		for k, v := range t {
			p := k
			if prefix != "" {
				p = prefix + "." + k
			}
			pathsOf(v, p, out)
		}
	case []any:
		for i, v := range t {
			pathsOf(v, fmt.Sprintf("%s[%d]", prefix, i), out)
		}
	}
}

func freeForm(p string) bool {
	return strings.HasSuffix(p, "metadatas") || strings.HasSuffix(p, "annotations") || strings.HasSuffix(p, ".set")
}

func insertUnknown(d doc, path string) doc {
	c := cloneDoc(d)
	var cur any = c
	if path != "" {
		for _, p := range strings.Split(path, ".") {
			name, idx := p, -1
			if i := strings.Index(p, "["); i >= 0 {
				name = p[:i]
				idx, _ = strconv.Atoi(strings.TrimSuffix(p[i+1:], "]"))
			}
			cur = cur.(doc)[name]
			if idx >= 0 {
				cur = cur.([]any)[idx]
			}
			if m, ok := cur.(map[string]any); ok {
				cur = doc(m)
			}
		}
	}
	cur.(doc)["noSuchFieldAtAll"] = "x"
	return c
}

func strictCheck(d doc, into func() any) []string {
	var errs []string
	var paths []string
	pathsOf(d, "", &paths)
	for _, p := range paths {
		if freeForm(p) {
			continue // string-to-string maps: any key is legal there
		}
		u := insertUnknown(d, p)
		for name, b := range map[string][]byte{"json": toJSON(u), "yaml": yamlDoc(u), "toml": toTOML(u)} {
			if err := config.LoadConfigure(b, into(), true); err == nil {
				errs = append(errs, fmt.Sprintf("strict mode accepted an unknown field under %q (%s)", p, name))
			}
			if err := config.LoadConfigure(b, into(), false); err != nil {
				errs = append(errs, fmt.Sprintf("non-strict mode refused an unknown field under %q (%s): %v", p, name, err))
			}
		}
	}
	return errs
}

// ---- (4) flags ----

type flagRow struct {
	flag, value, key string
	fileValue        any
}

func diffJSON(a, b string) string {
	var x, y map[string]any
	json.Unmarshal([]byte(a), &x)
	json.Unmarshal([]byte(b), &y)
	var out []string
	var walk func(p string, u, v any)
	walk = func(p string, u, v any) {
		um, uok := u.(map[string]any)
		vm, vok := v.(map[string]any)
		if uok || vok {
			keys := map[string]bool{}
			for k := range um {
				keys[k] = true
			}
			for k := range vm {
				keys[k] = true
			}
			for k := range keys {
				walk(p+"."+k, um[k], vm[k])
			}
			return
		}
		ub, _ := json.Marshal(u)
		vb, _ := json.Marshal(v)
		if string(ub) != string(vb) {
			out = append(out, fmt.Sprintf("%s=%s", strings.TrimPrefix(p, "."), vb))
		}
	}
	walk("", x, y)
	sort.Strings(out)
	return strings.Join(out, ";")
}

func flagVsFile(register func(cmd *cobra.Command) any, fresh func() any, complete func(any), row flagRow) string {
	cmdA := &cobra.Command{Use: "x"}
	a := register(cmdA)
	cmdA.ParseFlags(nil)
	cmdB := &cobra.Command{Use: "x"}
	b := register(cmdB)
	if err := cmdB.ParseFlags([]string{"--" + row.flag + "=" + row.value}); err != nil {
		return "flag not accepted: " + err.Error()
	}
	complete(a)
	complete(b)
	flagDiff := diffJSON(canon(a), canon(b))
	fa, fb := fresh(), fresh()
	d := doc{}
	setPath(d, row.key, row.fileValue)
	if err := config.LoadConfigure(toJSON(d), fb, true); err != nil {
		return "file key not accepted: " + err.Error()
	}
	complete(fa)
	complete(fb)
	fileDiff := diffJSON(canon(fa), canon(fb))
	if flagDiff != fileDiff {
		return fmt.Sprintf("--%s=%s changes {%s}, the documented key %s=%v changes {%s}", row.flag, row.value, flagDiff, row.key, row.fileValue, fileDiff)
	}
	if flagDiff == "" {
		return fmt.Sprintf("--%s=%s changes nothing", row.flag, row.value)
	}
	return ""
}

var serverFlags = []flagRow{
	{"bind_addr", "10.0.0.1", "bindAddr", "10.0.0.1"}, {"bind_port", "7001", "bindPort", 7001}, {"kcp_bind_port", "7002", "kcpBindPort", 7002},
	{"quic_bind_port", "7003", "quicBindPort", 7003}, {"proxy_bind_addr", "10.0.0.2", "proxyBindAddr", "10.0.0.2"}, {"vhost_http_port", "8080", "vhostHTTPPort", 8080},
	{"vhost_https_port", "8443", "vhostHTTPSPort", 8443}, {"vhost_http_timeout", "77", "vhostHTTPTimeout", 77}, {"dashboard_addr", "10.0.0.3", "webServer.addr", "10.0.0.3"},
	{"dashboard_port", "7500", "webServer.port", 7500}, {"dashboard_user", "root", "webServer.user", "root"}, {"dashboard_pwd", "pw", "webServer.password", "pw"},
	{"enable_prometheus", "true", "enablePrometheus", true}, {"log_file", "/tmp/x.log", "log.to", "/tmp/x.log"}, {"log_level", "debug", "log.level", "debug"},
	{"log_max_days", "9", "log.maxDays", 9}, {"disable_log_color", "true", "log.disablePrintColor", true}, {"token", "tk", "auth.token", "tk"},
	{"subdomain_host", "s.example.org", "subDomainHost", "s.example.org"}, {"max_ports_per_client", "5", "maxPortsPerClient", 5}, {"tls_only", "true", "transport.tls.force", true},
	{"allow_ports", "2000-2002,3001", "allowPorts", []any{doc{"start": 2000, "end": 2002}, doc{"single": 3001}}},
}

var clientFlags = []flagRow{
	{"server_addr", "10.1.1.1", "serverAddr", "10.1.1.1"}, {"server_port", "7100", "serverPort", 7100}, {"protocol", "kcp", "transport.protocol", "kcp"},
	{"log_level", "trace", "log.level", "trace"}, {"log_file", "/tmp/c.log", "log.to", "/tmp/c.log"}, {"log_max_days", "8", "log.maxDays", 8},
	{"disable_log_color", "true", "log.disablePrintColor", true}, {"tls_server_name", "sn.example.com", "transport.tls.serverName", "sn.example.com"},
	{"dns_server", "9.9.9.9", "dnsServer", "9.9.9.9"}, {"tls_enable", "false", "transport.tls.enable", false}, {"user", "usr", "user", "usr"}, {"token", "tk2", "auth.token", "tk2"},
}

var proxyFlags = map[string][]flagRow{
	"*": {{"proxy_name", "pn", "name", "pn"}, {"metadatas", "a=b", "metadatas", doc{"a": "b"}}, {"annotations", "x=y", "annotations", doc{"x": "y"}},
		{"local_ip", "10.2.2.2", "localIP", "10.2.2.2"}, {"local_port", "8081", "localPort", 8081}, {"ue", "true", "transport.useEncryption", true},
		{"uc", "true", "transport.useCompression", true}, {"bandwidth_limit_mode", "server", "transport.bandwidthLimitMode", "server"}, {"bandwidth_limit", "3MB", "transport.bandwidthLimit", "3MB"}},
	"tcp":    {{"remote_port", "6001", "remotePort", 6001}},
	"udp":    {{"remote_port", "6002", "remotePort", 6002}},
	"http":   {{"custom_domain", "a.com,b.com", "customDomains", []any{"a.com", "b.com"}}, {"sd", "sub", "subdomain", "sub"}, {"locations", "/a,/b", "locations", []any{"/a", "/b"}}, {"http_user", "hu", "httpUser", "hu"}, {"http_pwd", "hp", "httpPassword", "hp"}, {"host_header_rewrite", "hh", "hostHeaderRewrite", "hh"}},
	"https":  {{"custom_domain", "a.com", "customDomains", []any{"a.com"}}, {"sd", "sub", "subdomain", "sub"}},
	"tcpmux": {{"custom_domain", "a.com", "customDomains", []any{"a.com"}}, {"sd", "sub", "subdomain", "sub"}, {"mux", "httpconnect", "multiplexer", "httpconnect"}, {"http_user", "hu", "httpUser", "hu"}, {"http_pwd", "hp", "httpPassword", "hp"}},
	"stcp":   {{"sk", "s3", "secretKey", "s3"}, {"allow_users", "a,b", "allowUsers", []any{"a", "b"}}},
	"sudp":   {{"sk", "s3", "secretKey", "s3"}, {"allow_users", "a,b", "allowUsers", []any{"a", "b"}}},
	"xtcp":   {{"sk", "s3", "secretKey", "s3"}, {"allow_users", "a,b", "allowUsers", []any{"a", "b"}}},
}

var visitorFlags = []flagRow{
	{"visitor_name", "vn", "name", "vn"}, {"ue", "true", "transport.useEncryption", true}, {"uc", "true", "transport.useCompression", true}, {"sk", "s4", "secretKey", "s4"},
	{"server_name", "srv", "serverName", "srv"}, {"server-user", "su", "serverUser", "su"}, {"bind_addr", "10.3.3.3", "bindAddr", "10.3.3.3"}, {"bind_port", "6100", "bindPort", 6100},
}

func registeredFlags(register func(cmd *cobra.Command) any) []string {
	cmd := &cobra.Command{Use: "x"}
	register(cmd)
	var out []string
	seen := map[string]bool{}
	add := func(n string) {
		n = strings.ReplaceAll(n, "-", "_")
		if !seen[n] {
			seen[n] = true
			out = append(out, n)
		}
	}
	for _, fs := range []interface{ VisitAll(func(*pflagFlag)) }{} {
		_ = fs
	}
	cmd.PersistentFlags().VisitAll(func(f *pflagFlag) { add(f.Name) })
	cmd.Flags().VisitAll(func(f *pflagFlag) { add(f.Name) })
	sort.Strings(out)
	return out
}

// The template values come from the process environment as it was when package config was initialised, so the check
// starts itself again with the two variables its templated files use (one value contains '=' signs).
func reexecWithEnv() {
	if os.Getenv("VERIF_TPL_TOKEN") != "" {
		return
	}
	cmd := exec.Command(os.Args[0], os.Args[1:]...)
	cmd.Env = append(os.Environ(), "VERIF_TPL_TOKEN=dG9rZW4=with=equals==", "VERIF_TPL_HOST=frps.example.net")
	cmd.Stdout, cmd.Stderr, cmd.Stdin = os.Stdout, os.Stderr, os.Stdin
	err := cmd.Run()
	if ee, ok := err.(*exec.ExitError); ok {
		os.Exit(ee.ExitCode())
	}
	if err != nil {
		fmt.Fprintln(os.Stderr, err)
		os.Exit(2)
	}
	os.Exit(0)
}

func main() {
	reexecWithEnv()
	c := drv.Setup("C18", "e2", "exploration", nil)
	if c == nil {
		return
	}
	c.Rule("exhaustive: (1) for the 8 proxy types every single-field deviation (thorough: every pair) over per-field alphabets through load -> Complete -> MarshalToMsg -> wire -> NewProxyConfigurerFromMsg, comparing every field the server acts on; (2) every such document as JSON, block YAML and TOML x strict/non-strict must load to identical structures; (3) an unknown key inserted at every nesting path of representative server / client documents x 3 formats x 2 modes; (4) every registered command-line flag set alone vs the documented file key from a hand-written table (unlisted flags fail the sanity gate); (5) validation constraints for ports and custom-domain letter case; (6) literal and template round trips; non-trivial = distinct document / flag / literal")

	// (1) + (2)
	nBoth := 0
	for _, typ := range proxyTypes {
		fields := map[string][]any{}
		for k, v := range commonFields {
			fields[k] = v
		}
		for k, v := range typeFields[typ] {
			fields[k] = v
		}
		var keys []string
		for k := range fields {
			keys = append(keys, k)
		}
		sort.Strings(keys)
		var docs []doc
		docs = append(docs, baseDoc(typ))
		for _, k := range keys {
			for _, v := range fields[k] {
				d := baseDoc(typ)
				setPath(d, k, v)
				docs = append(docs, d)
			}
		}
		if !c.Quick() {
			for i, k1 := range keys {
				for _, k2 := range keys[i+1:] {
					d := baseDoc(typ)
					setPath(d, k1, fields[k1][len(fields[k1])-1])
					setPath(d, k2, fields[k2][len(fields[k2])-1])
					docs = append(docs, d)
				}
			}
		}
		all := baseDoc(typ)
		for _, k := range keys {
			setPath(all, k, fields[k][len(fields[k])-1])
		}
		docs = append(docs, all)
		for _, d := range docs {
			nBoth++
			key := string(toJSON(d))
			c.Count("both:" + key)
			if e := bothEnds(d); e != "" {
				c.Violate("bothends", "bothends:"+typ+":"+e, fmt.Sprintf("%s proxy %s: %s", typ, key, e), d)
			}
			c.Count("fmt:" + key)
			if e := formats(d, func() any { return &v1.TypedProxyConfig{} }); e != "" {
				c.Violate("formats", "formats:"+typ+":"+e, fmt.Sprintf("%s proxy %s: %s", typ, key, e), d)
			}
		}
		if typ == "http" {
			c.Sample(all)
		}
	}
	c.Note("proxy_documents", nBoth)

	// whole client / server documents in three formats, and (3) unknown keys at every nesting path
	serverDoc := doc{"bindPort": 7000, "auth": doc{"method": "token", "token": "t", "additionalScopes": []any{"HeartBeats"}}, "transport": doc{"tcpMux": true, "maxPoolCount": 3, "tls": doc{"force": false}, "quic": doc{"keepalivePeriod": 5}},
		"webServer": doc{"addr": "127.0.0.1", "port": 7500, "user": "a", "password": "b", "tls": doc{"certFile": "c", "keyFile": "k"}}, "allowPorts": []any{doc{"start": 1000, "end": 2000}, doc{"single": 3000}},
		"httpPlugins": []any{doc{"name": "p", "addr": "127.0.0.1:9000", "path": "/h", "ops": []any{"Login"}}}, "log": doc{"level": "info"}, "sshTunnelGateway": doc{"bindPort": 2200}}
	clientDoc := doc{"serverAddr": "1.2.3.4", "auth": doc{"token": "t", "oidc": doc{"clientID": "x"}}, "transport": doc{"protocol": "tcp", "tls": doc{"enable": true}, "quic": doc{"maxIdleTimeout": 3}},
		"webServer": doc{"port": 7400}, "log": doc{"to": "console"}, "metadatas": doc{"a": "b"},
		"proxies": []any{doc{"name": "web", "type": "http", "localPort": 80, "customDomains": []any{"a.com"}, "healthCheck": doc{"type": "http", "path": "/h", "httpHeaders": []any{doc{"name": "X", "value": "Y"}}},
			"plugin": doc{"type": "http2https", "localAddr": "127.0.0.1:443", "requestHeaders": doc{"set": doc{"a": "b"}}}, "requestHeaders": doc{"set": doc{"x": "y"}}, "transport": doc{"useEncryption": true}, "loadBalancer": doc{"group": "g"}},
			doc{"name": "ssh", "type": "tcp", "localPort": 22, "remotePort": 6000}},
		"visitors": []any{doc{"name": "v", "type": "stcp", "serverName": "s", "secretKey": "k", "bindPort": 9000, "transport": doc{"useCompression": true}},
			doc{"name": "vn", "type": "stcp", "serverName": "s2", "secretKey": "k", "bindPort": -1, "plugin": doc{"type": "virtual_net", "destinationIP": "10.10.0.2"}}}}
	for name, dd := range map[string]struct {
		d    doc
		into func() any
	}{"server": {serverDoc, func() any { return &v1.ServerConfig{} }}, "client": {clientDoc, func() any { return &v1.ClientConfig{} }}} {
		c.Count("fmt:" + name)
		if e := formats(dd.d, dd.into); e != "" {
			c.Violate("formats", "formats:"+name+":"+e, name+" document: "+e, dd.d)
		}
		errs := strictCheck(dd.d, dd.into)
		var paths []string
		pathsOf(dd.d, "", &paths)
		for _, p := range paths {
			if !freeForm(p) {
				c.Count("strict:" + name + ":" + p)
			}
		}
		for _, e := range errs {
			c.Violate("strict", "strict:"+name+":"+e, name+" document: "+e, e)
		}
	}

	// (4) flags
	srvReg := func(cmd *cobra.Command) any { s := &v1.ServerConfig{}; config.RegisterServerConfigFlags(cmd, s); return s }
	cliReg := func(cmd *cobra.Command) any { s := &v1.ClientCommonConfig{}; config.RegisterClientCommonConfigFlags(cmd, s); return s }
	checkTable := func(what string, reg func(cmd *cobra.Command) any, fresh func() any, complete func(any), rows []flagRow, extraKnown ...string) {
		known := map[string]bool{}
		for _, r := range rows {
			known[strings.ReplaceAll(r.flag, "-", "_")] = true
		}
		for _, k := range extraKnown {
			known[k] = true
		}
		for _, f := range registeredFlags(reg) {
			if !known[f] && f != "help" {
				c.Cap(fmt.Sprintf("sanity gate: flag --%s of %s is not in the check's flag table", f, what))
			}
		}
		for _, r := range rows {
			c.Count("flag:" + what + ":" + r.flag)
			if e := flagVsFile(reg, fresh, complete, r); e != "" {
				c.Violate("flag", "flag:"+what+":"+r.flag, what+": "+e, r.flag)
			}
		}
	}
	checkTable("frps", srvReg, func() any { return &v1.ServerConfig{} }, func(x any) { x.(*v1.ServerConfig).Complete() }, serverFlags, "dashboard_tls_mode", "dashboard_tls_cert_file", "dashboard_tls_key_file")
	checkTable("frpc", cliReg, func() any { return &v1.ClientCommonConfig{} }, func(x any) { x.(*v1.ClientCommonConfig).Complete() }, clientFlags)
	// dashboard tls mode: three flags together vs webServer.tls
	{
		c.Count("flag:frps:dashboard_tls_mode")
		cmd := &cobra.Command{Use: "x"}
		s := &v1.ServerConfig{}
		config.RegisterServerConfigFlags(cmd, s)
		cmd.ParseFlags([]string{"--dashboard_tls_mode=true", "--dashboard_tls_cert_file=c.pem", "--dashboard_tls_key_file=k.pem"})
		if s.WebServer.TLS == nil || s.WebServer.TLS.CertFile != "c.pem" || s.WebServer.TLS.KeyFile != "k.pem" {
			c.Violate("flag", "flag:frps:dashboard_tls_mode", fmt.Sprintf("frps: --dashboard_tls_mode=true with cert and key files yields webServer.tls=%+v, the file keys webServer.tls.certFile/keyFile yield a TLS configuration", s.WebServer.TLS), "dashboard_tls_mode")
		}
	}
	for _, typ := range proxyTypes {
		reg := func(cmd *cobra.Command) any {
			p := v1.NewProxyConfigurerByType(v1.ProxyType(typ))
			config.RegisterProxyFlags(cmd, p)
			return p
		}
		fresh := func() any { return v1.NewProxyConfigurerByType(v1.ProxyType(typ)) }
		complete := func(x any) { x.(v1.ProxyConfigurer).Complete("") }
		rows := append(append([]flagRow{}, proxyFlags["*"]...), proxyFlags[typ]...)
		checkTable("frpc "+typ, reg, fresh, complete, rows)
	}
	for _, typ := range []string{"stcp", "sudp", "xtcp"} {
		reg := func(cmd *cobra.Command) any {
			p := v1.NewVisitorConfigurerByType(v1.VisitorType(typ))
			config.RegisterVisitorFlags(cmd, p)
			return p
		}
		fresh := func() any { return v1.NewVisitorConfigurerByType(v1.VisitorType(typ)) }
		complete := func(x any) {}
		checkTable("frpc visitor "+typ, reg, fresh, complete, visitorFlags)
	}

	// (5) validation
	for _, port := range []int{-1, 0, 1, 65535, 65536, 100000} {
		for _, typ := range []string{"tcp", "udp"} {
			d := baseDoc(typ)
			d["remotePort"] = port
			c.Count(fmt.Sprintf("val:port:%s:%d", typ, port))
			p, err := loadProxy(d, true)
			if err != nil {
				continue
			}
			p.Complete("")
			if err := validation.ValidateProxyConfigurerForClient(p); err == nil && (port < 0 || port > 65535) {
				c.Violate("validation", fmt.Sprintf("val:port:%s:%d", typ, port), fmt.Sprintf("%s proxy with remotePort %d accepted by validation", typ, port), d)
			}
			d2 := baseDoc(typ)
			d2["localPort"] = port
			p2, err := loadProxy(d2, true)
			if err == nil {
				p2.Complete("")
				if err := validation.ValidateProxyConfigurerForClient(p2); err == nil && (port < 0 || port > 65535) {
					c.Violate("validation", fmt.Sprintf("val:localport:%s:%d", typ, port), fmt.Sprintf("%s proxy with localPort %d accepted by validation", typ, port), d2)
				}
			}
		}
	}
	host := "frps.example.org"
	label := "a." + host
	for mask := 0; mask < 1<<len(label) && mask < 1<<18; mask++ {
		b := []byte(label)
		for i := range b {
			if mask&(1<<i) != 0 && b[i] >= 'a' && b[i] <= 'z' {
				b[i] -= 32
			}
		}
		dom := string(b)
		c.Count("val:case:" + dom)
		for _, typ := range []string{"http", "https", "tcpmux"} {
			m := &msg.NewProxy{ProxyName: "x", ProxyType: typ, CustomDomains: []string{dom}, Multiplexer: "httpconnect"}
			if _, err := config.NewProxyConfigurerFromMsg(m, serverCfg); err == nil {
				c.Violate("validation", "val:case:"+typ, fmt.Sprintf("%s proxy with custom domain %q accepted although it lies inside the server's subdomain host %q", typ, dom, host), dom)
			}
		}
		if c.Quick() && mask > 4096 {
			break
		}
	}
	// the server's own spelling of its subdomain host does not matter either
	for _, shost := range []string{"Frps.Example.Org", "FRPS.EXAMPLE.ORG", "frps.example.ORG"} {
		sc := &v1.ServerConfig{}
		sc.VhostHTTPPort, sc.VhostHTTPSPort, sc.TCPMuxHTTPConnectPort = 80, 443, 1337
		sc.SubDomainHost = shost
		sc.Complete()
		for _, dom := range []string{"a.frps.example.org", "A.FRPS.EXAMPLE.ORG", "a.Frps.Example.Org", "x.y.frps.example.org"} {
			c.Count("val:case2:" + shost + ":" + dom)
			for _, typ := range []string{"http", "https", "tcpmux"} {
				m := &msg.NewProxy{ProxyName: "x", ProxyType: typ, CustomDomains: []string{dom}, Multiplexer: "httpconnect"}
				if _, err := config.NewProxyConfigurerFromMsg(m, sc); err == nil {
					c.Violate("validation", "val:case2:"+typ, fmt.Sprintf("%s proxy with custom domain %q accepted although it lies inside the server's subdomain host %q", typ, dom, shost), dom)
				}
			}
		}
	}
	for _, dom := range []string{"example.org", "other.com", "org", "a.example.com"} {
		c.Count("val:outside:" + dom)
		for _, typ := range []string{"http", "https", "tcpmux"} {
			m := &msg.NewProxy{ProxyName: "x", ProxyType: typ, CustomDomains: []string{dom}, Multiplexer: "httpconnect"}
			if _, err := config.NewProxyConfigurerFromMsg(m, serverCfg); err != nil {
				c.Violate("validation", "val:outside:"+typ, fmt.Sprintf("%s proxy with custom domain %q refused although it lies outside the server's subdomain host: %v", typ, dom, err), dom)
			}
		}
	}
	for _, bad := range []doc{{"name": "x", "type": "tcp", "localPort": 1, "transport": doc{"bandwidthLimitMode": "sideways"}}, {"name": "x", "type": "tcp", "localPort": 1, "transport": doc{"proxyProtocolVersion": "v3"}},
		{"name": "x", "type": "tcp", "localPort": 1, "healthCheck": doc{"type": "icmp"}}, {"name": "x", "type": "tcpmux", "localPort": 1, "customDomains": []any{"a.com"}, "multiplexer": "socks"}} {
		c.Count("val:enum:" + string(toJSON(bad)))
		p, err := loadProxy(bad, true)
		if err != nil {
			continue
		}
		p.Complete("")
		if err := validation.ValidateProxyConfigurerForClient(p); err == nil {
			c.Violate("validation", "val:enum:"+string(toJSON(bad)), "value outside the allowed enumeration accepted: "+string(toJSON(bad)), bad)
		}
	}


	// (7) allowed enumerations and ranges of the common configurations: every value of each documented enumeration is
	// accepted, near misses (other letter case, neighbouring words, empty) are refused; ports at and beyond both ends.
	type commonCase struct {
		key string
		val any
		ok  bool
	}
	var clientCases, serverCases []commonCase
	for _, v := range []string{"tcp", "kcp", "quic", "websocket", "wss"} {
		clientCases = append(clientCases, commonCase{"transport.protocol", v, true})
	}
	for _, v := range []string{"udp", "ws", "TCP", "Quic", "http", "tcp "} {
		clientCases = append(clientCases, commonCase{"transport.protocol", v, false})
	}
	for _, side := range []*[]commonCase{&clientCases, &serverCases} {
		for _, v := range []string{"token", "oidc"} {
			*side = append(*side, commonCase{"auth.method", v, true})
		}
		for _, v := range []string{"Token", "basic", "jwt", "none", "OIDC"} {
			*side = append(*side, commonCase{"auth.method", v, false})
		}
		*side = append(*side, commonCase{"auth.additionalScopes", []any{}, true}, commonCase{"auth.additionalScopes", []any{"HeartBeats"}, true},
			commonCase{"auth.additionalScopes", []any{"NewWorkConns"}, true}, commonCase{"auth.additionalScopes", []any{"HeartBeats", "NewWorkConns"}, true},
			commonCase{"auth.additionalScopes", []any{"heartbeats"}, false}, commonCase{"auth.additionalScopes", []any{"HeartBeats", "Logins"}, false}, commonCase{"auth.additionalScopes", []any{"NewProxies"}, false})
		for _, v := range []string{"trace", "debug", "info", "warn", "error"} {
			*side = append(*side, commonCase{"log.level", v, true})
		}
		for _, v := range []string{"warning", "INFO", "fatal", "verbose", "off"} {
			*side = append(*side, commonCase{"log.level", v, false})
		}
		for _, v := range []int{0, 1, 7400, 65535} {
			*side = append(*side, commonCase{"webServer.port", v, true})
		}
		for _, v := range []int{-1, 65536, 100000} {
			*side = append(*side, commonCase{"webServer.port", v, false})
		}
		*side = append(*side, commonCase{"webServer.tls", doc{"certFile": "c.pem", "keyFile": "k.pem"}, true}, commonCase{"webServer.tls", doc{"certFile": "c.pem"}, false}, commonCase{"webServer.tls", doc{"keyFile": "k.pem"}, false})
	}
	clientCases = append(clientCases, commonCase{"transport.heartbeatTimeout", 10, false} /* interval stays 30 */, commonCase{"transport.heartbeatTimeout", 30, true}, commonCase{"transport.heartbeatTimeout", 31, true}, commonCase{"transport.heartbeatTimeout", -1, true})
	for _, k := range []string{"bindPort", "kcpBindPort", "quicBindPort", "vhostHTTPPort", "vhostHTTPSPort", "tcpmuxHTTPConnectPort"} {
		for _, v := range []int{0, 1, 65535} {
			serverCases = append(serverCases, commonCase{k, v, true})
		}
		for _, v := range []int{-1, 65536, 70000} {
			serverCases = append(serverCases, commonCase{k, v, false})
		}
	}
	for _, op := range []string{"Login", "NewProxy", "CloseProxy", "Ping", "NewWorkConn", "NewUserConn"} {
		serverCases = append(serverCases, commonCase{"httpPlugins", []any{doc{"name": "p", "addr": "127.0.0.1:1", "path": "/h", "ops": []any{op}}}, true})
	}
	for _, op := range []string{"Logout", "login", "NewVisitorConn", ""} {
		serverCases = append(serverCases, commonCase{"httpPlugins", []any{doc{"name": "p", "addr": "127.0.0.1:1", "path": "/h", "ops": []any{"Login", op}}}, false})
	}
	runCommon := func(side string, cases []commonCase) {
		for _, cc := range cases {
			d := doc{}
			if side == "client" {
				d["transport"] = doc{"heartbeatInterval": 30}
			}
			setPath(d, cc.key, cc.val)
			sig := fmt.Sprintf("val:common:%s:%s=%v", side, cc.key, cc.val)
			c.Count(sig)
			var err error
			if side == "client" {
				cfg := &v1.ClientCommonConfig{}
				if e := config.LoadConfigure(toJSON(d), cfg, true); e != nil {
					c.Violate("validation", sig, fmt.Sprintf("client document %s does not load: %v", toJSON(d), e), d)
					continue
				}
				cfg.Complete()
				_, err = validation.ValidateClientCommonConfig(cfg)
			} else {
				cfg := &v1.ServerConfig{}
				if e := config.LoadConfigure(toJSON(d), cfg, true); e != nil {
					c.Violate("validation", sig, fmt.Sprintf("server document %s does not load: %v", toJSON(d), e), d)
					continue
				}
				cfg.Complete()
				_, err = validation.ValidateServerConfig(cfg)
			}
			if cc.ok && err != nil {
				c.Violate("validation", sig, fmt.Sprintf("%s configuration with %s = %v, a documented value, is refused: %v", side, cc.key, cc.val, err), d)
			}
			if !cc.ok && err == nil {
				c.Violate("validation", sig, fmt.Sprintf("%s configuration with %s = %v, outside the documented values, is accepted by validation", side, cc.key, cc.val), d)
			}
		}
	}
	runCommon("client", clientCases)
	runCommon("server", serverCases)
	// visitors: name, server name and bind port are required; xtcp visitors speak kcp or quic
	for _, typ := range []string{"stcp", "sudp", "xtcp"} {
		for _, vc := range []struct {
			key string
			val any
			ok  bool
		}{{"", nil, true}, {"name", "", false}, {"serverName", "", false}, {"bindPort", 0, false}, {"bindPort", -1, true}, {"bindPort", 65535, true},
			{"protocol", "kcp", true}, {"protocol", "quic", true}, {"protocol", "tcp", typ != "xtcp"}, {"protocol", "KCP", typ != "xtcp"}} {
			if vc.key == "protocol" && typ != "xtcp" {
				continue
			}
			d := doc{"name": "v", "type": typ, "serverName": "s", "secretKey": "k", "bindPort": 9000}
			if vc.key != "" {
				d[vc.key] = vc.val
			}
			sig := fmt.Sprintf("val:visitor:%s:%s=%v", typ, vc.key, vc.val)
			c.Count(sig)
			tv := &v1.TypedVisitorConfig{}
			if e := config.LoadConfigure(toJSON(d), tv, true); e != nil {
				if vc.ok {
					c.Violate("validation", sig, fmt.Sprintf("visitor document %s does not load: %v", toJSON(d), e), d)
				}
				continue
			}
			tv.VisitorConfigurer.Complete(&v1.ClientCommonConfig{})
			err := validation.ValidateVisitorConfigurer(tv.VisitorConfigurer)
			if vc.ok && err != nil {
				c.Violate("validation", sig, fmt.Sprintf("%s visitor with %s = %v is refused: %v", typ, vc.key, vc.val, err), d)
			}
			if !vc.ok && err == nil {
				c.Violate("validation", sig, fmt.Sprintf("%s visitor with %s = %v is accepted by validation", typ, vc.key, vc.val), d)
			}
		}
	}
	// client plugins: the option every plugin cannot work without
	for _, pc := range []struct {
		typ, key string
	}{{"http2https", "localAddr"}, {"https2http", "localAddr"}, {"https2https", "localAddr"}, {"static_file", "localPath"}, {"unix_domain_socket", "unixPath"}, {"tls2raw", "localAddr"}} {
		for _, present := range []bool{true, false} {
			pl := doc{"type": pc.typ}
			if present {
				pl[pc.key] = "x"
			}
			d := doc{"name": "x", "type": "tcp", "remotePort": 7001, "plugin": pl}
			sig := fmt.Sprintf("val:plugin:%s:%v", pc.typ, present)
			c.Count(sig)
			p, err := loadProxy(d, true)
			if err != nil {
				if present {
					c.Violate("validation", sig, fmt.Sprintf("proxy with plugin %s does not load: %v", pc.typ, err), d)
				}
				continue
			}
			p.Complete("")
			err = validation.ValidateProxyConfigurerForClient(p)
			if present && err != nil {
				c.Violate("validation", sig, fmt.Sprintf("plugin %s with %s set is refused: %v", pc.typ, pc.key, err), d)
			}
			if !present && err == nil {
				c.Violate("validation", sig, fmt.Sprintf("plugin %s without %s is accepted by validation", pc.typ, pc.key), d)
			}
		}
	}

	// (8) whole configuration files: a templated client / server file (environment values — one of them containing '=' —
	// and an enumerated port range) in each format loads to the same structures as the file with everything written out.
	{
		dir, err := os.MkdirTemp("/verif/.build", "c18files")
		if err != nil {
			c.Cap("cannot create a scratch directory: " + err.Error())
		} else {
			defer os.RemoveAll(dir)
			envTok := os.Getenv("VERIF_TPL_TOKEN")
			type fileCase struct{ ext, tpl, plain string }
			n := 3
			mk := func(ext string) fileCase {
				var tpl, plain strings.Builder
				switch ext {
				case "toml":
					fmt.Fprintf(&tpl, "serverAddr = \"{{ .Envs.VERIF_TPL_HOST }}\"\nserverPort = 7000\nauth.token = \"{{ .Envs.VERIF_TPL_TOKEN }}\"\n")
					fmt.Fprintf(&plain, "serverAddr = \"frps.example.net\"\nserverPort = 7000\nauth.token = %q\n", envTok)
					fmt.Fprintf(&tpl, "{{- range $_, $v := parseNumberRangePair \"6000-%d\" \"7000-%d\" }}\n[[proxies]]\nname = \"tcp-{{ $v.First }}\"\ntype = \"tcp\"\nlocalPort = {{ $v.First }}\nremotePort = {{ $v.Second }}\n{{- end }}\n", 6000+n-1, 7000+n-1)
					for i := 0; i < n; i++ {
						fmt.Fprintf(&plain, "\n[[proxies]]\nname = \"tcp-%d\"\ntype = \"tcp\"\nlocalPort = %d\nremotePort = %d", 6000+i, 6000+i, 7000+i)
					}
					plain.WriteString("\n")
				case "yaml":
					fmt.Fprintf(&tpl, "serverAddr: \"{{ .Envs.VERIF_TPL_HOST }}\"\nserverPort: 7000\nauth:\n  token: \"{{ .Envs.VERIF_TPL_TOKEN }}\"\nproxies:\n")
					fmt.Fprintf(&plain, "serverAddr: \"frps.example.net\"\nserverPort: 7000\nauth:\n  token: %q\nproxies:\n", envTok)
					fmt.Fprintf(&tpl, "{{- range $_, $v := parseNumberRangePair \"6000-%d\" \"7000-%d\" }}\n- name: \"tcp-{{ $v.First }}\"\n  type: tcp\n  localPort: {{ $v.First }}\n  remotePort: {{ $v.Second }}\n{{- end }}\n", 6000+n-1, 7000+n-1)
					for i := 0; i < n; i++ {
						fmt.Fprintf(&plain, "- name: \"tcp-%d\"\n  type: tcp\n  localPort: %d\n  remotePort: %d\n", 6000+i, 6000+i, 7000+i)
					}
				case "json":
					fmt.Fprintf(&tpl, "{\"serverAddr\": \"{{ .Envs.VERIF_TPL_HOST }}\", \"serverPort\": 7000, \"auth\": {\"token\": \"{{ .Envs.VERIF_TPL_TOKEN }}\"}, \"proxies\": [")
					fmt.Fprintf(&plain, "{\"serverAddr\": \"frps.example.net\", \"serverPort\": 7000, \"auth\": {\"token\": %q}, \"proxies\": [", envTok)
					fmt.Fprintf(&tpl, "{{- range $i, $v := parseNumberRangePair \"6000-%d\" \"7000-%d\" }}{{ if $i }},{{ end }}{\"name\": \"tcp-{{ $v.First }}\", \"type\": \"tcp\", \"localPort\": {{ $v.First }}, \"remotePort\": {{ $v.Second }}}{{- end }}]}", 6000+n-1, 7000+n-1)
					for i := 0; i < n; i++ {
						if i > 0 {
							plain.WriteString(",")
						}
						fmt.Fprintf(&plain, "{\"name\": \"tcp-%d\", \"type\": \"tcp\", \"localPort\": %d, \"remotePort\": %d}", 6000+i, 6000+i, 7000+i)
					}
					plain.WriteString("]}")
				}
				return fileCase{ext, tpl.String(), plain.String()}
			}
			loadAll := func(path string) (string, error) {
				cc, ps, vs_, _, err := config.LoadClientConfig(path, true)
				if err != nil {
					return "", err
				}
				out := canon(cc)
				for _, p := range ps {
					out += "\n" + canon(p)
				}
				for _, v := range vs_ {
					out += "\n" + canon(v)
				}
				return out, nil
			}
			var first string
			for _, ext := range []string{"toml", "yaml", "json"} {
				fc := mk(ext)
				sig := "file:client:" + ext
				c.Count(sig)
				tp, pp := filepath.Join(dir, "tpl."+ext), filepath.Join(dir, "plain."+ext)
				_ = os.WriteFile(tp, []byte(fc.tpl), 0o600)
				_ = os.WriteFile(pp, []byte(fc.plain), 0o600)
				a, errA := loadAll(tp)
				b, errB := loadAll(pp)
				if errB != nil {
					c.Violate("file", sig, fmt.Sprintf("written-out %s client file refused: %v\n%s", ext, errB, fc.plain), fc.plain)
					continue
				}
				if errA != nil {
					c.Violate("file", sig, fmt.Sprintf("templated %s client file refused: %v\n%s", ext, errA, fc.tpl), fc.tpl)
					continue
				}
				if a != b {
					c.Violate("file", sig, fmt.Sprintf("templated %s client file and the same file written out load differently: %s", ext, diffJSON(a, b)), fc.tpl)
				}
				if !strings.Contains(b, envTok) || !strings.Contains(b, "tcp-6002") {
					c.Violate("file", sig, fmt.Sprintf("%s client file: loaded structures miss the token or the last proxy of the range", ext), fc.plain)
				}
				if first == "" {
					first = b
				} else if first != b {
					c.Violate("file", sig, fmt.Sprintf("%s client file loads differently from the toml file with the same content: %s", ext, diffJSON(first, b)), fc.plain)
				}
			}
			// server file
			stpl := "bindPort = 7000\nauth.token = \"{{ .Envs.VERIF_TPL_TOKEN }}\"\nsubDomainHost = \"{{ .Envs.VERIF_TPL_HOST }}\"\nallowPorts = [\n{{- range $i, $v := parseNumberRange \"2000-2002,3000\" }}{{ if $i }},{{ end }}\n  { single = {{ $v }} }\n{{- end }}\n]\n"
			splain := fmt.Sprintf("bindPort = 7000\nauth.token = %q\nsubDomainHost = \"frps.example.net\"\nallowPorts = [\n  { single = 2000 },\n  { single = 2001 },\n  { single = 2002 },\n  { single = 3000 }\n]\n", envTok)
			c.Count("file:server:toml")
			tp, pp := filepath.Join(dir, "stpl.toml"), filepath.Join(dir, "splain.toml")
			_ = os.WriteFile(tp, []byte(stpl), 0o600)
			_ = os.WriteFile(pp, []byte(splain), 0o600)
			sa, _, errA := config.LoadServerConfig(tp, true)
			sb, _, errB := config.LoadServerConfig(pp, true)
			switch {
			case errB != nil:
				c.Violate("file", "file:server:toml", fmt.Sprintf("written-out server file refused: %v", errB), splain)
			case errA != nil:
				c.Violate("file", "file:server:toml", fmt.Sprintf("templated server file refused: %v\n%s", errA, stpl), stpl)
			case canon(sa) != canon(sb):
				c.Violate("file", "file:server:toml", "templated server file and the same file written out load differently: "+diffJSON(canon(sa), canon(sb)), stpl)
			case sb.Auth.Token != envTok || len(sb.AllowPorts) != 4:
				c.Violate("file", "file:server:toml", fmt.Sprintf("server file: token %q, %d allowPorts entries", sb.Auth.Token, len(sb.AllowPorts)), splain)
			}
		}
	}

	// (9) supplementary, free-running (not exhaustive): a strict and a non-strict load overlap in time — what a reload
	// through the admin API and a background load do. Every strict load of a document with an unknown nested key must
	// fail, every non-strict load of it must succeed, whatever the other goroutine is doing.
	{
		bad := []byte(`{"serverAddr":"1.2.3.4","proxies":[{"name":"a","type":"tcp","localPort":1,"remotePort":2,"noSuchField":1}]}`)
		var wgc sync.WaitGroup
		var strictAccepted, laxRefused int32
		for g := 0; g < 2; g++ {
			wgc.Add(2)
			go func() {
				defer wgc.Done()
				for i := 0; i < 400; i++ {
					if config.LoadConfigure(bad, &v1.ClientConfig{}, true) == nil {
						atomic.AddInt32(&strictAccepted, 1)
					}
				}
			}()
			go func() {
				defer wgc.Done()
				for i := 0; i < 400; i++ {
					if config.LoadConfigure(bad, &v1.ClientConfig{}, false) != nil {
						atomic.AddInt32(&laxRefused, 1)
					}
				}
			}()
		}
		wgc.Wait()
		c.Count("overlap:strict-vs-lax")
		if strictAccepted > 0 || laxRefused > 0 {
			c.Violate("overlap", "overlap:strict-vs-lax", fmt.Sprintf("strict and non-strict loads overlapping in time: %d of 800 strict loads accepted an unknown nested field, %d of 800 non-strict loads refused it", strictAccepted, laxRefused), string(bad))
		}
	}

	// (6) literals and templates
	for _, lit := range []string{"1000", "1000-1002", "1000-1002,2000", "1,2,3", "80,443,8000-8010,9000-9000"} {
		c.Count("lit:ports:" + lit)
		s, err := types.NewPortsRangeSliceFromString(lit)
		if err != nil {
			c.Violate("literal", "lit:ports:"+lit, "port range literal refused: "+lit, lit)
			continue
		}
		back := types.PortsRangeSlice(s).String()
		s2, err := types.NewPortsRangeSliceFromString(back)
		if err != nil || fmt.Sprint(s) != fmt.Sprint(s2) {
			c.Violate("literal", "lit:ports:"+lit, fmt.Sprintf("port range literal %q -> %v -> %q -> %v", lit, s, back, s2), lit)
		}
	}
	for _, lit := range []string{"1KB", "10KB", "1MB", "1.5MB", "100MB", "0.5KB", ""} {
		c.Count("lit:bw:" + lit)
		q, err := types.NewBandwidthQuantity(lit)
		if err != nil {
			c.Violate("literal", "lit:bw:"+lit, "bandwidth literal refused: "+lit, lit)
			continue
		}
		q2, _ := types.NewBandwidthQuantity(q.String())
		if q.Bytes() != q2.Bytes() || q.String() != lit {
			c.Violate("literal", "lit:bw:"+lit, fmt.Sprintf("bandwidth literal %q -> %d bytes -> %q -> %d bytes", lit, q.Bytes(), q.String(), q2.Bytes()), lit)
		}
	}
	for a := 1; a <= 3; a++ {
		for n := 1; n <= 3; n++ {
			tpl := fmt.Sprintf(`{{- range $_, $v := parseNumberRangePair "%d-%d" "%d-%d" }}
[{{ $v.First }}->{{ $v.Second }}|{{ $.Envs.VERIF_TPL }}]
{{- end }}`, 6000, 6000+n-1, 7000+a, 7000+a+n-1)
			want := ""
			for i := 0; i < n; i++ {
				want += fmt.Sprintf("\n[%d->%d|env-value-%d]", 6000+i, 7000+a+i, a)
			}
			got, err := config.RenderWithTemplate([]byte(tpl), &config.Values{Envs: map[string]string{"VERIF_TPL": fmt.Sprintf("env-value-%d", a)}})
			c.Count(fmt.Sprintf("tpl:%d:%d", a, n))
			if err != nil || string(got) != want {
				c.Violate("template", fmt.Sprintf("tpl:%d:%d", a, n), fmt.Sprintf("template renders %q (err %v), hand-expanded text is %q", got, err, want), tpl)
			}
		}
	}
	c.Finish()
}
