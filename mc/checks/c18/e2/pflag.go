package main

import "github.com/spf13/pflag"

type pflagFlag = pflag.Flag
