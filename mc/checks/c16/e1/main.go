// C16 — no input or interleaving crashes or wedges frps or frpc.
// E1: (a) every message type x every field x extreme values, one deviation at a time, sent to the real frps as first
// message, on an established session and on work / visitor connections, and by a model server to the real frpc;
// (b) concurrent mixed traffic (registration, closure, groups, visitors, NAT-hole, re-login, cuts) under
// deviation-bounded DFS with the happens-before detector on the shared tables.
package main

import (
	"crypto/tls"
	"encoding/base64"
	"fmt"
	"math"
	"net"
	"reflect"
	"strings"
	"sync"
	"time"

	v1 "github.com/fatedier/frp/pkg/config/v1"
	"github.com/fatedier/frp/pkg/metrics"
	"github.com/fatedier/frp/pkg/msg"
	"github.com/fatedier/frp/pkg/transport"
	netpkg "github.com/fatedier/frp/pkg/util/net"
	"github.com/fatedier/frp/pkg/util/util"

	"verif/mc/drv"
	"verif/mc/peek"
	"verif/mc/vs"
	"verif/mc/vs/vctx"
	cw "verif/mc/worlds/cliworld"
	sw "verif/mc/worlds/srvworld"
)

// ---- value alphabets ----

func alphabet(t reflect.Type) []reflect.Value {
	var out []reflect.Value
	add := func(v any) { out = append(out, reflect.ValueOf(v).Convert(t)) }
	switch t.Kind() {
	case reflect.String:
		for _, s := range []string{"", strings.Repeat("A", 9000), "\x00\x01\xff\xfe", "../../../../etc/passwd", "a b\r\nX-Injected: 1", "*", "1e999", "-1", strings.Repeat("é", 300)} {
			add(s)
		}
	case reflect.Int64:
		for _, v := range []int64{0, -1, -11, math.MinInt64, math.MaxInt64, 1 << 40} {
			add(v)
		}
	case reflect.Int:
		for _, v := range []int{0, -1, -11, -10, math.MinInt64, math.MaxInt64, 1 << 31, 65536, 100000} {
			add(v)
		}
	case reflect.Uint16:
		for _, v := range []uint16{0, 65535} {
			add(v)
		}
	case reflect.Bool:
		add(true)
		add(false)
	case reflect.Map:
		out = append(out, reflect.Zero(t), reflect.MakeMap(t))
		m := reflect.MakeMap(t)
		for i := 0; i < 300; i++ {
			m.SetMapIndex(reflect.ValueOf(fmt.Sprintf("k%d", i)), reflect.ValueOf(strings.Repeat("v", 20)))
		}
		out = append(out, m)
		m2 := reflect.MakeMap(t)
		m2.SetMapIndex(reflect.ValueOf(""), reflect.ValueOf(""))
		out = append(out, m2)
	case reflect.Slice:
		out = append(out, reflect.Zero(t), reflect.MakeSlice(t, 0, 0))
		if t.Elem().Kind() == reflect.String {
			s := reflect.MakeSlice(t, 0, 1000)
			for i := 0; i < 1000; i++ {
				s = reflect.Append(s, reflect.ValueOf("x.y"))
			}
			out = append(out, s)
			for _, e := range []string{"", "not-an-address", "1.2.3.4", "1.2.3.4:99999", "[::1]:0", "*.", strings.Repeat("a.", 200)} {
				out = append(out, reflect.Append(reflect.MakeSlice(t, 0, 2), reflect.ValueOf(e), reflect.ValueOf(e)))
			}
		} else {
			el := reflect.New(t.Elem()).Elem()
			out = append(out, reflect.Append(reflect.MakeSlice(t, 0, 1), el))
		}
	case reflect.Pointer:
		out = append(out, reflect.Zero(t), reflect.ValueOf(&net.UDPAddr{}), reflect.ValueOf(&net.UDPAddr{IP: net.IP{1, 2}, Port: -5}), reflect.ValueOf(&net.UDPAddr{IP: net.ParseIP("ff02::1"), Port: 1 << 30, Zone: strings.Repeat("z", 500)}))
	case reflect.Struct:
		for i := 0; i < t.NumField(); i++ {
			for _, v := range alphabet(t.Field(i).Type) {
				s := reflect.New(t).Elem()
				s.Field(i).Set(v)
				out = append(out, s)
			}
		}
	}
	return out
}

// baselines: a valid message of every type a peer may send
func baselines(w *sw.World, runID string) map[string]msg.Message {
	ts := w.Now()
	b := map[string]msg.Message{
		"Login":              &msg.Login{Version: "0.62.0", User: "fz", PrivilegeKey: util.GetAuthKey(sw.Token, ts), Timestamp: ts, PoolCount: 1},
		"CloseProxy":         &msg.CloseProxy{ProxyName: "fz-tcp"},
		"NewWorkConn":        &msg.NewWorkConn{RunID: runID, PrivilegeKey: util.GetAuthKey(sw.Token, ts), Timestamp: ts},
		"NewVisitorConn":     &msg.NewVisitorConn{RunID: runID, ProxyName: "by-stcp", SignKey: util.GetAuthKey("sk", ts), Timestamp: ts},
		"Ping":               &msg.Ping{PrivilegeKey: util.GetAuthKey(sw.Token, ts), Timestamp: ts},
		"UDPPacket":          &msg.UDPPacket{Content: "aGk=", RemoteAddr: &net.UDPAddr{IP: net.IPv4(1, 2, 3, 4), Port: 5}},
		"NatHoleVisitor":     &msg.NatHoleVisitor{TransactionID: "t", ProxyName: "by-xtcp", Protocol: "quic", SignKey: util.GetAuthKey("sk", ts), Timestamp: ts, MappedAddrs: []string{"1.1.1.1:1", "1.1.1.1:1"}},
		"NatHoleClient":      &msg.NatHoleClient{TransactionID: "t", ProxyName: "by-xtcp", Sid: "nosuchsid", MappedAddrs: []string{"2.2.2.2:2", "2.2.2.2:2"}},
		"NatHoleReport":      &msg.NatHoleReport{Sid: "nosuchsid", Success: true},
		"LoginResp":          &msg.LoginResp{Version: "x", RunID: "r"},
		"NewProxyResp":       &msg.NewProxyResp{ProxyName: "fz-tcp", RemoteAddr: ":1"},
		"ReqWorkConn":        &msg.ReqWorkConn{},
		"StartWorkConn":      &msg.StartWorkConn{ProxyName: "fz-tcp", SrcAddr: "1.2.3.4", SrcPort: 5},
		"NewVisitorConnResp": &msg.NewVisitorConnResp{ProxyName: "x"},
		"Pong":               &msg.Pong{},
		"NatHoleResp":        &msg.NatHoleResp{TransactionID: "t", Sid: "s"},
		"NatHoleSid":         &msg.NatHoleSid{TransactionID: "t", Sid: "s"},
	}
	for _, typ := range []string{"tcp", "udp", "http", "https", "tcpmux", "stcp", "sudp", "xtcp"} {
		np := &msg.NewProxy{ProxyName: "fz-" + typ, ProxyType: typ}
		switch typ {
		case "tcp", "udp":
			np.RemotePort = 20002
		case "http", "https":
			np.CustomDomains = []string{"fz.example.com"}
		case "tcpmux":
			np.CustomDomains = []string{"fz.example.com"}
			np.Multiplexer = "httpconnect"
		default:
			np.Sk = "fzsk"
		}
		b["NewProxy/"+typ] = np
	}
	return b
}

// deviate sets field (or "f1+f2" with alt = a1*100+a2) of a copy of base to the alt-th value of its alphabet.
func deviate(base msg.Message, field string, alt int) (msg.Message, bool) {
	t := reflect.TypeOf(base).Elem()
	v := reflect.New(t)
	v.Elem().Set(reflect.ValueOf(base).Elem())
	if field == "" {
		return v.Interface(), true
	}
	fs, alts := strings.Split(field, "+"), []int{alt}
	if len(fs) == 2 {
		alts = []int{alt / 100, alt % 100}
	}
	for i, fn := range fs {
		f, ok := t.FieldByName(fn)
		if !ok {
			return nil, false
		}
		al := alphabet(f.Type)
		if alts[i] >= len(al) {
			return nil, false
		}
		v.Elem().FieldByName(fn).Set(al[alts[i]])
	}
	return v.Interface(), true
}

func newWorld(x *vs.Exec) *sw.World {
	return sw.New(x, sw.Opt{AllowPorts: sw.P(20000, 20003), UserConnTimeout: 5, HeartbeatTimeout: -1, TCPMuxPort: 7500, HTTPPort: 7080, HTTPSPort: 7443, SubDomainHost: "sub.example.org"})
}

// scField: one deviated message at one position.
func scField(pos, key, field string, alt int) func(x *vs.Exec) {
	return func(x *vs.Exec) {
		defer sw.Guard()
		w := newWorld(x)
		by := w.MustLogin("by", sw.LoginOpt{User: "uby"})
		for _, m := range []*msg.NewProxy{{ProxyName: "by-tcp", ProxyType: "tcp", RemotePort: 20000}, {ProxyName: "by-stcp", ProxyType: "stcp", Sk: "sk", AllowUsers: []string{"*"}}, {ProxyName: "by-xtcp", ProxyType: "xtcp", Sk: "sk", AllowUsers: []string{"*"}}} {
			if r := by.Reg(m); !strings.HasPrefix(r, "ok") {
				vs.Fail("setup %s: %s", m.ProxyName, r)
				return
			}
		}
		w.Quiesce()
		fz := w.MustLogin("fz", sw.LoginOpt{User: "fz", PoolCount: 1})
		w.Quiesce()
		base := baselines(w, fz.RunID)[key]
		m, ok := deviate(base, field, alt)
		if !ok {
			vs.Observe("no such case")
			w.Teardown()
			return
		}
		vs.SetInterest(true)
		switch pos {
		case "first":
			c, err := w.Dial()
			if err == nil {
				msg.WriteMsg(c, m)
				w.Quiesce()
				time.Sleep(12 * time.Second)
				c.Close()
			}
		case "session":
			fz.Send(m)
			w.Quiesce()
			time.Sleep(12 * time.Second)
		}
		w.Quiesce()
		vs.SetInterest(false)
		// failures are confined to the connection / session that caused them
		if by.Closed {
			vs.Fail("%s %s.%s#%d: the bystander's session was closed", pos, key, field, alt)
		}
		by.SendPing(nil)
		if r := by.Await(&msg.Pong{}, nil); r == nil {
			vs.Fail("%s %s.%s#%d: the bystander's session no longer handles messages", pos, key, field, alt)
		}
		if who, e := w.UserEcho("10.6.6.6:6", 20000, "alive?"); e != "" || who != "by/by-tcp" {
			vs.Fail("%s %s.%s#%d: the bystander's tunnel no longer works: who=%q err=%s", pos, key, field, alt, who, e)
		}
		// the server still accepts a new client with a new tunnel
		wd, _, err := w.Login("wd", sw.LoginOpt{User: "wd"})
		if err != nil {
			vs.Fail("%s %s.%s#%d: the server no longer accepts logins: %v", pos, key, field, alt, err)
		} else {
			wd.AutoWork()
			if r := wd.Reg(&msg.NewProxy{ProxyName: "wd-tcp", ProxyType: "tcp", RemotePort: 20003}); r != "ok:20003" {
				vs.Fail("%s %s.%s#%d: the server no longer registers proxies: %s", pos, key, field, alt, r)
			} else if who, e := w.UserEcho("10.6.6.7:7", 20003, "fresh"); e != "" || who != "wd/wd-tcp" {
				vs.Fail("%s %s.%s#%d: a new tunnel does not work: who=%q err=%s", pos, key, field, alt, who, e)
			}
		}
		w.Teardown()
	}
}

// scClientField: the model server sends a deviated message to the real frpc.
func scClientField(key, field string, alt int) func(x *vs.Exec) {
	return func(x *vs.Exec) {
		v1p, v2p := cw.TCPProxy("webv1", 8080, 9001), cw.TCPProxy("webv2", 8080, 9002)
		v1p.Transport.ProxyProtocolVersion, v2p.Transport.ProxyProtocolVersion = "v1", "v2"
		w := cw.New(x, cw.Opt{HeartbeatInterval: 1, HeartbeatTimeout: 3, Proxies: []v1.ProxyConfigurer{cw.TCPProxy("web", 8080, 9000), v1p, v2p}})
		w.StartBackend(8080)
		vs.Block("up", func() bool { return w.Srv.LiveCount() == 1 && len(w.Srv.Registered()) == 3 || x.Now() > 30*time.Second })
		se := w.Srv.LiveSession()
		if se == nil {
			vs.Fail("setup: client did not come up")
			return
		}
		bases := map[string]msg.Message{
			"NewProxyResp":  &msg.NewProxyResp{ProxyName: "web", RemoteAddr: ":9000"},
			"ReqWorkConn":   &msg.ReqWorkConn{},
			"Pong":          &msg.Pong{},
			"NatHoleResp":   &msg.NatHoleResp{TransactionID: "t", Sid: "s", CandidateAddrs: []string{"1.1.1.1:1"}},
			"StartWorkConn": &msg.StartWorkConn{ProxyName: "web", SrcAddr: "1.2.3.4", SrcPort: 1, DstAddr: "5.6.7.8", DstPort: 2},
			// the same for proxies that prepend a PROXY protocol header built from these fields
			"StartWorkConn@v1": &msg.StartWorkConn{ProxyName: "webv1", SrcAddr: "1.2.3.4", SrcPort: 1, DstAddr: "5.6.7.8", DstPort: 2},
			"StartWorkConn@v2": &msg.StartWorkConn{ProxyName: "webv2", SrcAddr: "1.2.3.4", SrcPort: 1, DstAddr: "5.6.7.8", DstPort: 2},
			"Login":         &msg.Login{User: "server-sends-login"},
			"NewProxy":      &msg.NewProxy{ProxyName: "web", ProxyType: "tcp"},
			"Ping":          &msg.Ping{},
			"UDPPacket":     &msg.UDPPacket{Content: "!!!notbase64", RemoteAddr: &net.UDPAddr{}},
			"NatHoleSid":    &msg.NatHoleSid{Sid: "s"},
			"CloseProxy":    &msg.CloseProxy{ProxyName: "web"},
		}
		m, ok := deviate(bases[key], field, alt)
		if !ok {
			vs.Observe("no such case")
			w.Svc.Close()
			return
		}
		vs.SetInterest(true)
		if strings.HasPrefix(key, "StartWorkConn") {
			// on the pooled work connection the client opened
			vs.Block("workconn", func() bool { return len(se.Work) > 0 || x.Now() > 40*time.Second })
			if len(se.Work) > 0 {
				msg.WriteMsg(se.Work[0], m)
			}
		} else {
			w.Srv.SendTo(se, m)
		}
		time.Sleep(15 * time.Second)
		vs.SetInterest(false)
		// the client must still be (or again be) connected with its proxy registered
		t0 := x.Now()
		vs.Block("healthy", func() bool {
			return (w.Srv.LiveCount() == 1 && fmt.Sprint(w.Srv.Registered()) == "[web webv1 webv2]") || x.Now() > t0+90*time.Second
		})
		if !(w.Srv.LiveCount() == 1 && fmt.Sprint(w.Srv.Registered()) == "[web webv1 webv2]") {
			vs.Fail("server sent %s.%s#%d: 90 s later the client has no session with its proxy registered (sessions=%d registered=%v)", key, field, alt, w.Srv.LiveCount(), w.Srv.Registered())
		}
		w.Svc.Close()
	}
}

// ---- (a2) malformed user-side input on the tcpmux (HTTP CONNECT) and https (SNI) ports ----

func connectCases() [][]byte {
	var out [][]byte
	b64 := func(x string) string { return base64.StdEncoding.EncodeToString([]byte(x)) }
	for _, pa := range []string{"", "Basic", "x", "Basic ", "Basic !!!", "Basic " + b64("nocolon"), "Basic " + b64(":"), "Basic " + b64("u:p"), "Bearer abc", "Basic\t" + b64("u:p"),
		strings.Repeat("A", 9000), "Basic " + strings.Repeat("QUFB", 3000), " ", "Basic  " + b64("u:p") + " trailing"} {
		for _, host := range []string{"by-mux.example.com", "nosuch.example.com"} {
			h := ""
			if pa != "" {
				h = "Proxy-Authorization: " + pa + "\r\n"
			}
			out = append(out, []byte(fmt.Sprintf("CONNECT %s:80 HTTP/1.1\r\nHost: %s:80\r\n%s\r\n", host, host, h)))
		}
	}
	for _, raw := range []string{"GET / HTTP/1.1\r\nHost: by-mux.example.com\r\n\r\n", "CONNECT\r\n\r\n", "CONNECT  HTTP/1.1\r\n\r\n", "CONNECT by-mux.example.com:80\r\n\r\n",
		"CONNECT by-mux.example.com:80 HTTP/9.9\r\n\r\n", "\r\n\r\n", "\x00\x01\x02\xff\xfe", strings.Repeat("X", 70000), "CONNECT " + strings.Repeat("a", 70000) + ":80 HTTP/1.1\r\n\r\n",
		"CONNECT by-mux.example.com:80 HTTP/1.1\r\nHost: by-mux.example.com:80\r\nProxy-Authorization\r\n\r\n", "CONNECT by-mux.example.com:80 HTTP/1.1\r\n: novalue\r\n\r\n",
		"CONNECT [::1:80 HTTP/1.1\r\n\r\n", "CONNECT by-mux.example.com:99999 HTTP/1.1\r\n\r\n", ""} {
		out = append(out, []byte(raw))
	}
	return out
}

const helloMutations = 3 * 80

// mutateHello: byte i of the ClientHello set to 0xff / 0x00, or the record truncated at i.
func mutateHello(hello []byte, idx int) []byte {
	i, kind := idx/3, idx%3
	if i >= len(hello) {
		i = len(hello) - 1
	}
	out := append([]byte{}, hello...)
	switch kind {
	case 0:
		out[i] = 0xff
	case 1:
		out[i] = 0x00
	default:
		out = out[:i]
	}
	return out
}

func clientHello(w *sw.World, sni string) []byte {
	a, b := w.H.Pair("10.99.0.1:1", "10.99.0.2:443")
	go func() { _ = tls.Client(a, &tls.Config{ServerName: sni, InsecureSkipVerify: true}).Handshake() }()
	hdr := make([]byte, 5)
	if _, _, err := b.ReadFullOrIdle(hdr); err != nil {
		return nil
	}
	body := make([]byte, int(hdr[3])<<8|int(hdr[4]))
	b.ReadFullOrIdle(body)
	b.Close()
	a.Close()
	return append(hdr, body...)
}

func scMuxIn(kind string, idx int) func(x *vs.Exec) {
	return func(x *vs.Exec) {
		defer sw.Guard()
		w := newWorld(x)
		by := w.MustLogin("by", sw.LoginOpt{User: "uby"})
		for _, m := range []*msg.NewProxy{{ProxyName: "by-tcp", ProxyType: "tcp", RemotePort: 20000},
			{ProxyName: "by-mux", ProxyType: "tcpmux", Multiplexer: "httpconnect", CustomDomains: []string{"by-mux.example.com"}, HTTPUser: "u", HTTPPwd: "p"},
			{ProxyName: "by-https", ProxyType: "https", CustomDomains: []string{"by-https.example.com"}}} {
			if r := by.Reg(m); !strings.HasPrefix(r, "ok") {
				vs.Fail("setup %s: %s", m.ProxyName, r)
				return
			}
		}
		w.Quiesce()
		var payload []byte
		port := 7500
		if kind == "connect" {
			cs := connectCases()
			if idx >= len(cs) {
				vs.Observe("no such case")
				w.Teardown()
				return
			}
			payload = cs[idx]
		} else {
			port = 7443
			payload = mutateHello(clientHello(w, "by-https.example.com"), idx)
		}
		vs.SetInterest(true)
		if u, err := w.H.DialFrom("10.5.5.5:5", fmt.Sprintf("127.0.0.1:%d", port)); err == nil {
			u.Write(payload)
			buf := make([]byte, 256)
			u.ReadOrIdle(buf)
			time.Sleep(12 * time.Second)
			u.Close()
		}
		w.Quiesce()
		vs.SetInterest(false)
		if by.Closed {
			vs.Fail("%s input #%d: the bystander's session was closed", kind, idx)
		}
		if who, e := w.UserEcho("10.6.6.6:6", 20000, "alive?"); e != "" || who != "by/by-tcp" {
			vs.Fail("%s input #%d: the bystander's tunnel no longer works: who=%q err=%s", kind, idx, who, e)
		}
		if u, e := w.ConnectMux("10.6.6.8:8", "by-mux.example.com", "Proxy-Authorization: Basic "+base64.StdEncoding.EncodeToString([]byte("u:p"))+"\r\n"); e != "" {
			vs.Fail("%s input #%d: a well-formed CONNECT with the right credentials no longer works: %s", kind, idx, e)
		} else {
			if e := sw.Echo(u, "mux"); e != "" {
				vs.Fail("%s input #%d: the CONNECT tunnel does not carry data: %s", kind, idx, e)
			}
			u.Close()
		}
		w.Teardown()
	}
}

// scStorm: concurrent mixed traffic from several clients.
func scStorm(variant int) func(x *vs.Exec) {
	return func(x *vs.Exec) {
		defer sw.Guard()
		w := newWorld(x)
		a, b, c := w.MustLogin("a", sw.LoginOpt{User: "ua", PoolCount: 1}), w.MustLogin("b", sw.LoginOpt{User: "ub"}), w.MustLogin("c", sw.LoginOpt{User: "uc"})
		w.Quiesce()
		var wg sync.WaitGroup
		run := func(f func()) { wg.Add(1); go func() { defer wg.Done(); f() }() }
		vs.SetInterest(true)
		switch variant {
		case 0: // registrations and closures of every kind on three sessions
			run(func() {
				vs.Observe("a-tcp %s", a.Reg(&msg.NewProxy{ProxyName: "a-tcp", ProxyType: "tcp", RemotePort: 20001, Group: "G", GroupKey: "k"}))
				vs.Observe("a-http %s", a.Reg(&msg.NewProxy{ProxyName: "a-http", ProxyType: "http", CustomDomains: []string{"x.example.com"}, Group: "HG", GroupKey: "k"}))
				a.CloseProxy("a-tcp")
			})
			run(func() {
				vs.Observe("b-tcp %s", b.Reg(&msg.NewProxy{ProxyName: "b-tcp", ProxyType: "tcp", RemotePort: 20001, Group: "G", GroupKey: "k"}))
				vs.Observe("b-http %s", b.Reg(&msg.NewProxy{ProxyName: "b-http", ProxyType: "http", CustomDomains: []string{"x.example.com"}, Group: "HG", GroupKey: "k"}))
				b.CloseProxy("b-http")
			})
			run(func() {
				vs.Observe("c-mux %s", c.Reg(&msg.NewProxy{ProxyName: "c-mux", ProxyType: "tcpmux", Multiplexer: "httpconnect", CustomDomains: []string{"m.example.com"}, Group: "MG", GroupKey: "k"}))
				c.Cut()
			})
		case 1: // secret proxies, visitors and NAT-hole messages against closing proxies
			run(func() {
				vs.Observe("s %s", a.Reg(&msg.NewProxy{ProxyName: "s", ProxyType: "stcp", Sk: "sk", AllowUsers: []string{"*"}}))
				vs.Observe("x %s", a.Reg(&msg.NewProxy{ProxyName: "x", ProxyType: "xtcp", Sk: "sk", AllowUsers: []string{"*"}}))
				a.CloseProxy("x")
				a.CloseProxy("s")
			})
			run(func() {
				ts := w.Now()
				b.Send(&msg.NatHoleVisitor{TransactionID: "t1", ProxyName: "x", PreCheck: true})
				b.Send(&msg.NatHoleVisitor{TransactionID: "t2", ProxyName: "x", Protocol: "quic", Timestamp: ts, SignKey: util.GetAuthKey("sk", ts), MappedAddrs: []string{"1.1.1.1:1", "1.1.1.1:1"}})
				b.Send(&msg.NatHoleReport{Sid: "zzz", Success: true})
			})
			run(func() {
				cc, e := w.Visitor("10.7.7.7:7", &msg.NewVisitorConn{ProxyName: "s", RunID: c.RunID}, "sk")
				vs.Observe("visitor %q", e)
				if cc != nil {
					if e == "" {
						sw.Echo(cc, "hi")
					}
					cc.Close()
				}
			})
		case 2: // re-login storms and work connections for dying sessions
			run(func() { vs.Observe("p@a %s", a.Reg(&msg.NewProxy{ProxyName: "p", ProxyType: "tcp", RemotePort: 20001})) })
			run(func() {
				if a2, _, err := w.Login("a2", sw.LoginOpt{User: "ua", RunID: a.RunID, PoolCount: 1}); err == nil {
					a2.AutoWork()
					vs.Observe("p@a2 %s", a2.Reg(&msg.NewProxy{ProxyName: "p", ProxyType: "tcp", RemotePort: 20001}))
				}
			})
			run(func() {
				if wc, err := a.WorkConn(a.RunID, nil); err == nil {
					defer wc.Close()
				}
				if u, err := w.H.DialFrom("10.8.8.8:8", "127.0.0.1:20001"); err == nil {
					u.Write([]byte("x"))
					buf := make([]byte, 1)
					u.ReadOrIdle(buf)
					u.Close()
				}
			})
		case 3: // a user connection waits for a work connection that never comes while the session is cut
			a.OnReq = func(*sw.Peer) {}
			if r := a.Reg(&msg.NewProxy{ProxyName: "p", ProxyType: "tcp", RemotePort: 20001}); r != "ok:20001" {
				vs.Fail("setup: %s", r)
			}
			w.Quiesce()
			run(func() {
				if u, err := w.H.DialFrom("10.8.8.9:9", "127.0.0.1:20001"); err == nil {
					u.Write([]byte("x"))
					buf := make([]byte, 1)
					u.ReadOrIdle(buf)
					u.Close()
				}
			})
			run(func() {
				if u, err := w.H.DialFrom("10.8.8.10:10", "127.0.0.1:20001"); err == nil {
					u.Close()
				}
			})
			run(func() { a.Cut() })
		case 5: // traffic of two users through two proxies while a third proxy comes and goes, with the statistics collector on
			a.AutoWork()
			b.AutoWork()
			if r := a.Reg(&msg.NewProxy{ProxyName: "pa", ProxyType: "tcp", RemotePort: 20001}); r != "ok:20001" {
				vs.Fail("setup: %s", r)
			}
			if r := b.Reg(&msg.NewProxy{ProxyName: "pb", ProxyType: "tcp", RemotePort: 20002}); r != "ok:20002" {
				vs.Fail("setup: %s", r)
			}
			w.Quiesce()
			for i, port := range []int{20001, 20002} {
				i, port := i, port
				run(func() {
					if who, e := w.UserEcho(fmt.Sprintf("10.8.9.%d:%d", i+1, 40+i), port, "traffic"); e != "" {
						vs.Observe("user %d: %s %s", i, who, e)
					}
				})
			}
			run(func() {
				vs.Observe("pc %s", c.Reg(&msg.NewProxy{ProxyName: "pc", ProxyType: "tcp", RemotePort: 20003}))
				c.CloseProxy("pc")
			})
		case 6: // users routed by the vhost muxer (HTTP CONNECT) are handed to their proxy's listener while that proxy closes / its session is cut
			a.AutoWork()
			b.AutoWork()
			if r := a.Reg(&msg.NewProxy{ProxyName: "ma", ProxyType: "tcpmux", Multiplexer: "httpconnect", CustomDomains: []string{"ma.example.com"}}); !strings.HasPrefix(r, "ok") {
				vs.Fail("setup: %s", r)
			}
			if r := b.Reg(&msg.NewProxy{ProxyName: "mb", ProxyType: "tcpmux", Multiplexer: "httpconnect", CustomDomains: []string{"mb.example.com"}}); !strings.HasPrefix(r, "ok") {
				vs.Fail("setup: %s", r)
			}
			w.Quiesce()
			for i, h := range []string{"ma.example.com", "mb.example.com", "ma.example.com"} {
				i, h := i, h
				run(func() {
					u, e := w.ConnectMux(fmt.Sprintf("10.6.7.%d:70", i+1), h, "")
					vs.Observe("mux user %d: %v", i, e == "")
					if u != nil {
						u.Close()
					}
				})
			}
			run(func() { a.CloseProxy("ma") })
			run(func() { b.Cut() })
		case 4: // NAT-hole sessions of two visitors start, are answered / looked up and end concurrently
			if r := a.Reg(&msg.NewProxy{ProxyName: "x", ProxyType: "xtcp", Sk: "sk", AllowUsers: []string{"*"}}); !strings.HasPrefix(r, "ok") {
				vs.Fail("setup: %s", r)
			}
			a.OnSid = func(p *sw.Peer, sid string) {
				p.Send(&msg.NatHoleClient{TransactionID: "c-" + sid, ProxyName: "x", Sid: sid, MappedAddrs: []string{"2.2.2.2:2", "2.2.2.2:3"}})
			}
			w.Quiesce()
			for i, v := range []*sw.Peer{b, c} {
				i, v := i, v
				run(func() {
					ts := w.Now()
					v.Send(&msg.NatHoleVisitor{TransactionID: fmt.Sprintf("t%d", i), ProxyName: "x", Protocol: "quic", Timestamp: ts, SignKey: util.GetAuthKey("sk", ts), MappedAddrs: []string{"1.1.1.1:1", "1.1.1.1:2"}})
					v.Send(&msg.NatHoleReport{Sid: "nosuchsid", Success: true})
					v.Send(&msg.NatHoleClient{TransactionID: "zz", ProxyName: "x", Sid: "nosuchsid", MappedAddrs: []string{"3.3.3.3:3", "3.3.3.3:3"}})
				})
			}
		}
		wg.Wait()
		w.Quiesce()
		vs.SetInterest(false)
		time.Sleep(150 * time.Second)
		w.Quiesce()
		// the server still serves
		wd, _, err := w.Login("wd", sw.LoginOpt{User: "wd"})
		if err != nil {
			vs.Fail("after the storm the server no longer accepts logins: %v", err)
		} else {
			wd.AutoWork()
			if r := wd.Reg(&msg.NewProxy{ProxyName: "wd-tcp", ProxyType: "tcp", RemotePort: 20003}); r != "ok:20003" {
				vs.Fail("after the storm the server no longer registers proxies: %s", r)
			} else if who, e := w.UserEcho("10.6.6.7:7", 20003, "fresh"); e != "" || who != "wd/wd-tcp" {
				vs.Fail("after the storm a new tunnel does not work: who=%q err=%s", who, e)
			}
		}
		w.Teardown()
		if d := w.Dump(); d != w.Base {
			vs.Fail("after the storm and teardown server state is not the initial one:\n%s", d)
		}
	}
}

func scenarios() {
	// the in-memory statistics collector (what a server with a dashboard runs) is on for every scenario of this check:
	// its tables are shared by all sessions and all user connections
	metrics.EnableMem()
	vs.ScenarioFactory = func(name string) *vs.Scenario {
		s := &vs.Scenario{Name: name, Horizon: 1500 * time.Second, MaxSteps: 400000, NoEarlyTick: true, End: sw.StdEnd, Watchdog: time.Minute}
		f := strings.Split(name, "|")
		switch f[0] {
		case "field":
			var alt int
			fmt.Sscanf(f[4], "%d", &alt)
			s.Body = scField(f[1], f[2], f[3], alt)
		case "cfield":
			var alt int
			fmt.Sscanf(f[3], "%d", &alt)
			s.Body = scClientField(f[1], f[2], alt)
			s.End = func(x *vs.Exec) string { return strings.Join(x.Obs, "\n") }
		case "muxin":
			var i int
			fmt.Sscanf(f[2], "%d", &i)
			s.Body = scMuxIn(f[1], i)
		case "storm":
			var v int
			fmt.Sscanf(f[1], "%d", &v)
			s.Body = scStorm(v)
		case "closeearly":
			s.Body = scCloseEarly(f[1])
			s.End = func(x *vs.Exec) string { return strings.Join(x.Obs, "\n") }
		case "handoff":
			s.Body = scHandoff(f[1])
		case "vbusy":
			s.Body = scVisitorBusy(f[1])
			s.End = func(x *vs.Exec) string { return strings.Join(x.Obs, "\n") }
		case "ilisten":
			s.Body = scIListen
			s.End = func(x *vs.Exec) string { return strings.Join(x.Obs, "\n") }
		case "lane":
			s.Body = scLane(f[1])
			s.End = func(x *vs.Exec) string { return strings.Join(x.Obs, "\n") }
		default:
			return nil
		}
		return s
	}
}

// lane: the request/response helper both programs use on the control connection (frpc's NAT-hole exchanges wait in
// Do while the connection's read loop hands every NatHoleResp to Dispatch). The peer decides how many answers it
// sends and when: duplicates, an answer that arrives together with the waiter's timeout, an answer after it.
type laneSender struct{ ch chan msg.Message }

func (s laneSender) Send(m msg.Message) error { s.ch <- m; return nil }

func scLane(variant string) func(x *vs.Exec) {
	return func(x *vs.Exec) {
		out := make(chan msg.Message, 4)
		tr := transport.NewMessageTransporter(laneSender{out})
		answers, delay := 1, time.Duration(0)
		switch variant {
		case "dup":
			answers = 3
		case "late":
			answers, delay = 2, 2*time.Second
		case "after":
			answers, delay = 2, 3*time.Second
		}
		readLoopDone := false
		vs.SetInterest(true)
		go func() {
			req := <-out
			v := req.(*msg.NatHoleVisitor)
			if delay > 0 {
				time.Sleep(delay)
			}
			for i := 0; i < answers; i++ {
				tr.DispatchWithType(&msg.NatHoleResp{TransactionID: v.TransactionID, Sid: "sid"}, "NatHoleResp", v.TransactionID)
			}
			readLoopDone = true
		}()
		ctx, cancel := vctx.WithTimeout(vctx.Background(), 2*time.Second)
		m, err := tr.Do(ctx, &msg.NatHoleVisitor{TransactionID: "t1", ProxyName: "p"}, "t1", "NatHoleResp")
		cancel()
		vs.Observe("lane/%s: answer=%v err=%v", variant, m != nil, err)
		if m == nil && err == nil {
			vs.Fail("lane/%s: the waiter returned neither an answer nor an error", variant)
		}
		if !vs.BlockOrIdle("read-loop", func() bool { return readLoopDone }) {
			vs.Fail("lane/%s: the connection's read loop is stuck handing over an answer nobody waits for: the session no longer handles messages", variant)
		}
		vs.SetInterest(false)
	}
}

// closeearly: the client is told to stop (what a signal handler, the ssh gateway's tunnel server or any embedding
// program does) while it is still logging in or has just logged in. Stopping must stop it, not crash it.
func scCloseEarly(when string) func(x *vs.Exec) {
	return func(x *vs.Exec) {
		w := cw.New(x, cw.Opt{HeartbeatInterval: -1, NoPoolRequests: true, Proxies: []v1.ProxyConfigurer{cw.TCPProxy("a", 8000, 9000)}})
		// Service.Close uses what Run installs first: wait for that (an API precondition, not part of the race)
		if !vs.BlockFor("run-started", 10*time.Second, func() bool { return !peek.F(w.Svc, "cancel").IsNil() }) {
			vs.Observe("closeearly: Run did not start")
			return
		}
		vs.SetInterest(true)
		if when == "loggedin" {
			vs.BlockFor("login-seen", 10*time.Second, func() bool { return w.Srv.LiveCount() > 0 })
		}
		w.Svc.Close()
		time.Sleep(5 * time.Second)
		vs.SetInterest(false)
		vs.Observe("closeearly/%s done, sessions=%d", when, w.Srv.LiveCount())
	}
}

// vbusy: a visitor of each kind whose bind port is held by another program when the client starts it, retries it and is
// told to drop it. A visitor that cannot start must cost the client nothing but that visitor.
func scVisitorBusy(kind string) func(x *vs.Exec) {
	return func(x *vs.Exec) {
		w := cw.New(x, cw.Opt{HeartbeatInterval: -1, NoPoolRequests: true, Proxies: []v1.ProxyConfigurer{cw.TCPProxy("a", 8000, 9000)}})
		if !vs.BlockFor("login-seen", 30*time.Second, func() bool { return w.Srv.LiveCount() > 0 }) {
			vs.Observe("vbusy: no login")
			return
		}
		network := "tcp"
		var vc v1.VisitorConfigurer
		base := v1.VisitorBaseConfig{Name: "v", Type: kind, ServerName: "secret", SecretKey: "k", BindAddr: "127.0.0.1", BindPort: 6000}
		switch kind {
		case "stcp":
			vc = &v1.STCPVisitorConfig{VisitorBaseConfig: base}
		case "sudp":
			vc = &v1.SUDPVisitorConfig{VisitorBaseConfig: base}
			network = "udp"
		case "xtcp":
			vc = &v1.XTCPVisitorConfig{VisitorBaseConfig: base, Protocol: "quic"}
		}
		vc.Complete(w.Cfg)
		bound := func() bool {
			l := w.H.BoundTCP()
			if network == "udp" {
				l = w.H.BoundUDP()
			}
			for _, p := range l {
				if p == 6000 {
					return true
				}
			}
			return false
		}
		w.H.Squat(network, 6000, true)
		vs.SetInterest(true)
		_ = w.Svc.UpdateAllConfigurer([]v1.ProxyConfigurer{cw.TCPProxy("a", 8000, 9000)}, []v1.VisitorConfigurer{vc})
		time.Sleep(25 * time.Second) // the client retries visitors that are not running every 10 s
		vs.SetInterest(false)
		w.H.Squat(network, 6000, false)
		vs.BlockFor("visitor-up", 40*time.Second, bound)
		if !bound() {
			vs.Fail("vbusy/%s: the visitor's bind port was busy for 25 s; 40 s after it became free the visitor is still not listening", kind)
		}
		_ = w.Svc.UpdateAllConfigurer([]v1.ProxyConfigurer{cw.TCPProxy("a", 8000, 9000)}, nil)
		time.Sleep(5 * time.Second)
		if bound() {
			vs.Fail("vbusy/%s: the visitor removed by a reload still listens", kind)
		}
		if w.Srv.LiveCount() != 1 {
			vs.Fail("vbusy/%s: the client's session did not survive its visitor's trouble (live sessions %d)", kind, w.Srv.LiveCount())
		}
		w.Svc.Close()
		time.Sleep(5 * time.Second)
		vs.Observe("vbusy/%s done", kind)
	}
}

// handoff: one user routed by the CONNECT muxer, one thread that closes the proxy (or cuts its session) — the small version
// of storm 6, in which every interleaving of the hand-off with the close is within two deviations.
func scHandoff(how string) func(x *vs.Exec) {
	return func(x *vs.Exec) {
		defer sw.Guard()
		w := newWorld(x)
		a := w.MustLogin("a", sw.LoginOpt{User: "ua"})
		a.AutoWork()
		if r := a.Reg(&msg.NewProxy{ProxyName: "ma", ProxyType: "tcpmux", Multiplexer: "httpconnect", CustomDomains: []string{"ma.example.com"}}); !strings.HasPrefix(r, "ok") {
			vs.Fail("setup: %s", r)
			return
		}
		w.Quiesce()
		var wg sync.WaitGroup
		wg.Add(2)
		vs.SetInterest(true)
		go func() {
			defer wg.Done()
			u, e := w.ConnectMux("10.6.8.1:71", "ma.example.com", "")
			vs.Observe("user served: %v", e == "")
			if u != nil {
				u.Close()
			}
		}()
		go func() {
			defer wg.Done()
			if how == "cut" {
				a.Cut()
			} else {
				a.CloseProxy("ma")
			}
		}()
		wg.Wait()
		w.Quiesce()
		vs.SetInterest(false)
		time.Sleep(30 * time.Second)
		w.Teardown()
		if d := w.Dump(); d != w.Base {
			vs.Fail("after the hand-off race and teardown server state is not the initial one:\n%s", d)
		}
	}
}

// ilisten: the in-process listener that hands visitor connections, ssh tunnels and virtual clients to their owner
// (InternalListener): connections are put while the owner accepts and closes, in every order.
type dummyConn struct {
	net.Conn
	closed bool
}

func (d *dummyConn) Close() error { d.closed = true; return nil }

func scIListen(x *vs.Exec) {
	l := netpkg.NewInternalListener()
	var conns [2]*dummyConn
	var putErr [2]error
	accepted := 0
	var wg sync.WaitGroup
	vs.SetInterest(true)
	wg.Add(1)
	go func() {
		defer wg.Done()
		for {
			c, err := l.Accept()
			if err != nil {
				return
			}
			accepted++
			c.Close()
		}
	}()
	for i := range conns {
		i := i
		conns[i] = &dummyConn{}
		wg.Add(1)
		go func() { defer wg.Done(); putErr[i] = l.PutConn(conns[i]) }()
	}
	wg.Add(1)
	go func() { defer wg.Done(); l.Close() }()
	wg.Wait()
	vs.SetInterest(false)
	for i, c := range conns {
		if putErr[i] == nil && !c.closed {
			vs.Fail("ilisten: connection %d was taken by the listener (no error) but neither accepted nor closed", i)
		}
	}
	vs.Observe("ilisten accepted=%d errs=%v/%v", accepted, putErr[0] != nil, putErr[1] != nil)
}

func fieldsOf(m msg.Message) []string {
	t := reflect.TypeOf(m).Elem()
	var out []string
	for i := 0; i < t.NumField(); i++ {
		out = append(out, t.Field(i).Name)
	}
	return out
}

func nalts(m msg.Message, field string) int {
	f, _ := reflect.TypeOf(m).Elem().FieldByName(field)
	return len(alphabet(f.Type))
}

func main() {
	c := drv.Setup("C16", "e1", "model_checking", scenarios)
	if c == nil {
		return
	}
	c.Rule("E1: (a) all single-field deviations over extreme-value alphabets (negative / huge integers, empty / 9000-char / control-character strings, nil / empty / 300-entry maps, nil / empty / 1000-entry lists, malformed addresses) of all 18 message types (NewProxy for all 8 proxy types) sent to the real frps as first message of a connection and on an established session, and of the server-to-client types sent by a model server to the real frpc; (a2) malformed user-side input on the tcpmux CONNECT port (14 Proxy-Authorization shapes x 2 hosts, 14 malformed request heads) and on the https port (a real ClientHello with each of its first 80 bytes set to 0xff / 0x00 or truncated there); after each case a bystander session, its tunnel, a fresh login and a fresh tunnel must work, no managed thread may have panicked (= process crash) and none may be stuck after teardown; (b) seven concurrent mixed-traffic storms, the statistics collector of the dashboard switched on (registration / closure / groups / session cut; secret proxies, visitors and NAT-hole messages against closing proxies; re-login with work connections for dying sessions; user connections waiting for a work connection while the session is cut; NAT-hole sessions of two visitors starting, being answered and ending together; two users' traffic through two proxies while a third proxy comes and goes; users routed by the CONNECT muxer handed to their proxy's listener while that proxy closes / its session is cut; the two-thread version of that hand-off with 2 deviations (session cut: 1 in the quick tier)) and the control connection's request/response lanes with duplicated, late and too-late answers, and the in-process listener (two puts, an accepting owner, a close) (3 deviations each), a client that is stopped while it logs in or right after (2 deviations), a visitor of each kind whose bind port is busy (1 deviation), under all schedules with at most B deviations (two default orders) with the happens-before detector on every struct-field map of the instrumented packages; non-trivial = distinct (position, type, field, value)")
	pool := vs.GetPool(c.Workers)
	var names []string
	wdummy := map[string]msg.Message{}
	{
		// type/field inventory (values are irrelevant here)
		for k, v := range baselines(&sw.World{X: nil}, "r") {
			wdummy[k] = v
		}
	}
	for key, base := range wdummy {
		for _, f := range fieldsOf(base) {
			for a := 0; a < nalts(base, f); a++ {
				names = append(names, fmt.Sprintf("field|first|%s|%s|%d", key, f, a))
				names = append(names, fmt.Sprintf("field|session|%s|%s|%d", key, f, a))
			}
		}
		names = append(names, fmt.Sprintf("field|first|%s||0", key), fmt.Sprintf("field|session|%s||0", key))
		if !c.Quick() && (strings.HasPrefix(key, "NewProxy/") || key == "Login" || key == "NatHoleVisitor" || key == "NatHoleClient") {
			// pairs of deviations inside one message (first three values of each alphabet)
			fs := fieldsOf(base)
			for i := range fs {
				for j := i + 1; j < len(fs); j++ {
					for a := 0; a < 3 && a < nalts(base, fs[i]); a++ {
						for b := 0; b < 3 && b < nalts(base, fs[j]); b++ {
							names = append(names, fmt.Sprintf("field|session|%s|%s+%s|%d", key, fs[i], fs[j], a*100+b))
						}
					}
				}
			}
		}
	}
	ckeys := map[string]msg.Message{"NewProxyResp": &msg.NewProxyResp{}, "ReqWorkConn": &msg.ReqWorkConn{}, "Pong": &msg.Pong{}, "NatHoleResp": &msg.NatHoleResp{}, "StartWorkConn": &msg.StartWorkConn{}, "StartWorkConn@v1": &msg.StartWorkConn{}, "StartWorkConn@v2": &msg.StartWorkConn{},
		"Login": &msg.Login{}, "NewProxy": &msg.NewProxy{}, "Ping": &msg.Ping{}, "UDPPacket": &msg.UDPPacket{}, "NatHoleSid": &msg.NatHoleSid{}, "CloseProxy": &msg.CloseProxy{}}
	for key, base := range ckeys {
		fs := fieldsOf(base)
		if c.Quick() && (key == "Login" || key == "NewProxy") {
			fs = fs[:3]
		}
		for _, f := range fs {
			for a := 0; a < nalts(base, f); a++ {
				names = append(names, fmt.Sprintf("cfield|%s|%s|%d", key, f, a))
			}
		}
		names = append(names, fmt.Sprintf("cfield|%s||0", key))
	}
	for i := range connectCases() {
		names = append(names, fmt.Sprintf("muxin|connect|%d", i))
	}
	for i := 0; i < helloMutations; i++ {
		names = append(names, fmt.Sprintf("muxin|hello|%d", i))
	}
	for i := 0; i < len(names); i += 512 {
		if c.TimeUp() {
			c.Cap(fmt.Sprintf("field enumeration stopped by the budget after %d of %d cases", i, len(names)))
			break
		}
		j := i + 512
		if j > len(names) {
			j = len(names)
		}
		rs, err := pool.RunBatch(names[i:j], false)
		if err != nil {
			c.Cap("harness error: " + err.Error())
			break
		}
		for k := range rs {
			c.FoldExec(&rs[k])
		}
	}
	c.Sample(map[string]any{"cases": []string{names[0], names[len(names)/2], names[len(names)-1]}})
	c.Note("field_cases", len(names))
	b := drv.Pick(c, 1, 2)
	c.ExploreBoth("handoff|close", 2, 0.2)
	c.ExploreBoth("handoff|cut", drv.Pick(c, 1, 2), 0.2) // the session cut unwinds through many more scheduling points
	for v := 0; v < 7; v++ {
		c.ExploreBoth(fmt.Sprintf("storm|%d", v), b, 1.0/float64(7-v+1))
	}
	for _, v := range []string{"one", "dup", "late", "after"} {
		c.ExploreBoth("lane|"+v, 3, 0.25)
	}
	c.ExploreBoth("ilisten", 3, 0.5)
	for _, k := range []string{"stcp", "sudp", "xtcp"} {
		c.ExploreBoth("vbusy|"+k, 1, 0.3)
	}
	for _, v := range []string{"atonce", "loggedin"} {
		c.ExploreBoth("closeearly|"+v, 2, 0.5)
	}
	c.Finish()
}
