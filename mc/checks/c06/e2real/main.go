// C06 part e2real — route ownership end to end. Part e2 explores the route tables (vhost.Routers, the reverse proxy, the
// muxers) directly; the code that decides *when* a route is registered and removed — the http proxy of frps with its
// roll-back of a registration refused part-way, the client's reload — sits above those tables and was driven by no part
// of this check. Here a real frps with a vhost HTTP port and two real frpc (A, B) run on loopback; an operation replaces
// one client's proxy set (client.Service.UpdateAllConfigurer, i.e. a reload); every sequence of operations up to the
// depth bound is executed and after every step each probe request must be answered by the backend the reference model
// names: routes owned all-or-nothing per proxy, a duplicate (host, location) refused without touching the owner, a
// closed proxy's routes gone from the next request on, most specific match (exact host before wildcard, longest
// location prefix).
package main

import (
	"bufio"
	"encoding/json"
	"fmt"
	"net"
	"net/http"
	"reflect"
	"sort"
	"strings"
	"sync"
	"time"

	v1 "github.com/fatedier/frp/pkg/config/v1"

	"verif/mc/drv"
	"verif/mc/peek"
	_ "verif/mc/quiet"
	rw "verif/mc/worlds/realworld"
)

// one proxy shape per letter; every client holds at most one proxy at a time
type shape struct {
	Domains []string
	Loc     string
}

var shapes = map[string]shape{
	"r": {[]string{"x.ex.test"}, ""},                    // (x.ex.test, /)
	"a": {[]string{"x.ex.test"}, "/api"},                // (x.ex.test, /api)
	"m": {[]string{"own.ex.test", "x.ex.test"}, ""},     // two domains: (own.ex.test, /) then (x.ex.test, /)
	"n": {[]string{"x.ex.test", "own.ex.test"}, "/api"}, // two domains, other order, under /api
	"w": {[]string{"*.ex.test"}, ""},                    // wildcard (frp matches wildcards with at least two fixed labels)
}

type op struct {
	Who   string `json:"client"`
	Shape string `json:"proxy"` // "" = no proxy
}

type route struct{ host, loc string }

// reference model: route -> owning client
type model struct {
	owner map[route]string
	holds map[string]string // client -> shape it holds at the server ("" none)
	cfg   map[string]string // client -> shape it is configured with
}

func newModel() *model {
	return &model{owner: map[route]string{}, holds: map[string]string{"A": "", "B": ""}, cfg: map[string]string{"A": "", "B": ""}}
}

func locOf(s shape) string {
	if s.Loc == "" {
		return "/"
	}
	return s.Loc
}

func (m *model) apply(o op) {
	// an unchanged configuration entry is left alone by the reload, whether it is registered or was refused (a refused
	// proxy is retried by the client only after 30 s)
	if m.cfg[o.Who] == o.Shape {
		return
	}
	m.cfg[o.Who] = o.Shape
	for r, w := range m.owner {
		if w == o.Who {
			delete(m.owner, r)
		}
	}
	m.holds[o.Who] = ""
	if o.Shape == "" {
		return
	}
	s := shapes[o.Shape]
	for _, d := range s.Domains {
		if _, taken := m.owner[route{d, locOf(s)}]; taken {
			return // refused as a whole; nobody else is touched
		}
	}
	for _, d := range s.Domains {
		m.owner[route{d, locOf(s)}] = o.Who
	}
	m.holds[o.Who] = o.Shape
}

// expect: the client whose backend must answer host/path ("" = not found)
func (m *model) expect(host, path string) string {
	pick := func(h string) string {
		best, who := -1, ""
		for r, w := range m.owner {
			if r.host == h && strings.HasPrefix(path, r.loc) && len(r.loc) > best {
				best, who = len(r.loc), w
			}
		}
		return who
	}
	if w := pick(host); w != "" {
		return w
	}
	if i := strings.Index(host, "."); i >= 0 {
		return pick("*" + host[i:])
	}
	return ""
}

type world struct {
	srv   *rw.Server
	cl    map[string]*rw.Client
	back  map[string]*http.Server
	bport map[string]int
	vport int
}

func newWorldReal() (*world, error) {
	w := &world{cl: map[string]*rw.Client{}, back: map[string]*http.Server{}, bport: map[string]int{}}
	w.vport = rw.FreePort()
	srv, err := rw.StartServer(func(s *v1.ServerConfig) { s.VhostHTTPPort = w.vport })
	if err != nil {
		return nil, err
	}
	w.srv = srv
	for _, who := range []string{"A", "B"} {
		who := who
		ln, err := net.Listen("tcp", "127.0.0.1:0")
		if err != nil {
			return nil, err
		}
		hs := &http.Server{Handler: http.HandlerFunc(func(rw http.ResponseWriter, r *http.Request) {
			rw.Header().Set("Connection", "close")
			fmt.Fprintf(rw, "backend-%s", who)
		})}
		go hs.Serve(ln)
		w.back[who], w.bport[who] = hs, ln.Addr().(*net.TCPAddr).Port
		cl, err := rw.StartClient(srv, who, nil, nil, nil)
		if err != nil {
			return nil, err
		}
		w.cl[who] = cl
	}
	for i := 0; i < 300 && peek.F(srv.Svc, "ctlManager.ctlsByRunID").Len() < 2; i++ {
		time.Sleep(10 * time.Millisecond)
	}
	if peek.F(srv.Svc, "ctlManager.ctlsByRunID").Len() < 2 {
		return nil, fmt.Errorf("clients did not log in")
	}
	return w, nil
}

func (w *world) close() {
	for _, c := range w.cl {
		c.Close()
	}
	for _, b := range w.back {
		b.Close()
	}
	w.srv.Close()
}

func (w *world) registered(name string) bool {
	out := peek.F(w.srv.Svc, "pxyManager").MethodByName("GetByName").Call([]reflect.Value{reflect.ValueOf(name)})
	return out[1].Bool()
}

func (w *world) apply(o op, m *model) string {
	var cfgs []v1.ProxyConfigurer
	if o.Shape != "" {
		s := shapes[o.Shape]
		p := &v1.HTTPProxyConfig{}
		p.Name, p.Type = o.Who+"."+o.Shape, "http"
		p.LocalIP, p.LocalPort = "127.0.0.1", w.bport[o.Who]
		p.CustomDomains = append([]string{}, s.Domains...)
		if s.Loc != "" {
			p.Locations = []string{s.Loc}
		}
		cfgs = append(cfgs, p)
	}
	if err := w.cl[o.Who].Svc.UpdateAllConfigurer(cfgs, nil); err != nil {
		return "reload: " + err.Error()
	}
	m.apply(o)
	// wait until the server's proxy table shows what the model predicts for this client (or 3 s)
	want := map[string]bool{}
	for sh := range shapes {
		want[o.Who+"."+sh] = m.holds[o.Who] == sh
	}
	settled := func() bool {
		for n, on := range want {
			if w.registered(n) != on {
				return false
			}
		}
		return true
	}
	deadline := time.Now().Add(5 * time.Second)
	for !settled() && time.Now().Before(deadline) {
		time.Sleep(5 * time.Millisecond)
	}
	if o.Shape != "" && m.holds[o.Who] == "" {
		// a refusal is expected: give the client the time to receive it (its status turns to "start error")
		for time.Now().Before(deadline) {
			if st, ok := w.cl[o.Who].Svc.StatusExporter().GetProxyStatus(o.Who + "." + o.Shape); ok && st.Err != "" {
				break
			}
			time.Sleep(5 * time.Millisecond)
		}
	}
	if sh := m.holds[o.Who]; sh != "" {
		// the server has answered; the client serves work connections for the proxy only once it has read that answer
		// (until then a request is answered with an error page, which is not a routing decision)
		for time.Now().Before(deadline) {
			if st, ok := w.cl[o.Who].Svc.StatusExporter().GetProxyStatus(o.Who + "." + sh); ok && st.Phase == "running" {
				break
			}
			time.Sleep(5 * time.Millisecond)
		}
	}
	if !settled() {
		var diff []string
		for n, on := range want {
			if w.registered(n) != on {
				diff = append(diff, fmt.Sprintf("%s registered=%v expected=%v", n, !on, on))
			}
		}
		sort.Strings(diff)
		return "registration outcome: " + strings.Join(diff, ", ")
	}
	return ""
}

var probes = []struct{ host, path string }{
	{"x.ex.test", "/"}, {"x.ex.test", "/api/z"}, {"own.ex.test", "/"}, {"own.ex.test", "/api/z"}, {"other.ex.test", "/q"}, {"X.Ex.Test:80", "/apix"}, {"nomatch.example", "/"},
}

func (w *world) probe(host, path string) (string, error) {
	c, err := net.DialTimeout("tcp", fmt.Sprintf("127.0.0.1:%d", w.vport), 2*time.Second)
	if err != nil {
		return "", err
	}
	defer c.Close()
	_ = c.SetDeadline(time.Now().Add(5 * time.Second))
	fmt.Fprintf(c, "GET %s HTTP/1.1\r\nHost: %s\r\nConnection: close\r\n\r\n", path, host)
	resp, err := http.ReadResponse(bufio.NewReader(c), nil)
	if err != nil {
		return "", err
	}
	defer resp.Body.Close()
	buf := make([]byte, 64)
	n, _ := resp.Body.Read(buf)
	body := string(buf[:n])
	if resp.StatusCode == 200 && strings.HasPrefix(body, "backend-") {
		return strings.TrimPrefix(body, "backend-"), nil
	}
	if resp.StatusCode == 404 {
		return "", nil
	}
	return fmt.Sprintf("status %d", resp.StatusCode), nil
}

func runHistory(h []op) (viol string, inconclusive string) {
	w, err := newWorldReal()
	if err != nil {
		return "", err.Error()
	}
	defer w.close()
	m := newModel()
	for i, o := range h {
		step := fmt.Sprintf("after step %d of %s", i+1, histString(h))
		if e := w.apply(o, m); e != "" {
			if strings.HasPrefix(e, "reload:") {
				return "", e
			}
			return step + ": " + e, ""
		}
		for _, p := range probes {
			host := strings.ToLower(strings.TrimSuffix(p.host, ":80"))
			want := m.expect(host, p.path)
			got, err := w.probe(p.host, p.path)
			if err != nil {
				return "", fmt.Sprintf("%s: probe %s%s: %v", step, p.host, p.path, err)
			}
			if got != want {
				name := func(s string) string {
					if s == "" {
						return "nobody (404)"
					}
					return "the backend of client " + s
				}
				return fmt.Sprintf("%s: request %s%s was answered by %s, expected %s (routes owned: %s)", step, p.host, p.path, name(got), name(want), m.table()), ""
			}
		}
	}
	return "", ""
}

func (m *model) table() string {
	var l []string
	for r, w := range m.owner {
		l = append(l, fmt.Sprintf("%s%s->%s", r.host, r.loc, w))
	}
	sort.Strings(l)
	return strings.Join(l, " ")
}

func histString(h []op) string {
	var l []string
	for _, o := range h {
		s := o.Shape
		if s == "" {
			s = "-"
		}
		l = append(l, o.Who+"="+s)
	}
	return "[" + strings.Join(l, " ") + "]"
}

func main() {
	drv.E2Replayers["hist"] = func(raw json.RawMessage) string {
		var h []op
		json.Unmarshal(raw, &h)
		v, _ := runHistory(h)
		return v
	}
	c := drv.Setup("C06", "e2real", "model_checking", nil)
	if c == nil {
		return
	}
	depth := drv.Pick(c, 2, 3)
	c.Rule(fmt.Sprintf("real frps (vhost HTTP port) + two real frpc on loopback; operation = one client's proxy set is replaced by {none, (x.ex.test,/), (x.ex.test,/api), [own.ex.test,x.ex.test] at /, [x.ex.test,own.ex.test] at /api, *.ex.test} through the client's reload entry point; every sequence of operations of length %d (all shorter ones are its prefixes), after every step 7 probe requests (exact / wildcard / unmatched hosts, location prefixes, upper case + port suffix) against the reference model: all-or-nothing ownership per proxy, duplicates refused without touching the owner, closed routes gone, most specific match; the server's proxy table must show the predicted registrations; non-trivial = distinct history", depth))
	c.Assume("a proxy refused by the server is retried by frpc after 30 s; every history ends well before that")
	var alphabet []op
	for _, who := range []string{"A", "B"} {
		for _, sh := range []string{"r", "a", "m", "n", "w", ""} {
			alphabet = append(alphabet, op{who, sh})
		}
	}
	var hists [][]op
	var gen func(prefix []op)
	gen = func(prefix []op) {
		if len(prefix) == depth {
			hists = append(hists, append([]op{}, prefix...))
			return
		}
		for _, o := range alphabet {
			if len(prefix) == 0 && o.Shape == "" {
				continue // nothing to close yet
			}
			if n := len(prefix); n > 0 && prefix[n-1] == o {
				continue // the same set again changes nothing
			}
			gen(append(prefix, o))
		}
	}
	gen(nil)
	type out struct{ v, in string }
	res := make([]out, len(hists))
	sem := make(chan struct{}, 10)
	var wg sync.WaitGroup
	for i, h := range hists {
		wg.Add(1)
		go func(i int, h []op) {
			defer wg.Done()
			sem <- struct{}{}
			defer func() { <-sem }()
			if c.TimeUp() {
				res[i] = out{"", "time budget"}
				return
			}
			v, in := runHistory(h)
			res[i] = out{v, in}
		}(i, h)
	}
	wg.Wait()
	inconclusive, steps := 0, 0
	for i, h := range hists {
		if res[i].in != "" {
			inconclusive++
			c.Count("")
			c.Note("inconclusive:"+histString(h), res[i].in)
			continue
		}
		c.Count("hist:" + histString(h))
		steps += len(h)
		if res[i].v != "" {
			c.ViolateConfirmed("hist", "hist:"+histString(h), res[i].v, h, 2)
		}
	}
	c.States(int64(len(hists)), int64(steps*len(probes)))
	if inconclusive > 0 {
		c.Cap(fmt.Sprintf("%d of %d histories inconclusive", inconclusive, len(hists)))
	}
	c.Sample(hists[0])
	c.Finish()
}
