package main

import "context"

func contextBackground() context.Context { return context.Background() }
