// C06 — virtual-host routing always picks the most specific matching route.
// E2: (1) BFS over register/unregister histories of the real route table + real lookup against an independent
// specification of "most specific match"; (2) real HTTP traffic through the real HTTPReverseProxy (net/http server
// on loopback, marker backends), host forms, unmatched requests, keep-alive connections across route changes;
// (3) real CONNECT and TLS-SNI muxers on loopback.
package main

import (
	"bufio"
	"crypto/tls"
	"encoding/base64"
	"encoding/json"
	"fmt"
	"io"
	"net"
	"net/http"
	"sort"
	"strings"
	"sync"
	"time"

	"github.com/fatedier/frp/pkg/util/tcpmux"
	"github.com/fatedier/frp/pkg/util/vhost"

	"verif/mc/drv"
	_ "verif/mc/quiet"
)

type triple struct{ Host, Loc, User string }

func (t triple) String() string { return t.Host + "|" + t.Loc + "|" + t.User }

// ---- the specification, written from the property statement ----

func spec(table map[triple]bool, host, path, user string) (triple, bool) {
	host = strings.ToLower(host)
	cands := []string{host}
	labels := strings.Split(host, ".")
	for len(labels) >= 3 {
		labels[0] = "*"
		cands = append(cands, strings.Join(labels, "."))
		labels = labels[1:]
	}
	cands = append(cands, "*")
	users := []string{user}
	if user != "" {
		users = append(users, "")
	}
	for _, h := range cands {
		for _, u := range users {
			best, found := triple{}, false
			for t := range table {
				if t.Host == h && t.User == u && strings.HasPrefix(path, t.Loc) {
					if !found || len(t.Loc) > len(best.Loc) {
						best, found = t, true
					}
				}
			}
			if found {
				return best, true
			}
		}
	}
	return triple{}, false
}

// ---- (1) table BFS ----

type op struct {
	Add bool
	T   triple
}

func applyOps(ops []op) (rp *vhost.HTTPReverseProxy, ref map[triple]bool, errs []string) {
	routers := vhost.NewRouters()
	rp = vhost.NewHTTPReverseProxy(vhost.HTTPReverseProxyOptions{}, routers)
	ref = map[triple]bool{}
	for i, o := range ops {
		key := triple{strings.ToLower(o.T.Host), o.T.Loc, o.T.User}
		if o.Add {
			err := rp.Register(vhost.RouteConfig{Domain: o.T.Host, Location: o.T.Loc, RouteByHTTPUser: o.T.User, Username: o.T.String()})
			if ref[key] && err == nil {
				errs = append(errs, fmt.Sprintf("op %d: duplicate registration of %v accepted", i, o.T))
			}
			if !ref[key] && err != nil {
				errs = append(errs, fmt.Sprintf("op %d: registration of %v refused (%v) although the triple is free", i, o.T, err))
			}
			if err == nil {
				ref[key] = true
			}
		} else {
			rp.UnRegister(vhost.RouteConfig{Domain: o.T.Host, Location: o.T.Loc, RouteByHTTPUser: o.T.User})
			delete(ref, key)
		}
	}
	return
}

var qHosts = []string{"a.x.com", "c.b.x.com", "x.com", "b.x.com", "z.org"}
var qPaths = []string{"", "/", "/a", "/abc", "/a/b/c", "/b"}
var qUsers = []string{"", "u1", "u3"}

func checkTable(ops []op) []string {
	rp, ref, errs := applyOps(ops)
	for _, h := range qHosts {
		for _, p := range qPaths {
			for _, u := range qUsers {
				want, ok := spec(ref, h, p, u)
				rc := rp.GetRouteConfig(h, p, u)
				switch {
				case rc == nil && ok:
					errs = append(errs, fmt.Sprintf("lookup host=%s path=%q user=%q: no route found, expected %v", h, p, u, want))
				case rc != nil && !ok:
					errs = append(errs, fmt.Sprintf("lookup host=%s path=%q user=%q: routed to %s|%s|%s although no registered route matches", h, p, u, rc.Domain, rc.Location, rc.RouteByHTTPUser))
				case rc != nil:
					got := triple{strings.ToLower(rc.Domain), rc.Location, rc.RouteByHTTPUser}
					if got != want {
						errs = append(errs, fmt.Sprintf("lookup host=%s path=%q user=%q: routed to %v, most specific match is %v", h, p, u, got, want))
					}
				}
			}
		}
	}
	return errs
}

func tableKey(ref map[triple]bool) string {
	var l []string
	for t := range ref {
		l = append(l, t.String())
	}
	sort.Strings(l)
	return strings.Join(l, ";")
}

// ---- (2) HTTP traffic ----

type backend struct {
	name string
	ln   net.Listener
	mu   sync.Mutex
	hits []string
}

func newBackend(name string) *backend {
	l, err := net.Listen("tcp", "127.0.0.1:0")
	if err != nil {
		panic(err)
	}
	b := &backend{name: name, ln: l}
	go http.Serve(l, http.HandlerFunc(func(w http.ResponseWriter, r *http.Request) {
		b.mu.Lock()
		b.hits = append(b.hits, r.Host+" "+r.URL.Path)
		b.mu.Unlock()
		w.Header().Set("X-Backend", name)
		io.WriteString(w, name)
	}))
	return b
}

func (b *backend) count() int { b.mu.Lock(); defer b.mu.Unlock(); return len(b.hits) }

func (b *backend) dial(string) (net.Conn, error) { return net.Dial("tcp", b.ln.Addr().String()) }

type front struct {
	rp  *vhost.HTTPReverseProxy
	ln  net.Listener
	srv *http.Server
}

func newFront() *front {
	rp := vhost.NewHTTPReverseProxy(vhost.HTTPReverseProxyOptions{ResponseHeaderTimeoutS: 5}, vhost.NewRouters())
	l, err := net.Listen("tcp", "127.0.0.1:0")
	if err != nil {
		panic(err)
	}
	f := &front{rp: rp, ln: l, srv: &http.Server{Handler: rp}}
	go f.srv.Serve(l)
	return f
}

func (f *front) close() { f.srv.Close() }

// rawRequest sends one request on an existing connection and returns status and X-Backend.
func rawRequest(c net.Conn, br *bufio.Reader, host, path, user string) (int, string, error) {
	auth := ""
	if user != "" {
		auth = "Authorization: Basic " + base64.StdEncoding.EncodeToString([]byte(user+":pw")) + "\r\n"
	}
	_ = c.SetDeadline(time.Now().Add(10 * time.Second))
	fmt.Fprintf(c, "GET %s HTTP/1.1\r\nHost: %s\r\n%s\r\n", path, host, auth)
	resp, err := http.ReadResponse(br, nil)
	if err != nil {
		return 0, "", err
	}
	io.Copy(io.Discard, resp.Body)
	resp.Body.Close()
	return resp.StatusCode, resp.Header.Get("X-Backend"), nil
}

type trafficCase struct {
	Table []triple `json:"table"`
	Host  string   `json:"host"`
	Path  string   `json:"path"`
	User  string   `json:"user"`
}

// runTraffic registers the table (one marker backend per route) and sends the request on a fresh connection.
func runTraffic(tc trafficCase) string {
	f := newFront()
	defer f.close()
	ref := map[triple]bool{}
	backends := map[triple]*backend{}
	for _, t := range tc.Table {
		b := newBackend(t.String())
		defer b.ln.Close()
		backends[triple{strings.ToLower(t.Host), t.Loc, t.User}] = b
		ref[triple{strings.ToLower(t.Host), t.Loc, t.User}] = true
		if err := f.rp.Register(vhost.RouteConfig{Domain: t.Host, Location: t.Loc, RouteByHTTPUser: t.User, CreateConnFn: b.dial}); err != nil {
			return "register " + t.String() + ": " + err.Error()
		}
	}
	c, err := net.Dial("tcp", f.ln.Addr().String())
	if err != nil {
		return ""
	}
	defer c.Close()
	status, who, err := rawRequest(c, bufio.NewReader(c), tc.Host, tc.Path, tc.User)
	if err != nil {
		return "request failed: " + err.Error()
	}
	canon := strings.TrimSuffix(strings.ToLower(tc.Host), ".")
	if h, _, e := net.SplitHostPort(canon); e == nil {
		canon = strings.TrimSuffix(h, ".")
	}
	want, ok := spec(ref, canon, tc.Path, tc.User)
	total := 0
	for _, b := range backends {
		total += b.count()
	}
	if !ok {
		if status != 404 || total != 0 {
			return fmt.Sprintf("unmatched request (host %q path %q user %q) answered %d and reached %d backends, expected 404 and none", tc.Host, tc.Path, tc.User, status, total)
		}
		return ""
	}
	if status != 200 || strings.ToLower(who) != want.String() || total != 1 {
		return fmt.Sprintf("request host %q path %q user %q: status %d from backend %q (%d backend hits), the most specific route is %v", tc.Host, tc.Path, tc.User, status, who, total, want)
	}
	return ""
}

// keepalive: requests on one connection across unregister / re-register by another owner.
func runKeepAlive(variant string) string {
	f := newFront()
	defer f.close()
	a, b := newBackend("A"), newBackend("B")
	defer a.ln.Close()
	defer b.ln.Close()
	route := func(be *backend) vhost.RouteConfig {
		return vhost.RouteConfig{Domain: "h.example.com", Location: "/", CreateConnFn: be.dial}
	}
	if err := f.rp.Register(route(a)); err != nil {
		return err.Error()
	}
	c, err := net.Dial("tcp", f.ln.Addr().String())
	if err != nil {
		return ""
	}
	defer c.Close()
	br := bufio.NewReader(c)
	if st, who, err := rawRequest(c, br, "h.example.com", "/", ""); err != nil || st != 200 || who != "A" {
		return fmt.Sprintf("first request: %d %q %v", st, who, err)
	}
	f.rp.UnRegister(route(a))
	switch variant {
	case "closed":
		// the route is gone: the next request (same user connection, idle backend connection still pooled) must not reach A
		st, who, err := rawRequest(c, br, "h.example.com", "/", "")
		if err != nil {
			return "second request failed: " + err.Error()
		}
		if st != 404 || a.count() != 1 {
			return fmt.Sprintf("route closed, next request on the kept-alive connection answered %d by %q; former owner's backend hits=%d (must stay 1)", st, who, a.count())
		}
	case "reregistered":
		if err := f.rp.Register(route(b)); err != nil {
			return "re-register by another owner refused: " + err.Error()
		}
		st, who, err := rawRequest(c, br, "h.example.com", "/", "")
		if err != nil {
			return "second request failed: " + err.Error()
		}
		if st != 200 || who != "B" || a.count() != 1 {
			return fmt.Sprintf("route re-registered by another proxy, next request answered %d by backend %q; former owner's backend hits=%d (must stay 1)", st, who, a.count())
		}
		// and on a fresh connection
		c2, err := net.Dial("tcp", f.ln.Addr().String())
		if err == nil {
			defer c2.Close()
			st, who, err := rawRequest(c2, bufio.NewReader(c2), "h.example.com", "/", "")
			if err != nil || st != 200 || who != "B" {
				return fmt.Sprintf("fresh connection after re-registration: %d %q %v", st, who, err)
			}
		}
	}
	return ""
}

// ---- (3) CONNECT and SNI muxers ----

func runMuxer(kind string, table []triple, host, user string, closeIdx int) string {
	l, err := net.Listen("tcp", "127.0.0.1:0")
	if err != nil {
		return ""
	}
	defer l.Close()
	var mux *vhost.Muxer
	if kind == "connect" {
		m, err := tcpmux.NewHTTPConnectTCPMuxer(l, false, 5*time.Second)
		if err != nil {
			return err.Error()
		}
		mux = m.Muxer
	} else {
		m, err := vhost.NewHTTPSMuxer(l, 5*time.Second)
		if err != nil {
			return err.Error()
		}
		mux = m.Muxer
	}
	ref := map[triple]bool{}
	got := make(chan string, 8)
	var lns []*vhost.Listener
	defer func() {
		for i, ln := range lns {
			if i != closeIdx {
				ln.Close()
			}
		}
	}()
	for _, t := range table {
		t := t
		ln, err := mux.Listen(ctxBG, &vhost.RouteConfig{Domain: t.Host, RouteByHTTPUser: t.User})
		if err != nil {
			return "listen " + t.String() + ": " + err.Error()
		}
		lns = append(lns, ln)
		ref[triple{strings.ToLower(t.Host), "", t.User}] = true
		go func() {
			for {
				c, err := ln.Accept()
				if err != nil {
					return
				}
				got <- t.String()
				c.Close()
			}
		}()
	}
	// registering a route that duplicates an existing triple (whatever the letter case of the host) is refused and
	// changes nothing: the deliveries below still follow the table
	for _, t := range table {
		if dup, err := mux.Listen(ctxBG, &vhost.RouteConfig{Domain: strings.ToUpper(t.Host), RouteByHTTPUser: t.User}); err == nil {
			dup.Close()
			return "duplicate registration of " + t.String() + " was accepted"
		}
	}
	if closeIdx >= 0 && closeIdx < len(lns) {
		// one route is closed again: exactly that route disappears
		lns[closeIdx].Close()
		t := table[closeIdx]
		delete(ref, triple{strings.ToLower(t.Host), "", t.User})
	}
	c, err := net.Dial("tcp", l.Addr().String())
	if err != nil {
		return ""
	}
	defer c.Close()
	_ = c.SetDeadline(time.Now().Add(8 * time.Second))
	refused := make(chan struct{})
	canon := strings.TrimSuffix(strings.ToLower(host), ".")
	if h, _, e := net.SplitHostPort(canon); e == nil {
		canon = strings.TrimSuffix(h, ".")
	}
	if kind == "connect" {
		auth := ""
		if user != "" {
			auth = "Proxy-Authorization: Basic " + base64.StdEncoding.EncodeToString([]byte(user+":pw")) + "\r\n"
		}
		target := host
		if !strings.Contains(target, ":") {
			target += ":443"
		}
		fmt.Fprintf(c, "CONNECT %s HTTP/1.1\r\nHost: %s\r\n%s\r\n", target, target, auth)
		go func() {
			line, err := bufio.NewReader(c).ReadString('\n')
			if err != nil || !strings.Contains(line, " 200") {
				close(refused)
			}
		}()
	} else {
		go tls.Client(c, &tls.Config{ServerName: host, InsecureSkipVerify: true}).Handshake()
		user = ""
		canon = strings.ToLower(host)
	}
	want, ok := spec(ref, canon, "", user)
	select {
	case <-refused:
		if ok {
			return fmt.Sprintf("%s for host %q user %q refused, expected %v", kind, host, user, want)
		}
	case who := <-got:
		if !ok {
			return fmt.Sprintf("%s for host %q user %q delivered to %s although no route matches", kind, host, user, who)
		}
		if strings.ToLower(who) != want.String() {
			return fmt.Sprintf("%s for host %q user %q delivered to %s, most specific route is %v", kind, host, user, who, want)
		}
	case <-time.After(3 * time.Second):
		if ok {
			return fmt.Sprintf("%s for host %q user %q not delivered, expected %v", kind, host, user, want)
		}
	}
	return ""
}

var ctxBG = contextBackground()

func main() {
	drv.E2Replayers["table"] = func(raw json.RawMessage) string {
		var ops []op
		json.Unmarshal(raw, &ops)
		return strings.Join(checkTable(ops), "; ")
	}
	drv.E2Replayers["traffic"] = func(raw json.RawMessage) string {
		var tc trafficCase
		json.Unmarshal(raw, &tc)
		return runTraffic(tc)
	}
	drv.E2Replayers["keepalive"] = func(raw json.RawMessage) string {
		var v string
		json.Unmarshal(raw, &v)
		return runKeepAlive(v)
	}
	c := drv.Setup("C06", "e2", "model_checking", nil)
	if c == nil {
		return
	}
	c.Rule("(1) explicit-state BFS over register/unregister histories (32 triples over hosts {exact, mixed case, *.x.com, *.b.x.com, *} x locations x users) on the real route table, deduplicated on the set of registered triples; in every state 90 lookups through the real lookup are compared with an independent specification of 'most specific match', duplicate registrations must be refused, unregistration must remove exactly one triple; (2) real HTTP requests through the real reverse proxy for host forms (case, port suffix, trailing dot) x paths x users, unmatched requests, kept-alive connections across route close / re-registration; (3) CONNECT and TLS-SNI muxers; non-trivial = distinct table / distinct request")

	// (1)
	var alphabet []op
	for _, h := range []string{"a.x.com", "*.x.com", "*.b.x.com", "*"} {
		for _, l := range []string{"", "/a", "/ab", "/a/b"} {
			for _, u := range []string{"", "u1"} {
				alphabet = append(alphabet, op{true, triple{h, l, u}}, op{false, triple{h, l, u}})
			}
		}
	}
	alphabet = append(alphabet, op{true, triple{"A.X.Com", "/a", ""}}, op{false, triple{"A.X.COM", "", "u1"}})
	depth := drv.Pick(c, 3, 4)
	seen := map[string]bool{"": true}
	frontier := [][]op{nil}
	var states, trans int64 = 1, 0
	for d := 1; d <= depth && !c.TimeUp(); d++ {
		var next [][]op
		for _, h := range frontier {
			for _, a := range alphabet {
				nh := append(append([]op(nil), h...), a)
				trans++
				errs := checkTable(nh)
				_, ref, _ := applyOps(nh)
				k := tableKey(ref)
				c.Count("table:" + k)
				for _, e := range errs {
					c.Violate("table", "table:"+e, fmt.Sprintf("history %v: %s", nh, e), nh)
				}
				if !seen[k] {
					seen[k] = true
					states++
					next = append(next, nh)
				}
			}
		}
		frontier = next
	}
	c.States(states, trans)
	c.Note("table_bfs", map[string]any{"depth": depth, "tables": states, "histories": trans, "lookups_per_table": len(qHosts) * len(qPaths) * len(qUsers)})
	c.Sample(map[string]any{"history": []op{{true, triple{"*.x.com", "/a", ""}}, {true, triple{"a.x.com", "", "u1"}}}})

	// (2)
	tables := [][]triple{
		{{"a.x.com", "", ""}, {"*.x.com", "", ""}, {"*", "", ""}},
		{{"a.x.com", "/a", ""}, {"a.x.com", "/a/b", ""}, {"a.x.com", "", "u1"}, {"*.x.com", "/a", "u1"}},
		{{"*.b.x.com", "", ""}, {"*.x.com", "", ""}},
		{{"A.X.Com", "/", ""}},
	}
	hosts := []string{"a.x.com", "A.X.COM", "a.x.com.", "a.x.com:80", "A.x.Com.:8080", "c.b.x.com", "x.com", "z.org"}
	paths := []string{"/", "/a", "/abc", "/a/b/c", "/b"}
	users := []string{"", "u1", "u3"}
	for _, tb := range tables {
		for _, h := range hosts {
			for _, p := range paths {
				for _, u := range users {
					if c.TimeUp() {
						c.Cap("traffic enumeration stopped by the budget")
						break
					}
					tc := trafficCase{tb, h, p, u}
					c.Count(fmt.Sprintf("traffic:%v", tc))
					if e := runTraffic(tc); e != "" {
						c.ViolateConfirmed("traffic", "traffic:"+e, fmt.Sprintf("table %v: %s", tb, e), tc, 2)
					}
				}
			}
		}
	}
	for _, v := range []string{"closed", "reregistered"} {
		c.Count("keepalive:" + v)
		if e := runKeepAlive(v); e != "" {
			c.ViolateConfirmed("keepalive", "keepalive:"+v, "kept-alive connection, route "+v+": "+e, v, 2)
		}
	}

	// (3) every table of <= 2 (thorough: 3) muxer routes over 4 hosts x 2 users, every request host x user
	var mroutes []triple
	for _, h := range []string{"a.x.com", "*.x.com", "*.b.x.com", "*"} {
		for _, u := range []string{"", "u1"} {
			mroutes = append(mroutes, triple{h, "", u})
		}
	}
	var mtables [][]triple
	maxSz := 2
	if !c.Quick() {
		maxSz = 3
	}
	var rec func(start int, cur []triple)
	rec = func(start int, cur []triple) {
		if len(cur) > 0 {
			mtables = append(mtables, append([]triple{}, cur...))
		}
		if len(cur) == maxSz {
			return
		}
		for i := start; i < len(mroutes); i++ {
			rec(i+1, append(cur, mroutes[i]))
		}
	}
	rec(0, nil)
	type mcase struct {
		Kind  string   `json:"kind"`
		Table []triple `json:"table"`
		Host  string   `json:"host"`
		User  string   `json:"user"`
		Close int      `json:"closed_route"` // index of a route closed again before the request, -1 = none
	}
	drv.E2Replayers["mux"] = func(raw json.RawMessage) string {
		var mc mcase
		json.Unmarshal(raw, &mc)
		return runMuxer(mc.Kind, mc.Table, mc.Host, mc.User, mc.Close)
	}
	var mcases []mcase
	for _, kind := range []string{"connect", "sni"} {
		for _, tb := range mtables {
			for _, h := range []string{"a.x.com", "A.X.Com", "c.b.x.com", "z.org", "x.com"} {
				for _, u := range []string{"", "u1", "u3"} {
					if kind == "sni" && u != "" {
						continue
					}
					mcases = append(mcases, mcase{kind, tb, h, u, -1})
					if len(tb) == 2 {
						mcases = append(mcases, mcase{kind, tb, h, u, 0}, mcase{kind, tb, h, u, 1})
					}
				}
			}
		}
	}
	var mu sync.Mutex
	var wg sync.WaitGroup
	sem := make(chan struct{}, 32)
	for _, mc := range mcases {
		mc := mc
		c.Count(fmt.Sprintf("mux:%s:%v:%s:%s:%d", mc.Kind, mc.Table, mc.Host, mc.User, mc.Close))
		wg.Add(1)
		sem <- struct{}{}
		go func() {
			defer func() { <-sem; wg.Done() }()
			if e := runMuxer(mc.Kind, mc.Table, mc.Host, mc.User, mc.Close); e != "" {
				mu.Lock()
				c.ViolateConfirmed("mux", "mux:"+e, fmt.Sprintf("table %v: %s", mc.Table, e), mc, 2)
				mu.Unlock()
			}
		}()
	}
	wg.Wait()
	c.Note("muxer_tables", len(mtables))
	c.Finish()
}
