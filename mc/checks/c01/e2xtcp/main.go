// C01 (part e2xtcp) — the xtcp kind end to end with frp's own programs on both sides: a real frps, a real frpc owning an
// xtcp proxy, a real frpc running the xtcp visitor, a STUN service on loopback (written here with pion/stun, answering
// with the sender's address and an "other address" so that both peers learn two mapped addresses), real UDP sockets.
// The two clients discover their addresses, exchange them through frps, punch the hole with the controller's
// instructions and run the quic / kcp tunnel over it; user connections made to the visitor's port must be byte
// transparent. Second half: "xtcp falling back to stcp" — the visitor's STUN service is unreachable, the configured
// stcp fall-back must carry the user's bytes instead.
//
// The observable (bytes in = bytes out, end of stream) does not depend on scheduling. Programs that do not start within
// their real-time budget make the case inconclusive; a user connection that is not served is a violation only when
// it fails again in each of three re-runs.
package main

import (
	"bytes"
	"encoding/json"
	"fmt"
	"io"
	"net"
	"sync"
	"time"

	"github.com/pion/stun/v2"

	v1 "github.com/fatedier/frp/pkg/config/v1"

	"verif/mc/drv"
	_ "verif/mc/quiet"
	rw "verif/mc/worlds/realworld"
)

type xcase struct {
	Protocol string `json:"protocol"` // quic | kcp
	Enc      bool   `json:"enc"`
	Comp     bool   `json:"comp"`
	Fallback bool   `json:"fallback"` // the visitor cannot reach its STUN service: fall back to stcp
	KeepOpen bool   `json:"keepTunnelOpen"`
}

// stunPair serves STUN binding requests on two loopback sockets, each naming the other as OTHER-ADDRESS.
type stunPair struct {
	a, b *net.UDPConn
}

func startSTUN() (*stunPair, error) {
	a, err := net.ListenUDP("udp4", &net.UDPAddr{IP: net.IPv4(127, 0, 0, 1)})
	if err != nil {
		return nil, err
	}
	b, err := net.ListenUDP("udp4", &net.UDPAddr{IP: net.IPv4(127, 0, 0, 1)})
	if err != nil {
		a.Close()
		return nil, err
	}
	serve := func(c, other *net.UDPConn) {
		oa := other.LocalAddr().(*net.UDPAddr)
		buf := make([]byte, 1500)
		for {
			n, from, err := c.ReadFromUDP(buf)
			if err != nil {
				return
			}
			m := &stun.Message{Raw: append([]byte{}, buf[:n]...)}
			if m.Decode() != nil || m.Type != stun.BindingRequest {
				continue
			}
			resp, err := stun.Build(stun.NewTransactionIDSetter(m.TransactionID), stun.BindingSuccess,
				&stun.XORMappedAddress{IP: from.IP, Port: from.Port}, &stun.OtherAddress{IP: oa.IP, Port: oa.Port}, stun.Fingerprint)
			if err == nil {
				c.WriteToUDP(resp.Raw, from)
			}
		}
	}
	go serve(a, b)
	go serve(b, a)
	return &stunPair{a, b}, nil
}

func (s *stunPair) Close()       { s.a.Close(); s.b.Close() }
func (s *stunPair) Addr() string { return s.a.LocalAddr().String() }

func payloads() [][]byte {
	inc := make([]byte, 200_000)
	x := uint32(2463534242)
	for i := range inc {
		x ^= x << 13
		x ^= x >> 17
		x ^= x << 5
		inc[i] = byte(x)
	}
	return [][]byte{{0x42}, bytes.Repeat([]byte("0123456789abcdef"), 1025), inc[:65537], inc, make([]byte, 300_000)}
}

func run(xc xcase) (viol, inconclusive string) {
	st, err := startSTUN()
	if err != nil {
		return "", "stun: " + err.Error()
	}
	defer st.Close()
	srv, err := rw.StartServer(func(s *v1.ServerConfig) { s.AllowPorts = nil })
	if err != nil {
		return "", "server: " + err.Error()
	}
	defer srv.Close()
	be := rw.StartEcho()
	defer be.Close()
	// owner
	xp := &v1.XTCPProxyConfig{}
	xp.Name, xp.Type, xp.LocalIP, xp.LocalPort, xp.Secretkey = "x", "xtcp", "127.0.0.1", be.Port, "xsk"
	xp.Transport.UseEncryption, xp.Transport.UseCompression = xc.Enc, xc.Comp
	sp := &v1.STCPProxyConfig{}
	sp.Name, sp.Type, sp.LocalIP, sp.LocalPort, sp.Secretkey = "xs", "stcp", "127.0.0.1", be.Port, "ssk"
	owner, err := rw.StartClient(srv, "", []v1.ProxyConfigurer{xp, sp}, nil, func(c *v1.ClientCommonConfig) { c.NatHoleSTUNServer = st.Addr() })
	if err != nil {
		return "", "owner: " + err.Error()
	}
	defer owner.Close()
	if !owner.WaitRunning(10*time.Second, "x", "xs") {
		return "", "owner's proxies did not come up within 10 s"
	}
	// visitor
	port := rw.FreePort()
	xv := &v1.XTCPVisitorConfig{}
	xv.Name, xv.Type, xv.ServerName, xv.SecretKey, xv.BindAddr, xv.BindPort = "xv", "xtcp", "x", "xsk", "127.0.0.1", port
	xv.Protocol, xv.KeepTunnelOpen = xc.Protocol, xc.KeepOpen
	xv.Transport.UseEncryption, xv.Transport.UseCompression = xc.Enc, xc.Comp
	visitors := []v1.VisitorConfigurer{xv}
	stunForVisitor := st.Addr()
	if xc.Fallback {
		dead, _ := net.ListenUDP("udp4", &net.UDPAddr{IP: net.IPv4(127, 0, 0, 1)})
		stunForVisitor = dead.LocalAddr().String() // bound, never answers
		defer dead.Close()
		xv.FallbackTo, xv.FallbackTimeoutMs = "sv", 1500
		sv := &v1.STCPVisitorConfig{}
		sv.Name, sv.Type, sv.ServerName, sv.SecretKey, sv.BindAddr, sv.BindPort = "sv", "stcp", "xs", "ssk", "127.0.0.1", -1
		visitors = append(visitors, sv)
	}
	vis, err := rw.StartClient(srv, "", nil, visitors, func(c *v1.ClientCommonConfig) { c.NatHoleSTUNServer = stunForVisitor })
	if err != nil {
		return "", "visitor: " + err.Error()
	}
	defer vis.Close()
	if !rw.WaitPort(port, 8*time.Second) {
		return "", "visitor port not listening"
	}
	for idx, data := range payloads() {
		u, err := net.DialTimeout("tcp", fmt.Sprintf("127.0.0.1:%d", port), 3*time.Second)
		if err != nil {
			return "", "dial visitor port: " + err.Error()
		}
		_ = u.SetDeadline(time.Now().Add(60 * time.Second))
		got := make([]byte, len(data))
		var rerr error
		var wg sync.WaitGroup
		wg.Add(1)
		go func() { defer wg.Done(); _, rerr = io.ReadFull(u, got) }()
		_, werr := u.Write(data)
		wg.Wait()
		if werr != nil || rerr != nil {
			u.Close()
			if idx == 0 {
				// the very first connection pays for discovery and hole punching; on loopback nothing filters or
				// translates, so the path must come up: reported only if it fails again in every re-run
				return fmt.Sprintf("%+v: the first user connection through the visitor was not served on an unfiltered loopback network (write err %v, read err %v)", xc, werr, rerr), ""
			}
			return fmt.Sprintf("%+v: connection %d (%d bytes) through an established xtcp path broke: write err %v, read err %v", xc, idx, len(data), werr, rerr), ""
		}
		if !bytes.Equal(got, data) {
			u.Close()
			n := 0
			for n < len(got) && got[n] == data[n] {
				n++
			}
			return fmt.Sprintf("%+v: connection %d: %d bytes sent, echo differs at offset %d", xc, idx, len(data), n), ""
		}
		// close by the user: the backend's connection ends
		u.Close()
	}
	if be.Count() < len(payloads()) {
		return fmt.Sprintf("%+v: %d user connections, the backend saw %d", xc, len(payloads()), be.Count()), ""
	}
	return "", ""
}

func main() {
	drv.E2Replayers["xtcp"] = func(raw json.RawMessage) string {
		var xc xcase
		json.Unmarshal(raw, &xc)
		v, _ := run(xc)
		return v
	}
	c := drv.Setup("C01", "e2xtcp", "exploration", nil)
	if c == nil {
		return
	}
	c.Rule("real frps + real frpc (xtcp proxy) + real frpc (xtcp visitor) + a STUN service on loopback: tunnel protocol {quic, kcp} x encryption x compression x keepTunnelOpen, and the stcp fall-back when the visitor's STUN service never answers; five user connections per case (1 B, 16 KiB ascii, 64 KiB + 1, 200 KB incompressible, 300 KB zeros) must come back byte for byte and reach the backend once each; non-trivial = distinct case")
	c.Assume("loopback stands for an unfiltered network (no NAT translation or filtering); components that do not start are inconclusive; a violation (including a first connection that is not served within 60 s) is re-run three times and is reported only if it fails every time")
	var cases []xcase
	for _, p := range []string{"quic", "kcp"} {
		for e := 0; e < 4; e++ {
			if c.Quick() && (e == 1 || e == 2) {
				continue
			}
			cases = append(cases, xcase{Protocol: p, Enc: e&1 == 1, Comp: e&2 == 2})
		}
		cases = append(cases, xcase{Protocol: p, KeepOpen: true}, xcase{Protocol: p, Fallback: true})
	}
	type out struct{ v, in string }
	res := make([]out, len(cases))
	var wg sync.WaitGroup
	sem := make(chan struct{}, 4)
	for i, xc := range cases {
		wg.Add(1)
		go func(i int, xc xcase) {
			defer wg.Done()
			sem <- struct{}{}
			defer func() { <-sem }()
			v, in := run(xc)
			res[i] = out{v, in}
		}(i, xc)
	}
	wg.Wait()
	for i, xc := range cases {
		if res[i].in != "" {
			c.Cap(fmt.Sprintf("inconclusive %+v: %s", xc, res[i].in))
			continue
		}
		c.Count(fmt.Sprintf("xtcp:%+v", xc))
		if res[i].v != "" {
			c.ViolateConfirmed("xtcp", fmt.Sprintf("xtcp:%+v", xc), res[i].v, xc, 3)
		}
	}
	c.Sample(cases[0])
	c.Finish()
}
