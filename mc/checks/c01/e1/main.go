// C01 — TCP-class tunnels are byte-transparent end to end and never cross-wired.
// E1: real frps + real frpc (+ a second real frpc as stcp visitor) on the virtual network.
package main

import (
	"encoding/base64"
	"bufio"
	"io"
	"bytes"
	"crypto/tls"
	"fmt"
	"strings"
	"sync"
	"time"

	pp "github.com/pires/go-proxyproto"

	"github.com/fatedier/frp/pkg/config/types"
	v1 "github.com/fatedier/frp/pkg/config/v1"

	"verif/mc/drv"
	"verif/mc/vs"
	"verif/mc/vs/vnet"
	sw "verif/mc/worlds/srvworld"
	tw "verif/mc/worlds/tunworld"
)

const (
	muxPort   = 7500
	httpsPort = 7443
	limitBps  = 4096 // "4KB"
)

type tcase struct {
	kind    string // tcp | stcp | tcpmux | https
	enc     bool
	comp    bool
	lim     string // none | client | server
	pp      string // "" | v1 | v2
	size    int
	content string // zero | inc | ascii
	chunk   string // whole | one | pieces
	dir     string // up | both
	closer  string // user | backend
}

func (c tcase) name() string {
	b := func(x bool) string {
		if x {
			return "1"
		}
		return "0"
	}
	p := c.pp
	if p == "" {
		p = "-"
	}
	return fmt.Sprintf("tun/%s/%s%s/%s/%s/%d/%s/%s/%s/%s", c.kind, b(c.enc), b(c.comp), c.lim, p, c.size, c.content, c.chunk, c.dir, c.closer)
}

func parseCase(f []string) tcase {
	c := tcase{kind: f[1], enc: f[2][0] == '1', comp: f[2][1] == '1', lim: f[3], pp: f[4], content: f[6], chunk: f[7], dir: f[8], closer: f[9]}
	if c.pp == "-" {
		c.pp = ""
	}
	fmt.Sscanf(f[5], "%d", &c.size)
	return c
}

func payload(size int, content string) []byte {
	b := make([]byte, size)
	switch content {
	case "zero":
	case "ascii":
		for i := range b {
			b[i] = "the quick brown fox jumps over the lazy dog\n"[i%44]
		}
	default:
		x := uint32(2463534242)
		for i := range b {
			x ^= x << 13
			x ^= x >> 17
			x ^= x << 5
			b[i] = byte(x)
		}
	}
	return b
}

func chunks(data []byte, how string) [][]byte {
	if len(data) == 0 {
		return nil
	}
	switch how {
	case "one":
		if len(data) > 1 {
			return [][]byte{data[:1], data[1:]}
		}
	case "pieces":
		var out [][]byte
		cuts := []int{1, 2, 4095, 4096, 4097, 16383, 16384, 16385, 65536}
		prev := 0
		for _, c := range cuts {
			if c > prev && c < len(data) {
				out = append(out, data[prev:c])
				prev = c
			}
		}
		return append(out, data[prev:])
	}
	return [][]byte{data}
}

func setTransport(t *v1.ProxyTransport, c tcase) {
	t.UseEncryption = c.enc
	t.UseCompression = c.comp
	t.ProxyProtocolVersion = c.pp
	if c.lim != "none" {
		t.BandwidthLimit, _ = types.NewBandwidthQuantity("4KB")
		t.BandwidthLimitMode = c.lim
	}
}

// clientHello returns the bytes a TLS client sends first for the given server name.
func clientHello(w *tw.World, sni string) []byte {
	a, b := w.H.Pair("10.99.0.1:1", "10.99.0.2:443")
	go func() {
		_ = tls.Client(a, &tls.Config{ServerName: sni, InsecureSkipVerify: true}).Handshake()
	}()
	hdr := make([]byte, 5)
	if _, _, err := b.ReadFullOrIdle(hdr); err != nil {
		return nil
	}
	n := int(hdr[3])<<8 | int(hdr[4])
	body := make([]byte, n)
	b.ReadFullOrIdle(body)
	b.Close()
	a.Close()
	return append(hdr, body...)
}

type delivery struct {
	at time.Duration
	n  int
}

// setup builds the world for one case and returns a function that opens a user connection.
func setup(x *vs.Exec, c tcase, nprox int) (w *tw.World, open func(src string, i int) (*vnet.StreamConn, []byte, string), ok bool) {
	w = tw.New(x, sw.Opt{AllowPorts: sw.P(20000, 20003), UserConnTimeout: 5, HeartbeatTimeout: -1, TCPMuxPort: muxPort, HTTPSPort: httpsPort})
	var proxies []v1.ProxyConfigurer
	var visitors []v1.VisitorConfigurer
	names := []string{}
	for i := 0; i < nprox; i++ {
		name := fmt.Sprintf("p%d", i)
		names = append(names, name)
		mode := "echo"
		if c.dir == "up" {
			mode = "sink"
		}
		w.StartBackend(8000+i, mode)
		switch c.kind {
		case "tcp":
			p := &v1.TCPProxyConfig{}
			p.Name, p.Type, p.LocalIP, p.LocalPort, p.RemotePort = name, "tcp", "127.0.0.1", 8000+i, 20000+i
			setTransport(&p.Transport, c)
			proxies = append(proxies, p)
		case "stcp":
			p := &v1.STCPProxyConfig{}
			p.Name, p.Type, p.LocalIP, p.LocalPort, p.Secretkey = name, "stcp", "127.0.0.1", 8000+i, "sk"+name
			setTransport(&p.Transport, c)
			proxies = append(proxies, p)
			v := &v1.STCPVisitorConfig{}
			v.Name, v.Type, v.ServerName, v.SecretKey, v.BindAddr, v.BindPort = "v"+name, "stcp", name, "sk"+name, "127.0.0.1", 6000+i
			v.Transport.UseEncryption, v.Transport.UseCompression = c.comp, c.enc // deliberately different from the proxy's own flags
			visitors = append(visitors, v)
		case "tcpmux":
			p := &v1.TCPMuxProxyConfig{}
			p.Name, p.Type, p.LocalIP, p.LocalPort, p.Multiplexer = name, "tcpmux", "127.0.0.1", 8000+i, "httpconnect"
			p.CustomDomains = []string{name + ".example.com"}
			setTransport(&p.Transport, c)
			proxies = append(proxies, p)
		case "tcpmuxwild":
			// two proxies on one wildcard domain: p0 only for the CONNECT user alice, p1 for everybody else
			p := &v1.TCPMuxProxyConfig{}
			p.Name, p.Type, p.LocalIP, p.LocalPort, p.Multiplexer = name, "tcpmux", "127.0.0.1", 8000+i, "httpconnect"
			p.CustomDomains = []string{"*.corp.example.com"}
			if i == 0 {
				p.RouteByHTTPUser = "alice"
			}
			setTransport(&p.Transport, c)
			proxies = append(proxies, p)
		case "https":
			p := &v1.HTTPSProxyConfig{}
			p.Name, p.Type, p.LocalIP, p.LocalPort = name, "https", "127.0.0.1", 8000+i
			p.CustomDomains = []string{name + ".example.com"}
			setTransport(&p.Transport, c)
			proxies = append(proxies, p)
		}
	}
	cl := w.StartClient("owner", "", proxies, nil, nil)
	if !w.AwaitRunning(cl, 30*time.Second, names...) {
		vs.Fail("setup: proxies %v not running after 30 s", names)
		return w, nil, false
	}
	if len(visitors) > 0 {
		w.StartClient("visitor", "", nil, visitors, nil)
		vs.Block("visitor-listening", func() bool { return w.H.TCPListenerOn(6000) != nil || x.Now() > 60*time.Second })
	}
	w.Quiesce()
	open = func(src string, i int) (*vnet.StreamConn, []byte, string) {
		name := fmt.Sprintf("p%d", i)
		switch c.kind {
		case "tcp":
			u, err := w.H.DialFrom(src, fmt.Sprintf("127.0.0.1:%d", 20000+i))
			if err != nil {
				return nil, nil, err.Error()
			}
			return u, nil, ""
		case "stcp":
			u, err := w.H.DialFrom(src, fmt.Sprintf("127.0.0.1:%d", 6000+i))
			if err != nil {
				return nil, nil, err.Error()
			}
			return u, nil, ""
		case "tcpmux":
			u, e := w.ConnectMux(src, name+".example.com", "")
			return u, nil, e
		case "tcpmuxwild":
			hdr := ""
			if i == 0 {
				hdr = "Proxy-Authorization: Basic " + base64.StdEncoding.EncodeToString([]byte("alice:x")) + "\r\n"
			}
			u, e := w.ConnectMux(src, fmt.Sprintf("h%d.corp.example.com", i), hdr)
			return u, nil, e
		case "https":
			hello := clientHello(w, name+".example.com")
			u, err := w.H.DialFrom(src, fmt.Sprintf("127.0.0.1:%d", httpsPort))
			if err != nil {
				return nil, nil, err.Error()
			}
			if _, err := u.Write(hello); err != nil {
				return u, nil, err.Error()
			}
			return u, hello, ""
		}
		return nil, nil, "unknown kind"
	}
	return w, open, true
}

// stripPP removes and checks the declared PROXY protocol header.
func stripPP(c tcase, got []byte, src string) ([]byte, string) {
	if c.pp == "" || c.kind == "stcp" {
		// stcp: the "user" of the server is the visitor's frpc, its address is not the end user's; header checked only for presence below
		if c.pp == "" {
			return got, ""
		}
	}
	if len(got) == 0 {
		return got, ""
	}
	br := bufio.NewReader(bytes.NewReader(got))
	h, err := pp.Read(br)
	if err != nil {
		return got, "backend stream does not start with the declared PROXY protocol header: " + err.Error()
	}
	rest, _ := io.ReadAll(br)
	if (c.pp == "v1" && h.Version != 1) || (c.pp == "v2" && h.Version != 2) {
		return rest, fmt.Sprintf("PROXY header version %d, declared %s", h.Version, c.pp)
	}
	if c.kind == "tcp" || c.kind == "tcpmux" || c.kind == "https" {
		if h.SourceAddr == nil || h.SourceAddr.String() != src {
			return rest, fmt.Sprintf("PROXY header carries source %v, the user's real address is %s", h.SourceAddr, src)
		}
	}
	return rest, ""
}

func scTunnel(c tcase) func(x *vs.Exec) {
	return func(x *vs.Exec) {
		defer sw.Guard()
		w, open, ok := setup(x, c, 1)
		if !ok {
			return
		}
		src := "10.1.1.1:5001"
		data := payload(c.size, c.content)
		vs.SetInterest(true)
		u, prefix, e := open(src, 0)
		if e != "" {
			vs.Fail("%s: cannot open a user connection: %s", c.name(), e)
			return
		}
		sent := append(append([]byte{}, prefix...), data...)
		var userGot []byte
		var deliveries []delivery
		var rd sync.WaitGroup
		userEOF := false
		if c.dir == "both" {
			rd.Add(1)
			go func() {
				defer rd.Done()
				buf := make([]byte, 32*1024)
				for {
					n, idle, err := u.ReadOrIdle(buf)
					if n > 0 {
						userGot = append(userGot, buf[:n]...)
						deliveries = append(deliveries, delivery{x.Now(), n})
					}
					if idle {
						return
					}
					if err != nil {
						userEOF = err.Error() == "EOF"
						return
					}
				}
			}()
		}
		for _, ch := range chunks(data, c.chunk) {
			if _, err := u.Write(ch); err != nil {
				vs.Fail("%s: user write failed: %v", c.name(), err)
				break
			}
		}
		// everything written is eventually delivered while both ends stay open
		b := w.Backends[8000]
		expectBackend := len(sent)
		vs.BlockOrIdle("backend-has-all", func() bool {
			return len(b.Conns) > 0 && len(stripLen(c, b.Conns[0].Got)) >= expectBackend
		})
		if len(b.Conns) != 1 {
			if len(sent) > 0 || c.kind == "tcp" {
				vs.Fail("%s: backend saw %d connections, expected 1", c.name(), len(b.Conns))
			}
			u.Close()
			w.StopAll()
			return
		}
		bc := b.Conns[0]
		body, perr := stripPP(c, bc.Got, src)
		if perr != "" {
			vs.Fail("%s: %s", c.name(), perr)
		}
		if !bytes.Equal(body, sent) {
			vs.Fail("%s: backend received %d bytes, user wrote %d; equal prefix=%d", c.name(), len(body), len(sent), commonPrefix(body, sent))
		}
		if c.dir == "both" {
			want := bc.Got // the backend echoes everything it received, header included
			vs.BlockOrIdle("user-has-all", func() bool { return len(userGot) >= len(want) })
			if !bytes.Equal(userGot, want) {
				vs.Fail("%s: user received %d bytes back, backend echoed %d; equal prefix=%d", c.name(), len(userGot), len(want), commonPrefix(userGot, want))
			}
		}
		// close order
		if c.closer == "user" {
			u.Close()
			vs.BlockOrIdle("backend-eof", func() bool { return bc.EOF || bc.Err != nil })
			if !bc.EOF && bc.Err == nil {
				vs.Fail("%s: user closed after writing; the backend's connection never reached end-of-stream", c.name())
			}
		} else {
			bc.C.Close()
			if c.dir == "both" {
				rd.Wait()
				if !userEOF {
					vs.Fail("%s: backend closed; the user's connection never reached end-of-stream", c.name())
				}
			} else {
				one := make([]byte, 1)
				if _, idle, err := u.ReadOrIdle(one); idle || err == nil {
					vs.Fail("%s: backend closed; the user's connection was not closed (idle=%v)", c.name(), idle)
				}
			}
			u.Close()
		}
		vs.SetInterest(false)
		rd.Wait()
		// bandwidth: bytes delivered in any interval <= limit*interval + burst (both directions together)
		if c.lim != "none" {
			all := append([]delivery{}, deliveries...)
			for _, d := range bc.Reads {
				all = append(all, delivery{d.At, d.N})
			}
			sortDeliveries(all)
			for i := range all {
				sum := 0
				for j := i; j < len(all); j++ {
					sum += all[j].n
					span := (all[j].at - all[i].at).Seconds()
					if float64(sum) > limitBps*span+2*limitBps+1 {
						vs.Fail("%s: %d bytes delivered within %.3fs, limit %d B/s with burst %d", c.name(), sum, span, limitBps, limitBps)
						i = len(all)
						break
					}
				}
			}
		}
		w.Quiesce()
		w.StopAll()
	}
}

func stripLen(c tcase, got []byte) []byte {
	if c.pp == "" {
		return got
	}
	b, _ := stripPP(tcase{pp: c.pp, kind: "stcp"}, got, "")
	return b
}

func commonPrefix(a, b []byte) int {
	n := 0
	for n < len(a) && n < len(b) && a[n] == b[n] {
		n++
	}
	return n
}

func sortDeliveries(d []delivery) {
	for i := 1; i < len(d); i++ {
		for j := i; j > 0 && d[j].at < d[j-1].at; j-- {
			d[j], d[j-1] = d[j-1], d[j]
		}
	}
}

// cross: two proxies, two simultaneous connections each; nothing may be cross-wired.
func scCross(kind string) func(x *vs.Exec) {
	return func(x *vs.Exec) {
		defer sw.Guard()
		c := tcase{kind: kind, lim: "none", dir: "both"}
		w, open, ok := setup(x, c, 2)
		if !ok {
			return
		}
		var wg sync.WaitGroup
		vs.SetInterest(true)
		for p := 0; p < 2; p++ {
			for k := 0; k < 2; k++ {
				wg.Add(1)
				go func(p, k int) {
					defer wg.Done()
					src := fmt.Sprintf("10.2.%d.%d:600%d", p, k, k)
					u, prefix, e := open(src, p)
					if e != "" {
						vs.Fail("open p%d/%d: %s", p, k, e)
						return
					}
					marker := fmt.Sprintf("<<for-proxy-%d-conn-%d>>", p, k)
					u.Write([]byte(marker))
					buf := make([]byte, len(prefix)+len(marker))
					if _, idle, err := u.ReadFullOrIdle(buf); idle || err != nil {
						vs.Fail("connection %d of proxy %d: echo not received (idle=%v err=%v)", k, p, idle, err)
					} else if string(buf[len(prefix):]) != marker {
						vs.Fail("connection %d of proxy %d received %q", k, p, buf[len(prefix):])
					}
					u.Close()
				}(p, k)
			}
		}
		wg.Wait()
		w.Quiesce()
		vs.SetInterest(false)
		for p := 0; p < 2; p++ {
			b := w.Backends[8000+p]
			for _, bc := range b.Conns {
				if !strings.Contains(string(bc.Got), fmt.Sprintf("<<for-proxy-%d-", p)) || strings.Contains(string(bc.Got), fmt.Sprintf("<<for-proxy-%d-", 1-p)) {
					vs.Fail("backend of proxy %d received %q", p, clipS(bc.Got))
				}
			}
			if len(b.Conns) != 2 {
				vs.Fail("backend of proxy %d saw %d connections, expected 2", p, len(b.Conns))
			}
		}
		w.StopAll()
	}
}

// idle: a connection that carries a message, stays silent for 75 s — longer than every set-up deadline on the path
// (vhost first-bytes timeout 30 s, visitor hand-shake 10 s, user-connection timeout 5 s) — and then carries another
// message in both directions: "while both endpoints stay open every written byte is eventually delivered".
func scIdle(kind string, enc, comp bool) func(x *vs.Exec) {
	return func(x *vs.Exec) {
		defer sw.Guard()
		c := tcase{kind: kind, enc: enc, comp: comp, lim: "none", dir: "both"}
		w, open, ok := setup(x, c, 1)
		if !ok {
			return
		}
		u, prefix, e := open("10.4.1.1:5001", 0)
		if e != "" {
			vs.Fail("idle/%s: cannot open a user connection: %s", kind, e)
			return
		}
		exchange := func(tag string, skip int) bool {
			m := []byte("<<message " + tag + " " + strings.Repeat("x", 700) + ">>")
			if _, err := u.Write(m); err != nil {
				vs.Fail("idle/%s: user write (%s) failed: %v", kind, tag, err)
				return false
			}
			buf := make([]byte, skip+len(m))
			if _, idle, err := u.ReadFullOrIdle(buf); idle || err != nil {
				vs.Fail("idle/%s enc=%v comp=%v: message %s was not echoed back to the user (idle=%v err=%v)", kind, enc, comp, tag, idle, err)
				return false
			}
			if !bytes.Equal(buf[skip:], m) {
				vs.Fail("idle/%s: echo of message %s altered", kind, tag)
				return false
			}
			return true
		}
		if exchange("before the pause", len(prefix)) {
			vs.BlockFor("pause", 75*time.Second, func() bool { return false })
			exchange("after 75 s of silence", 0)
		}
		u.Close()
		w.Quiesce()
		w.StopAll()
	}
}

// deadbackend: the proxy's local service refuses connections. "In every case the peer's connection is closed within
// bounded time": the user must not be left hanging on a tunnel that leads nowhere.
func scDeadBackend(enc, comp bool) func(x *vs.Exec) {
	return func(x *vs.Exec) {
		defer sw.Guard()
		w := tw.New(x, sw.Opt{AllowPorts: sw.P(20000, 20003), UserConnTimeout: 5, HeartbeatTimeout: -1})
		p := &v1.TCPProxyConfig{}
		p.Name, p.Type, p.LocalIP, p.LocalPort, p.RemotePort = "p", "tcp", "127.0.0.1", 8099, 20000 // nothing listens on 8099
		p.Transport.UseEncryption, p.Transport.UseCompression = enc, comp
		cl := w.StartClient("owner", "", []v1.ProxyConfigurer{p}, nil, nil)
		if !w.AwaitRunning(cl, 30*time.Second, "p") {
			vs.Fail("setup: proxy not running")
			return
		}
		w.Quiesce()
		vs.SetInterest(true)
		u, err := w.H.DialFrom("10.6.1.1:5001", "127.0.0.1:20000")
		if err != nil {
			vs.Fail("deadbackend: dial: %v", err)
			return
		}
		u.Write([]byte("anybody there?"))
		closed := vs.BlockFor("user-closed", 60*time.Second, func() bool { return u.PeerClosed() })
		vs.SetInterest(false)
		if !closed {
			vs.Fail("the proxy's local service refuses connections (enc=%v comp=%v): 60 s later the user's connection is still open — a tunnel that leads nowhere must be closed", enc, comp)
		}
		u.Close()
		w.Quiesce()
		w.StopAll()
	}
}

// retarget: a reload changes only where a proxy's traffic goes locally (localPort), nothing the server is told about.
// "A connection made to one proxy's public endpoint is bridged to that proxy's backend and to no other backend":
// after the reload that is the new backend.
func scRetarget(kind string) func(x *vs.Exec) {
	return func(x *vs.Exec) {
		defer sw.Guard()
		w := tw.New(x, sw.Opt{AllowPorts: sw.P(20000, 20003), UserConnTimeout: 5, HeartbeatTimeout: -1, TCPMuxPort: muxPort, HTTPSPort: httpsPort})
		w.StartBackend(8000, "echo")
		w.StartBackend(8001, "echo")
		mk := func(local int) v1.ProxyConfigurer {
			if kind == "stcp" {
				p := &v1.STCPProxyConfig{}
				p.Name, p.Type, p.LocalIP, p.LocalPort, p.Secretkey = "p", "stcp", "127.0.0.1", local, "k"
				return p
			}
			p := &v1.TCPProxyConfig{}
			p.Name, p.Type, p.LocalIP, p.LocalPort, p.RemotePort = "p", "tcp", "127.0.0.1", local, 20000
			return p
		}
		cl := w.StartClient("owner", "", []v1.ProxyConfigurer{mk(8000)}, nil, nil)
		if !w.AwaitRunning(cl, 30*time.Second, "p") {
			vs.Fail("setup: proxy not running")
			return
		}
		port := 20000
		if kind == "stcp" {
			v := &v1.STCPVisitorConfig{}
			v.Name, v.Type, v.ServerName, v.SecretKey, v.BindAddr, v.BindPort = "vp", "stcp", "p", "k", "127.0.0.1", 6000
			w.StartClient("visitor", "", nil, []v1.VisitorConfigurer{v}, nil)
			vs.Block("visitor-listening", func() bool { return w.H.TCPListenerOn(6000) != nil || x.Now() > 60*time.Second })
			port = 6000
		}
		probe := func(src, tag string) {
			u, err := w.H.DialFrom(src, fmt.Sprintf("127.0.0.1:%d", port))
			if err != nil {
				vs.Fail("retarget/%s %s: dial: %v", kind, tag, err)
				return
			}
			m := []byte("hello-" + tag)
			u.Write(m)
			buf := make([]byte, len(m))
			if _, idle, err := u.ReadFullOrIdle(buf); idle || err != nil {
				vs.Fail("retarget/%s %s: no echo (idle=%v err=%v)", kind, tag, idle, err)
			}
			u.Close()
		}
		probe("10.5.1.1:5001", "before")
		w.Quiesce()
		n0, n1 := len(w.Backends[8000].Conns), len(w.Backends[8001].Conns)
		np := mk(8001)
		np.Complete("")
		vs.SetInterest(true)
		if err := cl.Svc.UpdateAllConfigurer([]v1.ProxyConfigurer{np}, nil); err != nil {
			vs.Fail("reload: %v", err)
		}
		time.Sleep(40 * time.Second) // a changed proxy is closed and started again; give the start its retry interval
		vs.SetInterest(false)
		if !w.AwaitRunning(cl, 60*time.Second, "p") {
			vs.Fail("retarget/%s: proxy not running 100 s after the reload", kind)
		}
		probe("10.5.1.2:5002", "after")
		w.Quiesce()
		if d0, d1 := len(w.Backends[8000].Conns)-n0, len(w.Backends[8001].Conns)-n1; d0 != 0 || d1 != 1 {
			vs.Fail("retarget/%s: after the reload moved proxy p from local port 8000 to 8001, a user connection reached the old backend %d time(s) and the new backend %d time(s)", kind, d0, d1)
		}
		w.StopAll()
	}
}

func clipS(b []byte) string {
	if len(b) > 80 {
		b = b[len(b)-80:]
	}
	return string(b)
}

// split: the first bytes (CONNECT request / ClientHello) arrive split at every position.
func scSplit(kind string, pos int) func(x *vs.Exec) {
	return func(x *vs.Exec) {
		defer sw.Guard()
		c := tcase{kind: kind, lim: "none", dir: "both"}
		w, _, ok := setup(x, c, 1)
		if !ok {
			return
		}
		var first []byte
		port := muxPort
		if kind == "https" {
			first = clientHello(w, "p0.example.com")
			port = httpsPort
		} else {
			first = []byte("CONNECT p0.example.com:80 HTTP/1.1\r\nHost: p0.example.com:80\r\nUser-Agent: split-test\r\n\r\n")
		}
		if pos >= len(first) {
			vs.Observe("split beyond first message (%d >= %d)", pos, len(first))
			w.StopAll()
			return
		}
		u, err := w.H.DialFrom("10.3.0.1:7001", fmt.Sprintf("127.0.0.1:%d", port))
		if err != nil {
			vs.Fail("dial: %v", err)
			return
		}
		u.Write(first[:pos])
		w.Quiesce() // the server has consumed what is there and waits for more
		u.Write(first[pos:])
		marker := []byte("MARKER-after-the-sniffed-bytes")
		want := marker
		if kind == "tcpmux" {
			head, e := sw.ReadHTTPHead(u)
			if e != "" || !strings.HasPrefix(head, "HTTP/1.1 200") {
				vs.Fail("CONNECT split at %d: reply %q err %s", pos, head, e)
				return
			}
		} else {
			want = append(append([]byte{}, first...), marker...)
		}
		u.Write(marker)
		buf := make([]byte, len(want))
		if _, idle, err := u.ReadFullOrIdle(buf); idle || err != nil {
			vs.Fail("%s first bytes split at %d: echo not received (idle=%v err=%v)", kind, pos, idle, err)
		} else if !bytes.Equal(buf, want) {
			vs.Fail("%s first bytes split at %d: stream altered, equal prefix %d of %d", kind, pos, commonPrefix(buf, want), len(want))
		}
		u.Close()
		w.StopAll()
	}
}

func scenarios() {
	vs.ScenarioFactory = func(name string) *vs.Scenario {
		s := &vs.Scenario{Name: name, Horizon: 2000 * time.Second, MaxSteps: 5_000_000, NoEarlyTick: true, Watchdog: 3 * time.Minute, End: sw.StdEnd}
		f := strings.Split(name, "/")
		switch f[0] {
		case "tun":
			s.Body = scTunnel(parseCase(f))
		case "cross":
			s.Body = scCross(f[1])
		case "idle":
			s.Body = scIdle(f[1], f[2][0] == '1', f[2][1] == '1')
		case "retarget":
			s.Body = scRetarget(f[1])
		case "deadbackend":
			s.Body = scDeadBackend(f[1][0] == '1', f[1][1] == '1')
		case "split":
			var p int
			fmt.Sscanf(f[2], "%d", &p)
			s.Body = scSplit(f[1], p)
		default:
			return nil
		}
		return s
	}
}

func main() {
	c := drv.Setup("C01", "e1", "model_checking", scenarios)
	if c == nil {
		return
	}
	c.Rule("E1: real frps + real frpc (+ a real frpc as stcp visitor) on the virtual network and clock. Complete product of proxy kind {tcp, stcp via visitor, tcpmux CONNECT, https SNI} x encryption x compression x bandwidth limit {none, client, server} x PROXY protocol {-, v1, v2} x payload size x content x write chunking x direction x close order (quick: a fully enumerated sub-lattice, thorough: the full lattice), first bytes split at every position, a connection used again after 75 s of silence (kind x encryption x compression), a reload that moves a proxy to another local backend (tcp, stcp), a proxy whose local service refuses connections (the user's connection is closed), 2 proxies x 2 simultaneous connections under deviation-bounded DFS; non-trivial = distinct end state / observation trace")
	c.Assume("transport dimension kcp/quic/websocket/yamux/TLS is exercised with real sockets in C05/C02 parts, not here")
	pool := vs.GetPool(c.Workers)
	var names []string
	quick := c.Quick()
	kinds := []string{"tcp", "stcp", "tcpmux", "https"}
	lims := []string{"none", "client", "server"}
	pps := []string{"", "v1", "v2"}
	sizes := []int{0, 1, 2, 4095, 4096, 4097, 16383, 16385, 65537}
	contents := []string{"inc", "zero", "ascii"}
	chunkings := []string{"whole", "one", "pieces"}
	dirs := []string{"both", "up"}
	closers := []string{"user", "backend"}
	if quick {
		lims = []string{"none", "server"}
		pps = []string{"", "v2"}
		sizes = []int{0, 1, 16385, 65537}
		contents = []string{"inc"}
		chunkings = []string{"whole", "one"}
		dirs = []string{"both"}
	}
	for _, k := range kinds {
		for e := 0; e < 4; e++ {
			for _, l := range lims {
				for _, p := range pps {
					for _, sz := range sizes {
						for _, ct := range contents {
							for _, ch := range chunkings {
								for _, d := range dirs {
									for _, cl := range closers {
										if l != "none" && sz > 20000 && quick {
											continue // 64 KiB at 4 KiB/s: thorough only
										}
										names = append(names, tcase{k, e&1 == 1, e&2 == 2, l, p, sz, ct, ch, d, cl}.name())
									}
								}
							}
						}
					}
				}
			}
		}
	}
	if quick {
		// client-side limit x encryption x compression: incompressible and all-zero payloads
		for e := 0; e < 4; e++ {
			for _, ct := range []string{"inc", "zero"} {
				names = append(names, tcase{"tcp", e&1 == 1, e&2 == 2, "client", "", 16385, ct, "whole", "both", "user"}.name())
			}
		}
	}
	for _, k := range kinds {
		for _, ec := range []string{"00", "10", "01", "11"} {
			names = append(names, "idle/"+k+"/"+ec)
		}
	}
	names = append(names, "retarget/tcp", "retarget/stcp", "deadbackend/00", "deadbackend/10", "deadbackend/01", "deadbackend/11")
	maxSplit := drv.Pick(c, 40, 600)
	for pos := 1; pos <= maxSplit; pos++ {
		names = append(names, fmt.Sprintf("split/tcpmux/%d", pos), fmt.Sprintf("split/https/%d", pos))
	}
	for i := 0; i < len(names); i += 256 {
		if c.TimeUp() {
			c.Cap(fmt.Sprintf("lattice enumeration stopped by the budget after %d of %d cases", i, len(names)))
			break
		}
		j := i + 256
		if j > len(names) {
			j = len(names)
		}
		rs, err := pool.RunBatch(names[i:j], false)
		if err != nil {
			c.Cap("harness error: " + err.Error())
			break
		}
		for k := range rs {
			c.FoldExec(&rs[k])
		}
		if i == 0 {
			c.Sample(map[string]any{"cases": names[:3]})
		}
	}
	c.Note("lattice_cases", len(names))
	b := drv.Pick(c, 1, 2)
	ckinds := append(append([]string{}, kinds...), "tcpmuxwild")
	for i, k := range ckinds {
		c.ExploreBoth("cross/"+k, b, 1.0/float64(len(ckinds)-i))
	}
	c.Finish()
}
