package main

import (
	"bufio"
	"bytes"
	"fmt"
	"io"
	"net"
	"time"

	pp "github.com/pires/go-proxyproto"
	"github.com/samber/lo"

	v1 "github.com/fatedier/frp/pkg/config/v1"

	rw "verif/mc/worlds/realworld"
)

// The declared proxy-protocol header "carries the user's true source address": part e1 checks it for IPv4 users on the
// virtual network; here users reach a directly exposed tcp proxy over IPv4 and over IPv6 loopback on real sockets.
type ppcell struct {
	Version string `json:"proxyProtocolVersion"`
	Family  string `json:"user_address_family"`
	Mux     bool   `json:"tcpMux"`
	Enc     bool   `json:"enc"`
}

func runPP(c ppcell) (viol, inconclusive string) {
	host := lo.Ternary(c.Family == "ipv6", "::1", "127.0.0.1")
	srv, err := rw.StartServer(func(s *v1.ServerConfig) {
		s.Transport.TCPMux = lo.ToPtr(c.Mux)
		s.ProxyBindAddr = host
	})
	if err != nil {
		return "", "server: " + err.Error()
	}
	defer srv.Close()
	ln, err := net.Listen("tcp", "127.0.0.1:0")
	if err != nil {
		return "", err.Error()
	}
	defer ln.Close()
	type seen struct {
		hdr  *pp.Header
		err  error
		body []byte
	}
	got := make(chan seen, 4)
	go func() {
		for {
			conn, err := ln.Accept()
			if err != nil {
				return
			}
			go func() {
				defer conn.Close()
				br := bufio.NewReader(conn)
				_ = conn.SetReadDeadline(time.Now().Add(5 * time.Second))
				h, err := pp.Read(br)
				if err != nil {
					got <- seen{nil, err, nil}
					return
				}
				_ = conn.SetReadDeadline(time.Now().Add(5 * time.Second))
				buf := make([]byte, 11)
				_, err = io.ReadFull(br, buf)
				got <- seen{h, err, buf}
				_, _ = conn.Write(buf)
			}()
		}
	}()
	remote := rw.FreePort()
	px := &v1.TCPProxyConfig{}
	px.Name, px.Type = "pp", "tcp"
	px.LocalIP, px.LocalPort = "127.0.0.1", ln.Addr().(*net.TCPAddr).Port
	px.RemotePort = remote
	px.Transport.ProxyProtocolVersion = c.Version
	px.Transport.UseEncryption = c.Enc
	cl, err := rw.StartClient(srv, "", []v1.ProxyConfigurer{px}, nil, func(cc *v1.ClientCommonConfig) { cc.Transport.TCPMux = lo.ToPtr(c.Mux) })
	if err != nil {
		return "", "client: " + err.Error()
	}
	defer cl.Close()
	if !cl.WaitRunning(5*time.Second, "pp") {
		return "", "proxy did not start"
	}
	name := fmt.Sprintf("proxy protocol %s, user over %s, tcpMux=%v enc=%v", c.Version, c.Family, c.Mux, c.Enc)
	for i := 0; i < 2; i++ { // two users one after the other: distinct source ports
		u, err := net.DialTimeout("tcp", net.JoinHostPort(host, fmt.Sprint(remote)), 3*time.Second)
		if err != nil {
			return "", "user dial: " + err.Error()
		}
		payload := []byte(fmt.Sprintf("hello-pp-%02d", i))
		_, _ = u.Write(payload)
		var s seen
		select {
		case s = <-got:
		case <-time.After(8 * time.Second):
			u.Close()
			return name + ": the backend saw no connection within 8 s", ""
		}
		if s.hdr == nil {
			u.Close()
			return fmt.Sprintf("%s: the backend could not read a proxy-protocol header: %v", name, s.err), ""
		}
		ua := u.LocalAddr().(*net.TCPAddr)
		sa, _ := s.hdr.SourceAddr.(*net.TCPAddr)
		da, _ := s.hdr.DestinationAddr.(*net.TCPAddr)
		if sa == nil || !sa.IP.Equal(ua.IP) || sa.Port != ua.Port {
			u.Close()
			return fmt.Sprintf("%s: header names source %v, the user's address is %v", name, s.hdr.SourceAddr, ua), ""
		}
		if da == nil || da.Port != remote || !da.IP.Equal(net.ParseIP(host)) {
			u.Close()
			return fmt.Sprintf("%s: header names destination %v, the user connected to %s port %d", name, s.hdr.DestinationAddr, host, remote), ""
		}
		if want := lo.Ternary(c.Version == "v2", byte(2), byte(1)); s.hdr.Version != want {
			u.Close()
			return fmt.Sprintf("%s: header has version %d", name, s.hdr.Version), ""
		}
		if wantFam := lo.Ternary(c.Family == "ipv6", pp.TCPv6, pp.TCPv4); s.hdr.TransportProtocol != wantFam {
			u.Close()
			return fmt.Sprintf("%s: header announces address family / protocol %#x, expected %#x", name, byte(s.hdr.TransportProtocol), byte(wantFam)), ""
		}
		if s.err != nil || !bytes.Equal(s.body, payload) {
			u.Close()
			return fmt.Sprintf("%s: after the header the backend read %q (%v), the user wrote %q", name, s.body, s.err, payload), ""
		}
		_ = u.SetReadDeadline(time.Now().Add(5 * time.Second))
		back := make([]byte, len(payload))
		if _, err := io.ReadFull(u, back); err != nil || !bytes.Equal(back, payload) {
			u.Close()
			return fmt.Sprintf("%s: the user read %q (%v) back, the backend wrote %q", name, back, err, payload), ""
		}
		u.Close()
	}
	return "", ""
}
