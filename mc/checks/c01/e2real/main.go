// C01 (part e2real) — the transport dimension with real sockets on loopback:
// control transport {tcp, kcp, quic, websocket} x tcpMux x TLS x proxy kind {tcp, stcp} x payload shapes,
// real frps + real frpc in-process. The observable (bytes delivered, end-of-stream) does not depend on scheduling;
// a cell that does not come up within its budget is inconclusive, never a violation.
package main

import (
	"bytes"
	"encoding/json"
	"fmt"
	"io"
	"net"
	"sync"
	"time"

	"github.com/samber/lo"

	v1 "github.com/fatedier/frp/pkg/config/v1"

	"verif/mc/drv"
	rw "verif/mc/worlds/realworld"
)

type cell struct {
	Proto  string `json:"proto"`
	Mux    bool   `json:"mux"`
	TLS    bool   `json:"tls"`
	Kind   string `json:"kind"`
	Enc    bool   `json:"enc"`
	Comp   bool   `json:"comp"`
	Pool   int    `json:"pool"`
}

func payloads() map[string][]byte {
	inc := make([]byte, 300_000)
	x := uint32(88172645)
	for i := range inc {
		x ^= x << 13
		x ^= x >> 17
		x ^= x << 5
		inc[i] = byte(x)
	}
	return map[string][]byte{
		"empty": {}, "one": {0x42}, "ascii": bytes.Repeat([]byte("0123456789abcdef"), 1000),
		"zeros1M": make([]byte, 1<<20), "incompressible300K": inc, "justOver64K": inc[:65537],
	}
}

var payloadOrder = []string{"empty", "one", "ascii", "justOver64K", "incompressible300K", "zeros1M"}

// runCell returns ("", "") if all payloads were transparent; (violation, "") or ("", inconclusive-reason).
func runCell(c cell) (viol string, inconclusive string) {
	srv, err := rw.StartServer(func(s *v1.ServerConfig) {
		s.Transport.TCPMux = lo.ToPtr(c.Mux)
		switch c.Proto {
		case "kcp":
			s.KCPBindPort = rw.FreePort()
		case "quic":
			s.QUICBindPort = rw.FreePort()
		}
		s.AllowPorts = nil
	})
	if err != nil {
		return "", "server: " + err.Error()
	}
	defer srv.Close()
	be := rw.StartEcho()
	defer be.Close()
	remote := rw.FreePort()
	var proxies []v1.ProxyConfigurer
	var visitors []v1.VisitorConfigurer
	userPort := remote
	switch c.Kind {
	case "tcp":
		p := &v1.TCPProxyConfig{}
		p.Name, p.Type, p.LocalIP, p.LocalPort, p.RemotePort = "t", "tcp", "127.0.0.1", be.Port, remote
		p.Transport.UseEncryption, p.Transport.UseCompression = c.Enc, c.Comp
		proxies = append(proxies, p)
	case "stcp":
		p := &v1.STCPProxyConfig{}
		p.Name, p.Type, p.LocalIP, p.LocalPort, p.Secretkey = "t", "stcp", "127.0.0.1", be.Port, "sk"
		p.Transport.UseEncryption, p.Transport.UseCompression = c.Enc, c.Comp
		proxies = append(proxies, p)
		v := &v1.STCPVisitorConfig{}
		v.Name, v.Type, v.ServerName, v.SecretKey, v.BindAddr, v.BindPort = "tv", "stcp", "t", "sk", "127.0.0.1", remote
		v.Transport.UseEncryption, v.Transport.UseCompression = c.Comp, c.Enc
		visitors = append(visitors, v)
	}
	mut := func(cc *v1.ClientCommonConfig) {
		cc.Transport.Protocol = c.Proto
		cc.Transport.TCPMux = lo.ToPtr(c.Mux)
		cc.Transport.TLS.Enable = lo.ToPtr(c.TLS)
		cc.Transport.PoolCount = c.Pool
		switch c.Proto {
		case "kcp":
			cc.ServerPort = srv.Cfg.KCPBindPort
		case "quic":
			cc.ServerPort = srv.Cfg.QUICBindPort
		}
	}
	cl, err := rw.StartClient(srv, "", proxies, visitors, mut)
	if err != nil {
		return "", "client: " + err.Error()
	}
	defer cl.Close()
	if !cl.WaitRunning(8*time.Second, "t") {
		return "", "proxy did not come up within 8 s"
	}
	if !rw.WaitPort(userPort, 5*time.Second) {
		return "", "public/visitor port not listening"
	}
	for idx, name := range payloadOrder {
		data := payloads()[name]
		u, err := net.DialTimeout("tcp", fmt.Sprintf("127.0.0.1:%d", userPort), 3*time.Second)
		if err != nil {
			return "", "dial user port: " + err.Error()
		}
		_ = u.SetDeadline(time.Now().Add(40 * time.Second))
		got := make([]byte, len(data))
		var rerr error
		var wg sync.WaitGroup
		wg.Add(1)
		go func() {
			defer wg.Done()
			_, rerr = io.ReadFull(u, got) // both ends stay open: every written byte must come back
		}()
		for off := 0; off < len(data); off += 50_000 {
			end := off + 50_000
			if end > len(data) {
				end = len(data)
			}
			if _, err := u.Write(data[off:end]); err != nil {
				u.Close()
				wg.Wait()
				return fmt.Sprintf("payload %s: write failed after %d bytes: %v", name, off, err), ""
			}
		}
		wg.Wait()
		if rerr != nil {
			u.Close()
			if ne, ok := rerr.(net.Error); ok && ne.Timeout() {
				return "", fmt.Sprintf("payload %s: read timeout", name)
			}
			return fmt.Sprintf("payload %s: stream ended before all %d written bytes were echoed: %v", name, len(data), rerr), ""
		}
		if !bytes.Equal(got, data) {
			u.Close()
			n := 0
			for n < len(got) && n < len(data) && got[n] == data[n] {
				n++
			}
			return fmt.Sprintf("payload %s: echoed bytes differ from the %d written, equal prefix %d", name, len(data), n), ""
		}
		if c.Proto == "kcp" && !c.Mux {
			// a bare kcp session drops unsent segments on close: not a "reliable control transport" in the sense of the
			// property, so the finish-then-close clause is not demanded here (byte transparency above is)
			u.Close()
			continue
		}
		// the user finishes with a tail and closes at once: the backend (now only reading) must get everything, then end-of-stream
		tail := []byte("<<tail-written-right-before-close>>")
		u.Write(tail)
		u.Close()
		data = append(append([]byte{}, data...), tail...)
		// the backend connection that carried this payload must have received exactly what was written
		// (connections are matched by content: readiness probes also create backend connections)
		found := false
		best := 0
		for i := 0; i < 500 && !found; i++ {
			for k := 0; ; k++ {
				r := be.Received(k)
				if r == nil && k >= be.Count() {
					break
				}
				if bytes.Equal(r, data) {
					found = true
					break
				}
				if len(r) > best && bytes.HasPrefix(data, r) {
					best = len(r)
				}
			}
			if !found {
				time.Sleep(10 * time.Millisecond)
			}
		}
		if !found {
			return fmt.Sprintf("payload %s: no backend connection received the %d bytes the user wrote before closing (longest matching prefix %d)", name, len(data), best), ""
		}
		_ = idx
	}
	return "", ""
}

func main() {
	drv.E2Replayers["cell"] = func(raw json.RawMessage) string {
		var c cell
		if err := json.Unmarshal(raw, &c); err != nil {
			return "bad case: " + err.Error()
		}
		v, inc := runCell(c)
		if inc != "" {
			fmt.Println("inconclusive:", inc)
		}
		return v
	}
	drv.E2Replayers["pp"] = func(raw json.RawMessage) string {
		var c ppcell
		if err := json.Unmarshal(raw, &c); err != nil {
			return "bad case: " + err.Error()
		}
		v, _ := runPP(c)
		return v
	}
	c := drv.Setup("C01", "e2real", "model_checking", nil)
	if c == nil {
		return
	}
	c.Rule("complete product of control transport {tcp,kcp,quic,websocket} x tcpMux x TLS x proxy kind {tcp, stcp via visitor} x encryption x compression x pool size, each cell moving 6 payload shapes (0 B .. 1 MiB, incompressible, zero runs) through real frps+frpc on loopback and comparing what the user reads until end-of-stream and what the backend received with what was written; non-trivial = a cell that came up and moved all payloads")
	c.Assume("real sockets, real scheduler: outcome (bytes delivered, EOF) is schedule-independent; a cell that does not come up or times out is counted inconclusive")
	var cells []cell
	for _, proto := range []string{"tcp", "kcp", "quic", "websocket"} {
		for _, mux := range []bool{true, false} {
			for _, tls := range []bool{true, false} {
				if proto == "quic" && (!mux || !tls) {
					continue // quic is always multiplexed and encrypted
				}
				for _, kind := range []string{"tcp", "stcp"} {
					for ec := 0; ec < 4; ec++ {
						if c.Quick() && ec != 0 && ec != 3 {
							continue
						}
						pool := 0
						if ec == 3 {
							pool = 2
						}
						cells = append(cells, cell{proto, mux, tls, kind, ec&1 == 1, ec&2 == 2, pool})
					}
				}
			}
		}
	}
	type res struct {
		c    cell
		v, i string
	}
	out := make(chan res, len(cells))
	sem := make(chan struct{}, 8)
	var wg sync.WaitGroup
	for _, cl := range cells {
		wg.Add(1)
		go func(cl cell) {
			defer wg.Done()
			sem <- struct{}{}
			defer func() { <-sem }()
			if c.TimeUp() {
				out <- res{cl, "", "time budget"}
				return
			}
			v, i := runCell(cl)
			out <- res{cl, v, i}
		}(cl)
	}
	wg.Wait()
	close(out)
	inconclusive := 0
	for r := range out {
		key := fmt.Sprintf("%+v", r.c)
		if r.i != "" {
			inconclusive++
			c.Count("")
			c.Note("inconclusive:"+key, r.i)
			continue
		}
		c.Count(key)
		if r.v != "" {
			c.ViolateConfirmed("cell", "cell:"+key+":"+r.v, fmt.Sprintf("%+v: %s", r.c, r.v), r.c, 3)
		}
	}
	c.Rule("proxy-protocol header of a directly exposed tcp proxy: version {v1, v2} x user address family {IPv4, IPv6 loopback} x tcpMux x encryption, two users each: the header the backend reads names the user's real address and port, the address the user connected to, the configured version and the right family; the bytes after it are the user's")
	for _, ver := range []string{"v1", "v2"} {
		for _, fam := range []string{"ipv4", "ipv6"} {
			for _, mux := range []bool{true, false} {
				for _, enc := range []bool{false, true} {
					pc := ppcell{ver, fam, mux, enc}
					key := fmt.Sprintf("pp:%+v", pc)
					v, in := runPP(pc)
					if in != "" {
						inconclusive++
						c.Count("")
						c.Note("inconclusive:"+key, in)
						continue
					}
					c.Count(key)
					if v != "" {
						c.ViolateConfirmed("pp", key, v, pc, 3)
					}
				}
			}
		}
	}
	c.States(int64(len(cells)), int64(len(cells)*len(payloadOrder)))
	c.Sample(cells[0])
	c.Sample(cells[len(cells)-1])
	c.Note("cells", len(cells))
	c.Note("inconclusive_cells", inconclusive)
	if inconclusive > 0 {
		c.Cap(fmt.Sprintf("%d of %d cells inconclusive", inconclusive, len(cells)))
	}
	c.Finish()
}
