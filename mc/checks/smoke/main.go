package main

import (
	"fmt"
	"io"
	"os"
	"time"

	"github.com/fatedier/frp/pkg/msg"

	"verif/mc/vs"
	"verif/mc/worlds/srvworld"
)

func scenario() *vs.Scenario {
	return &vs.Scenario{
		Name:    "smoke",
		Horizon: 120 * time.Second,
		Body: func(x *vs.Exec) {
			w := srvworld.New(x, srvworld.Opt{})
			p, resp, err := w.Login("c1", srvworld.LoginOpt{User: "u1", PoolCount: 1})
			if err != nil {
				vs.Fail("login: %v %v", err, resp)
				return
			}
			p.OnReq = func(p *srvworld.Peer) {
				go func() {
					c, err := p.WorkConn(p.RunID, nil)
					if err != nil {
						return
					}
					var sw msg.StartWorkConn
					if err := msg.ReadMsgInto(c, &sw); err != nil {
						c.Close()
						return
					}
					vs.Observe("startwork proxy=%s src=%s:%d", sw.ProxyName, sw.SrcAddr, sw.SrcPort)
					buf := make([]byte, 64)
					for {
						n, err := c.Read(buf)
						if n > 0 {
							c.Write(buf[:n])
						}
						if err != nil {
							c.Close()
							return
						}
					}
				}()
			}
			r := p.NewProxy(&msg.NewProxy{ProxyName: "t1", ProxyType: "tcp", RemotePort: 20001})
			vs.Observe("newproxy %+v", r)
			vs.SetInterest(true)
			u, err := w.H.DialFrom("10.1.2.3:5555", "127.0.0.1:20001")
			if err != nil {
				vs.Fail("dial user: %v", err)
				return
			}
			u.Write([]byte("hello"))
			buf := make([]byte, 5)
			_, err = io.ReadFull(u, buf)
			vs.Observe("user got %q err=%v", buf, err)
			if string(buf) != "hello" {
				vs.Fail("echo mismatch %q", buf)
			}
			u.Close()
			vs.SetInterest(false)
			w.Quiesce()
			p.Cut()
			w.Quiesce()
			vs.Observe("dump:\n%s", w.Dump())
		},
		End: func(x *vs.Exec) string {
			w, _ := x.Data.(*srvworld.World)
			if w == nil {
				return "noworld"
			}
			s := w.Dump()
			for _, t := range x.Stuck() {
				s += fmt.Sprintf("stuck %s %s\n", t.Name, t.Pending())
			}
			for _, c := range w.H.OpenConns() {
				s += "open " + c.String() + "\n"
			}
			return s
		},
	}
}

func main() {
	vs.Register(scenario())
	if len(os.Args) > 1 && os.Args[1] == "-worker" {
		vs.WorkerMain(2000)
		return
	}
	if len(os.Args) > 1 && os.Args[1] == "-trace" {
		r := vs.Replay("smoke", nil)
		for _, l := range r.Trace {
			fmt.Println(l)
		}
		fmt.Println("END", r.EndWhy, r.HarnessE, r.Fails, r.Panics)
		fmt.Println(r.EndState)
		return
	}
	s := vs.Explore("smoke", vs.ExploreOpts{Bound: 1, Workers: 16})
	fmt.Printf("%+v\n", s)
}
