// gencert writes a self-signed ECDSA server certificate + CA used by the worlds.
package main

import (
	"crypto/ecdsa"
	"crypto/elliptic"
	"crypto/rand"
	"crypto/x509"
	"crypto/x509/pkix"
	"encoding/pem"
	"math/big"
	"net"
	"os"
	"path/filepath"
	"time"
)

func must(err error) {
	if err != nil {
		panic(err)
	}
}

func writePair(dir, name string, tmpl, parent *x509.Certificate, key *ecdsa.PrivateKey, signer *ecdsa.PrivateKey) {
	der, err := x509.CreateCertificate(rand.Reader, tmpl, parent, &key.PublicKey, signer)
	must(err)
	must(os.WriteFile(filepath.Join(dir, name+".crt"), pem.EncodeToMemory(&pem.Block{Type: "CERTIFICATE", Bytes: der}), 0o644))
	kb, err := x509.MarshalECPrivateKey(key)
	must(err)
	must(os.WriteFile(filepath.Join(dir, name+".key"), pem.EncodeToMemory(&pem.Block{Type: "EC PRIVATE KEY", Bytes: kb}), 0o600))
}

func main() {
	dir := os.Args[1]
	must(os.MkdirAll(dir, 0o755))
	if _, err := os.Stat(filepath.Join(dir, "server.crt")); err == nil {
		return
	}
	caKey, _ := ecdsa.GenerateKey(elliptic.P256(), rand.Reader)
	ca := &x509.Certificate{SerialNumber: big.NewInt(1), Subject: pkix.Name{CommonName: "verif-ca"}, NotBefore: time.Now().Add(-time.Hour),
		NotAfter: time.Now().AddDate(30, 0, 0), IsCA: true, KeyUsage: x509.KeyUsageCertSign | x509.KeyUsageDigitalSignature, BasicConstraintsValid: true}
	writePair(dir, "ca", ca, ca, caKey, caKey)
	mk := func(name, cn string, serial int64, client bool) {
		k, _ := ecdsa.GenerateKey(elliptic.P256(), rand.Reader)
		t := &x509.Certificate{SerialNumber: big.NewInt(serial), Subject: pkix.Name{CommonName: cn}, NotBefore: time.Now().Add(-time.Hour),
			NotAfter: time.Now().AddDate(30, 0, 0), KeyUsage: x509.KeyUsageDigitalSignature,
			ExtKeyUsage: []x509.ExtKeyUsage{x509.ExtKeyUsageServerAuth, x509.ExtKeyUsageClientAuth},
			DNSNames: []string{cn, "localhost"}, IPAddresses: []net.IP{net.IPv4(127, 0, 0, 1)}}
		writePair(dir, name, t, ca, k, caKey)
	}
	mk("server", "frps.example.com", 2, false)
	mk("client", "frpc.example.com", 3, true)
	// a second, unrelated CA and a certificate signed by it (for "other identity" cases)
	ca2Key, _ := ecdsa.GenerateKey(elliptic.P256(), rand.Reader)
	ca2 := &x509.Certificate{SerialNumber: big.NewInt(10), Subject: pkix.Name{CommonName: "other-ca"}, NotBefore: time.Now().Add(-time.Hour),
		NotAfter: time.Now().AddDate(30, 0, 0), IsCA: true, KeyUsage: x509.KeyUsageCertSign | x509.KeyUsageDigitalSignature, BasicConstraintsValid: true}
	writePair(dir, "ca2", ca2, ca2, ca2Key, ca2Key)
	k, _ := ecdsa.GenerateKey(elliptic.P256(), rand.Reader)
	t := &x509.Certificate{SerialNumber: big.NewInt(11), Subject: pkix.Name{CommonName: "evil.example.com"}, NotBefore: time.Now().Add(-time.Hour),
		NotAfter: time.Now().AddDate(30, 0, 0), KeyUsage: x509.KeyUsageDigitalSignature,
		ExtKeyUsage: []x509.ExtKeyUsage{x509.ExtKeyUsageServerAuth, x509.ExtKeyUsageClientAuth}, DNSNames: []string{"evil.example.com"}}
	writePair(dir, "other", t, ca2, k, ca2Key)
}
