// covinstr adds block counters (covrt.Hit) to the frp packages, on top of an overlay produced by instr (or none),
// and writes a new overlay plus a table index -> original file:line, kind, function. Side tool of bin/covcheck.
package main

import (
	"bytes"
	"encoding/json"
	"flag"
	"fmt"
	"go/ast"
	"go/parser"
	"go/printer"
	"go/token"
	"os"
	"os/exec"
	"path/filepath"
	"strconv"
	"strings"
)

type entry struct {
	File string `json:"file"`
	Line int    `json:"line"`
	Kind string `json:"kind"`
	Func string `json:"func"`
}

var (
	fset  = token.NewFileSet()
	table []entry
)

func die(f string, a ...any) { fmt.Fprintf(os.Stderr, "covinstr: "+f+"\n", a...); os.Exit(2) }

func main() {
	in := flag.String("overlay", "", "existing overlay.json (optional)")
	out := flag.String("out", "", "output directory")
	mod := flag.String("mod", ".", "module dir")
	flag.Parse()
	ov := map[string]string{}
	if *in != "" {
		var o struct{ Replace map[string]string }
		b, err := os.ReadFile(*in)
		if err != nil {
			die("%v", err)
		}
		if err := json.Unmarshal(b, &o); err != nil {
			die("%v", err)
		}
		ov = o.Replace
	}
	_ = os.MkdirAll(*out, 0o755)
	cmd := exec.Command("go", "list", "-json=ImportPath,Dir,GoFiles", "github.com/fatedier/frp/client/...", "github.com/fatedier/frp/server/...", "github.com/fatedier/frp/pkg/...")
	cmd.Dir = *mod
	cmd.Stderr = os.Stderr
	b, err := cmd.Output()
	if err != nil {
		die("go list: %v", err)
	}
	dec := json.NewDecoder(bytes.NewReader(b))
	n := 0
	for dec.More() {
		var p struct {
			ImportPath, Dir string
			GoFiles         []string
		}
		if err := dec.Decode(&p); err != nil {
			die("%v", err)
		}
		rel := strings.TrimPrefix(p.ImportPath, "github.com/fatedier/frp/")
		for _, f := range p.GoFiles {
			orig := filepath.Join(p.Dir, f)
			src := orig
			if r, ok := ov[orig]; ok {
				src = r
			}
			code, err := os.ReadFile(src)
			if err != nil {
				die("%v", err)
			}
			if bytes.Contains(code, []byte("//go:embed")) || bytes.Contains(code, []byte("import \"C\"")) {
				continue
			}
			af, err := parser.ParseFile(fset, src, code, parser.ParseComments)
			if err != nil {
				die("parse %s: %v", src, err)
			}
			before := len(table)
			instrument(af, rel+"/"+f)
			if len(table) == before {
				continue
			}
			var keep []*ast.CommentGroup
			for _, cg := range af.Comments {
				if cg.End() < af.Package {
					for _, c := range cg.List {
						if strings.HasPrefix(c.Text, "//go:build") || strings.HasPrefix(c.Text, "// +build") {
							keep = append(keep, &ast.CommentGroup{List: []*ast.Comment{c}})
						}
					}
				}
			}
			af.Comments = keep
			af.Doc = nil
			imp := &ast.GenDecl{Tok: token.IMPORT, Specs: []ast.Spec{&ast.ImportSpec{Name: ast.NewIdent("covrt"), Path: &ast.BasicLit{Kind: token.STRING, Value: strconv.Quote("verif/mc/covrt")}}}}
			af.Decls = append([]ast.Decl{imp}, af.Decls...)
			var buf bytes.Buffer
			pcfg := printer.Config{Mode: printer.SourcePos | printer.TabIndent, Tabwidth: 8}
			if err := pcfg.Fprint(&buf, fset, af); err != nil {
				die("print %s: %v", src, err)
			}
			n++
			dst := filepath.Join(*out, strings.ReplaceAll(rel, "/", "_")+"_"+f+".txt")
			if err := os.WriteFile(dst, buf.Bytes(), 0o644); err != nil {
				die("%v", err)
			}
			ov[orig] = dst
		}
	}
	ob, _ := json.MarshalIndent(map[string]any{"Replace": ov}, "", " ")
	_ = os.WriteFile(filepath.Join(*out, "overlay.json"), ob, 0o644)
	tb, _ := json.Marshal(table)
	_ = os.WriteFile(filepath.Join(*out, "table.json"), tb, 0o644)
	fmt.Printf("covinstr: %d files, %d blocks\n", n, len(table))
}

func hit(file, kind, fn string, pos token.Pos) ast.Stmt {
	p := fset.PositionFor(pos, true)
	table = append(table, entry{File: file, Line: p.Line, Kind: kind, Func: fn})
	return &ast.ExprStmt{X: &ast.CallExpr{Fun: &ast.SelectorExpr{X: ast.NewIdent("covrt"), Sel: ast.NewIdent("Hit")}, Args: []ast.Expr{&ast.BasicLit{Kind: token.INT, Value: strconv.Itoa(len(table) - 1)}}}}
}

func instrument(af *ast.File, file string) {
	for _, d := range af.Decls {
		fd, ok := d.(*ast.FuncDecl)
		if !ok || fd.Body == nil {
			continue
		}
		name := fd.Name.Name
		if fd.Recv != nil && len(fd.Recv.List) > 0 {
			t := fd.Recv.List[0].Type
			if s, ok := t.(*ast.StarExpr); ok {
				t = s.X
			}
			if ix, ok := t.(*ast.IndexExpr); ok {
				t = ix.X
			}
			if id, ok := t.(*ast.Ident); ok {
				name = id.Name + "." + name
			}
		}
		fd.Body.List = append([]ast.Stmt{hit(file, "func", name, fd.Body.Lbrace)}, fd.Body.List...)
		ast.Inspect(fd.Body, func(n ast.Node) bool {
			switch x := n.(type) {
			case *ast.FuncLit:
				x.Body.List = append([]ast.Stmt{hit(file, "lit", name, x.Body.Lbrace)}, x.Body.List...)
			case *ast.IfStmt:
				x.Body.List = append([]ast.Stmt{hit(file, "if", name, x.Body.Lbrace)}, x.Body.List...)
				if eb, ok := x.Else.(*ast.BlockStmt); ok {
					eb.List = append([]ast.Stmt{hit(file, "else", name, eb.Lbrace)}, eb.List...)
				}
			case *ast.ForStmt:
				x.Body.List = append([]ast.Stmt{hit(file, "for", name, x.Body.Lbrace)}, x.Body.List...)
			case *ast.RangeStmt:
				x.Body.List = append([]ast.Stmt{hit(file, "for", name, x.Body.Lbrace)}, x.Body.List...)
			case *ast.CaseClause:
				x.Body = append([]ast.Stmt{hit(file, "case", name, x.Case)}, x.Body...)
			case *ast.CommClause:
				x.Body = append([]ast.Stmt{hit(file, "case", name, x.Case)}, x.Body...)
			}
			return true
		})
	}
}
