// Command instr rewrites Go packages so that every goroutine start, channel
// operation, select, lock, timer and (optionally) socket call goes through the
// vs runtime, and writes a `go build -overlay` file mapping the original files
// to the rewritten copies. The originals are never modified.
package main

import (
	"bytes"
	"crypto/sha256"
	"encoding/hex"
	"encoding/json"
	"flag"
	"fmt"
	"go/ast"
	"go/importer"
	"go/parser"
	"go/printer"
	"go/token"
	"go/types"
	"io"
	"os"
	"os/exec"
	"path/filepath"
	"sort"
	"strings"
)

type PkgCfg struct {
	Import string   `json:"import"`
	Net    bool     `json:"net"`    // rewrite "net" -> vnet
	Ctx    bool     `json:"ctx"`    // rewrite "context" -> vctx
	Skip   []string `json:"skip"`   // file base names left untouched
	NoNet  []string `json:"nonet"`  // file base names where "net" stays real
	NoMaps bool     `json:"nomaps"` // no map access marks
}

type AddCfg struct {
	Pkg  string `json:"pkg"`
	File string `json:"file"`
}

type Config struct {
	Packages []PkgCfg `json:"packages"`
	Add      []AddCfg `json:"add"`
	Replace  map[string]string `json:"replace"` // extra raw overlay entries
}

type listPkg struct {
	ImportPath string
	Dir        string
	GoFiles    []string
	Export     string
	Standard   bool
}

const (
	vsPath   = "verif/mc/vs"
	vsName   = "vsrt"
	syncPath = "verif/mc/vs/vsync"
	timePath = "verif/mc/vs/vtime"
	netPath  = "verif/mc/vs/vnet"
	ctxPath  = "verif/mc/vs/vctx"
	randPath = "verif/mc/vs/vrand"
)

var (
	fset    = token.NewFileSet()
	exports = map[string]string{}
	pkgs    = map[string]*listPkg{}
	warns   []string
)

func die(f string, a ...any) {
	fmt.Fprintf(os.Stderr, "instr: "+f+"\n", a...)
	os.Exit(2)
}

func main() {
	cfgPath := flag.String("cfg", "", "config json")
	out := flag.String("out", "", "output directory")
	modDir := flag.String("mod", ".", "module directory to run go list in")
	flag.Parse()
	raw, err := os.ReadFile(*cfgPath)
	if err != nil {
		die("%v", err)
	}
	var cfg Config
	if err := json.Unmarshal(raw, &cfg); err != nil {
		die("config: %v", err)
	}
	if err := os.MkdirAll(*out, 0o755); err != nil {
		die("%v", err)
	}
	var paths []string
	for _, p := range cfg.Packages {
		paths = append(paths, p.Import)
	}
	for _, a := range cfg.Add {
		paths = append(paths, a.Pkg)
	}
	goList(*modDir, paths)

	overlay := map[string]string{}
	for k, v := range cfg.Replace {
		overlay[k] = v
	}
	for _, pc := range cfg.Packages {
		lp := pkgs[pc.Import]
		if lp == nil {
			die("package %s not found by go list", pc.Import)
		}
		instrumentPkg(pc, lp, *out, overlay)
	}
	for _, a := range cfg.Add {
		lp := pkgs[a.Pkg]
		if lp == nil {
			die("package %s (add) not found", a.Pkg)
		}
		dst := filepath.Join(lp.Dir, "zz_verif_"+strings.TrimSuffix(filepath.Base(a.File), ".txt"))
		if !strings.HasSuffix(dst, ".go") {
			dst += ".go"
		}
		overlay[dst] = a.File
	}
	b, _ := json.MarshalIndent(map[string]any{"Replace": overlay}, "", " ")
	if err := os.WriteFile(filepath.Join(*out, "overlay.json"), b, 0o644); err != nil {
		die("%v", err)
	}
	sort.Strings(warns)
	_ = os.WriteFile(filepath.Join(*out, "warnings.txt"), []byte(strings.Join(warns, "\n")+"\n"), 0o644)
}

func goList(dir string, paths []string) {
	args := append([]string{"list", "-export", "-deps", "-json=ImportPath,Dir,GoFiles,Export,Standard"}, paths...)
	cmd := exec.Command("go", args...)
	cmd.Dir = dir
	cmd.Stderr = os.Stderr
	outb, err := cmd.Output()
	if err != nil {
		die("go list failed: %v", err)
	}
	dec := json.NewDecoder(bytes.NewReader(outb))
	for dec.More() {
		var p listPkg
		if err := dec.Decode(&p); err != nil {
			die("go list json: %v", err)
		}
		pp := p
		pkgs[p.ImportPath] = &pp
		if p.Export != "" {
			exports[p.ImportPath] = p.Export
		}
	}
}

func lookupExport(path string) (io.ReadCloser, error) {
	f, ok := exports[path]
	if !ok {
		return nil, fmt.Errorf("no export data for %q", path)
	}
	return os.Open(f)
}

func contains(l []string, s string) bool {
	for _, x := range l {
		if x == s {
			return true
		}
	}
	return false
}

func instrumentPkg(pc PkgCfg, lp *listPkg, out string, overlay map[string]string) {
	var files []*ast.File
	var names []string
	for _, f := range lp.GoFiles {
		full := filepath.Join(lp.Dir, f)
		af, err := parser.ParseFile(fset, full, nil, parser.ParseComments)
		if err != nil {
			die("parse %s: %v", full, err)
		}
		files = append(files, af)
		names = append(names, full)
	}
	info := &types.Info{
		Types: map[ast.Expr]types.TypeAndValue{},
		Uses:  map[*ast.Ident]types.Object{},
		Defs:  map[*ast.Ident]types.Object{},
	}
	imp := importer.ForCompiler(fset, "gc", lookupExport)
	conf := types.Config{Importer: imp, Error: func(err error) {}}
	_, err := conf.Check(lp.ImportPath, fset, files, info)
	if err != nil {
		die("type-check %s: %v (the edited tree does not compile?)", lp.ImportPath, err)
	}
	sub := filepath.Join(out, strings.NewReplacer("/", "_", "@", "_", ".", "_").Replace(lp.ImportPath))
	_ = os.MkdirAll(sub, 0o755)
	for i, af := range files {
		base := filepath.Base(names[i])
		if contains(pc.Skip, base) {
			continue
		}
		r := &rewriter{info: info, file: af, pc: pc, fname: names[i], doNet: pc.Net && !contains(pc.NoNet, base)}
		r.run()
		if !r.changed {
			continue
		}
		var buf bytes.Buffer
		// keep only build constraints from the comments
		var keep []*ast.CommentGroup
		for _, cg := range af.Comments {
			if cg.End() < af.Package {
				for _, c := range cg.List {
					if strings.HasPrefix(c.Text, "//go:build") || strings.HasPrefix(c.Text, "// +build") {
						keep = append(keep, &ast.CommentGroup{List: []*ast.Comment{c}})
					}
				}
			}
		}
		af.Comments = keep
		af.Doc = nil
		pcfg := printer.Config{Mode: printer.SourcePos | printer.TabIndent, Tabwidth: 8}
		if err := pcfg.Fprint(&buf, fset, af); err != nil {
			die("print %s: %v", names[i], err)
		}
		sum := sha256.Sum256(buf.Bytes())
		dst := filepath.Join(sub, strings.TrimSuffix(base, ".go")+"_"+hex.EncodeToString(sum[:4])+".go.txt")
		if old, err := os.ReadFile(dst); err != nil || !bytes.Equal(old, buf.Bytes()) {
			if err := os.WriteFile(dst, buf.Bytes(), 0o644); err != nil {
				die("%v", err)
			}
		}
		overlay[names[i]] = dst
	}
}

type rewriter struct {
	info    *types.Info
	file    *ast.File
	pc      PkgCfg
	fname   string
	doNet   bool
	changed bool
	needVS  bool
	tmp     int
}

func (r *rewriter) warn(n ast.Node, f string, a ...any) {
	warns = append(warns, fmt.Sprintf("%s: %s", fset.Position(n.Pos()), fmt.Sprintf(f, a...)))
}

func (r *rewriter) fresh(p string) *ast.Ident {
	r.tmp++
	return ast.NewIdent(fmt.Sprintf("_vs%s%d", p, r.tmp))
}

func vsCall(fn string, args ...ast.Expr) *ast.CallExpr {
	return &ast.CallExpr{Fun: &ast.SelectorExpr{X: ast.NewIdent(vsName), Sel: ast.NewIdent(fn)}, Args: args}
}

func (r *rewriter) run() {
	// imports
	for _, is := range r.file.Imports {
		path := strings.Trim(is.Path.Value, `"`)
		var np, defName string
		switch path {
		case "sync":
			np, defName = syncPath, "sync"
		case "time":
			np, defName = timePath, "time"
		case "net":
			if r.doNet {
				np, defName = netPath, "net"
			}
		case "context":
			if r.pc.Ctx {
				np, defName = ctxPath, "context"
			}
		case "math/rand/v2":
			np, defName = randPath, "rand"
		}
		if np != "" {
			is.Path = &ast.BasicLit{Kind: token.STRING, Value: `"` + np + `"`, ValuePos: is.Path.ValuePos}
			if is.Name == nil {
				is.Name = ast.NewIdent(defName)
			}
			r.changed = true
		}
	}
	for _, d := range r.file.Decls {
		if fd, ok := d.(*ast.FuncDecl); ok && fd.Body != nil {
			r.block(fd.Body)
		} else if gd, ok := d.(*ast.GenDecl); ok {
			for _, s := range gd.Specs {
				if vs, ok := s.(*ast.ValueSpec); ok {
					for i := range vs.Values {
						vs.Values[i] = r.expr(vs.Values[i])
					}
				}
			}
		}
	}
	if r.needVS {
		r.changed = true
		spec := &ast.ImportSpec{Name: ast.NewIdent(vsName), Path: &ast.BasicLit{Kind: token.STRING, Value: `"` + vsPath + `"`}}
		r.file.Decls = append([]ast.Decl{&ast.GenDecl{Tok: token.IMPORT, Specs: []ast.Spec{spec}}}, r.file.Decls...)
		r.file.Imports = append(r.file.Imports, spec)
	}
}

func (r *rewriter) block(b *ast.BlockStmt) {
	if b == nil {
		return
	}
	b.List = r.stmts(b.List)
}

func (r *rewriter) stmts(list []ast.Stmt) []ast.Stmt {
	var out []ast.Stmt
	for _, s := range list {
		out = append(out, r.stmt(s)...)
	}
	return out
}

func (r *rewriter) one(s ast.Stmt) ast.Stmt {
	if s == nil {
		return nil
	}
	l := r.stmt(s)
	if len(l) == 1 {
		return l[0]
	}
	return &ast.BlockStmt{List: l}
}

func (r *rewriter) typeOf(e ast.Expr) types.Type {
	if tv, ok := r.info.Types[e]; ok {
		return tv.Type
	}
	if id, ok := e.(*ast.Ident); ok {
		if o := r.info.Uses[id]; o != nil {
			return o.Type()
		}
		if o := r.info.Defs[id]; o != nil {
			return o.Type()
		}
	}
	return nil
}

func isChan(t types.Type) bool {
	if t == nil {
		return false
	}
	_, ok := t.Underlying().(*types.Chan)
	return ok
}

func isMap(t types.Type) bool {
	if t == nil {
		return false
	}
	_, ok := t.Underlying().(*types.Map)
	return ok
}

func pure(e ast.Expr) bool {
	switch v := e.(type) {
	case *ast.Ident:
		return true
	case *ast.SelectorExpr:
		return pure(v.X)
	case *ast.ParenExpr:
		return pure(v.X)
	case *ast.StarExpr:
		return pure(v.X)
	case *ast.BasicLit:
		return true
	}
	return false
}

func (r *rewriter) stmt(s ast.Stmt) []ast.Stmt {
	switch v := s.(type) {
	case *ast.GoStmt:
		return r.goStmt(v)
	case *ast.SendStmt:
		r.needVS = true
		v.Chan = vsCall("S", r.expr(v.Chan))
		v.Value = r.expr(v.Value)
		return []ast.Stmt{v, &ast.ExprStmt{X: vsCall("Post")}}
	case *ast.SelectStmt:
		return []ast.Stmt{r.selectStmt(v, nil)}
	case *ast.LabeledStmt:
		if sel, ok := v.Stmt.(*ast.SelectStmt); ok {
			return []ast.Stmt{r.selectStmt(sel, v.Label)}
		}
		inner := r.stmt(v.Stmt)
		if len(inner) == 1 {
			v.Stmt = inner[0]
			return []ast.Stmt{v}
		}
		// statements hoisted in front of a labeled loop stay in front of the label
		v.Stmt = inner[len(inner)-1]
		return append(inner[:len(inner)-1], v)
	case *ast.BlockStmt:
		r.block(v)
	case *ast.IfStmt:
		v.Init = r.simple(v.Init)
		v.Cond = r.expr(v.Cond)
		r.block(v.Body)
		if v.Else != nil {
			v.Else = r.one(v.Else)
		}
	case *ast.ForStmt:
		v.Init = r.simple(v.Init)
		if v.Cond != nil {
			v.Cond = r.expr(v.Cond)
		}
		v.Post = r.simple(v.Post)
		r.block(v.Body)
	case *ast.RangeStmt:
		return r.rangeStmt(v)
	case *ast.SwitchStmt:
		v.Init = r.simple(v.Init)
		if v.Tag != nil {
			v.Tag = r.expr(v.Tag)
		}
		for _, c := range v.Body.List {
			cc := c.(*ast.CaseClause)
			for i := range cc.List {
				cc.List[i] = r.expr(cc.List[i])
			}
			cc.Body = r.stmts(cc.Body)
		}
	case *ast.TypeSwitchStmt:
		v.Init = r.simple(v.Init)
		v.Assign = r.simple(v.Assign)
		for _, c := range v.Body.List {
			cc := c.(*ast.CaseClause)
			cc.Body = r.stmts(cc.Body)
		}
	case *ast.ExprStmt:
		v.X = r.expr(v.X)
	case *ast.AssignStmt:
		return []ast.Stmt{r.assign(v)}
	case *ast.ReturnStmt:
		for i := range v.Results {
			v.Results[i] = r.expr(v.Results[i])
		}
	case *ast.DeferStmt:
		v.Call = r.expr(v.Call).(*ast.CallExpr)
	case *ast.DeclStmt:
		if gd, ok := v.Decl.(*ast.GenDecl); ok {
			for _, sp := range gd.Specs {
				if vs, ok := sp.(*ast.ValueSpec); ok {
					if len(vs.Names) == 2 && len(vs.Values) == 1 {
						if u, ok := vs.Values[0].(*ast.UnaryExpr); ok && u.Op == token.ARROW {
							r.needVS = true
							vs.Values[0] = vsCall("Recv2", r.expr(u.X))
							continue
						}
					}
					for i := range vs.Values {
						vs.Values[i] = r.expr(vs.Values[i])
					}
				}
			}
		}
	case *ast.IncDecStmt:
		v.X = r.lhs(v.X)
	}
	return []ast.Stmt{s}
}

func (r *rewriter) simple(s ast.Stmt) ast.Stmt {
	if s == nil {
		return nil
	}
	if _, ok := s.(*ast.SendStmt); ok {
		die("%s: send statement in a simple-statement position is not supported", fset.Position(s.Pos()))
	}
	l := r.stmt(s)
	if len(l) != 1 {
		die("%s: statement expanded in a simple-statement position", fset.Position(s.Pos()))
	}
	return l[0]
}

func (r *rewriter) assign(v *ast.AssignStmt) ast.Stmt {
	if len(v.Lhs) == 2 && len(v.Rhs) == 1 {
		if u, ok := v.Rhs[0].(*ast.UnaryExpr); ok && u.Op == token.ARROW {
			r.needVS = true
			v.Rhs[0] = vsCall("Recv2", r.expr(u.X))
			for i := range v.Lhs {
				v.Lhs[i] = r.lhs(v.Lhs[i])
			}
			return v
		}
	}
	for i := range v.Rhs {
		v.Rhs[i] = r.expr(v.Rhs[i])
	}
	for i := range v.Lhs {
		v.Lhs[i] = r.lhs(v.Lhs[i])
	}
	return v
}

// lhs rewrites an expression in assignment position (map index => write mark).
func (r *rewriter) lhs(e ast.Expr) ast.Expr {
	if ix, ok := e.(*ast.IndexExpr); ok {
		if r.isFieldMap(ix.X) {
			r.needVS = true
			ix.X = vsCall("MW", r.expr(ix.X))
			ix.Index = r.expr(ix.Index)
			return ix
		}
	}
	return r.expr(e)
}

func (r *rewriter) isFieldMap(e ast.Expr) bool {
	if r.pc.NoMaps {
		return false
	}
	se, ok := e.(*ast.SelectorExpr)
	if !ok {
		return false
	}
	if !isMap(r.typeOf(e)) {
		return false
	}
	// must be a field selection (not a package-qualified identifier)
	if id, ok := se.X.(*ast.Ident); ok {
		if _, isPkg := r.info.Uses[id].(*types.PkgName); isPkg {
			return false
		}
	}
	return true
}

func (r *rewriter) isBuiltin(fun ast.Expr, name string) bool {
	id, ok := fun.(*ast.Ident)
	if !ok || id.Name != name {
		return false
	}
	_, isB := r.info.Uses[id].(*types.Builtin)
	return isB
}

func (r *rewriter) expr(e ast.Expr) ast.Expr {
	switch v := e.(type) {
	case nil:
		return nil
	case *ast.UnaryExpr:
		if v.Op == token.ARROW {
			r.needVS = true
			return vsCall("Recv", r.expr(v.X))
		}
		v.X = r.expr(v.X)
	case *ast.BinaryExpr:
		v.X = r.expr(v.X)
		v.Y = r.expr(v.Y)
	case *ast.CallExpr:
		if r.isBuiltin(v.Fun, "close") && len(v.Args) == 1 {
			r.needVS = true
			return vsCall("Close", r.expr(v.Args[0]))
		}
		if r.isBuiltin(v.Fun, "delete") && len(v.Args) == 2 && r.isFieldMap(v.Args[0]) {
			r.needVS = true
			v.Args[0] = vsCall("MW", r.expr(v.Args[0]))
			v.Args[1] = r.expr(v.Args[1])
			return v
		}
		if r.isBuiltin(v.Fun, "len") && len(v.Args) == 1 && r.isFieldMap(v.Args[0]) {
			r.needVS = true
			v.Args[0] = vsCall("MR", r.expr(v.Args[0]))
			return v
		}
		v.Fun = r.expr(v.Fun)
		for i := range v.Args {
			v.Args[i] = r.expr(v.Args[i])
		}
	case *ast.ParenExpr:
		v.X = r.expr(v.X)
	case *ast.SelectorExpr:
		v.X = r.expr(v.X)
	case *ast.IndexExpr:
		if r.isFieldMap(v.X) {
			r.needVS = true
			v.X = vsCall("MR", r.expr(v.X))
		} else {
			v.X = r.expr(v.X)
		}
		v.Index = r.expr(v.Index)
	case *ast.SliceExpr:
		v.X = r.expr(v.X)
		v.Low, v.High, v.Max = r.expr(v.Low), r.expr(v.High), r.expr(v.Max)
	case *ast.StarExpr:
		v.X = r.expr(v.X)
	case *ast.TypeAssertExpr:
		v.X = r.expr(v.X)
	case *ast.KeyValueExpr:
		v.Value = r.expr(v.Value)
	case *ast.CompositeLit:
		for i := range v.Elts {
			v.Elts[i] = r.expr(v.Elts[i])
		}
	case *ast.FuncLit:
		r.block(v.Body)
	}
	return e
}

func (r *rewriter) goStmt(g *ast.GoStmt) []ast.Stmt {
	r.needVS = true
	call := g.Call
	var pre []ast.Stmt
	// bind arguments at go time
	for i, orig := range call.Args {
		tv, known := r.info.Types[orig]
		a := r.expr(orig)
		_, isLit := a.(*ast.BasicLit)
		_, isFn := a.(*ast.FuncLit)
		if isLit || isFn || (known && (tv.Value != nil || tv.IsNil())) {
			call.Args[i] = a
			continue
		}
		tmp := r.fresh("g")
		pre = append(pre, &ast.AssignStmt{Lhs: []ast.Expr{tmp}, Tok: token.DEFINE, Rhs: []ast.Expr{a}})
		call.Args[i] = tmp
	}
	switch f := call.Fun.(type) {
	case *ast.FuncLit:
		r.block(f.Body)
	case *ast.Ident:
	default:
		fe := r.expr(call.Fun)
		tmp := r.fresh("f")
		pre = append(pre, &ast.AssignStmt{Lhs: []ast.Expr{tmp}, Tok: token.DEFINE, Rhs: []ast.Expr{fe}})
		call.Fun = tmp
	}
	body := &ast.FuncLit{Type: &ast.FuncType{Params: &ast.FieldList{}}, Body: &ast.BlockStmt{List: []ast.Stmt{&ast.ExprStmt{X: call}}}}
	st := &ast.ExprStmt{X: vsCall("Go", body)}
	if len(pre) == 0 {
		return []ast.Stmt{st}
	}
	return []ast.Stmt{&ast.BlockStmt{List: append(pre, st)}}
}

func hasLabels(n ast.Node) bool {
	found := false
	ast.Inspect(n, func(x ast.Node) bool {
		if _, ok := x.(*ast.LabeledStmt); ok {
			found = true
		}
		return !found
	})
	return found
}

func (r *rewriter) selectStmt(s *ast.SelectStmt, label *ast.Ident) ast.Stmt {
	r.needVS = true
	var pre []ast.Stmt
	var cases []ast.Expr
	var clauses []ast.Stmt
	hasDefault := false
	// keep a copy of the original for pass-through mode (bodies are shared after rewriting)
	var origClauses []ast.Stmt
	idx := 0
	for _, c := range s.Body.List {
		cc := c.(*ast.CommClause)
		cc.Body = r.stmts(cc.Body)
		if cc.Comm == nil {
			hasDefault = true
			clauses = append(clauses, &ast.CaseClause{List: []ast.Expr{&ast.UnaryExpr{Op: token.SUB, X: &ast.BasicLit{Kind: token.INT, Value: "1"}}}, Body: cc.Body})
			origClauses = append(origClauses, &ast.CommClause{Body: cc.Body})
			continue
		}
		var native ast.Stmt
		var origComm ast.Stmt
		switch cm := cc.Comm.(type) {
		case *ast.SendStmt:
			ch := r.fresh("c")
			pre = append(pre, &ast.AssignStmt{Lhs: []ast.Expr{ch}, Tok: token.DEFINE, Rhs: []ast.Expr{r.expr(cm.Chan)}})
			val := r.expr(cm.Value)
			if !pure(val) {
				if tv, ok := r.info.Types[cm.Value]; !ok || tv.Value == nil {
					if _, isLit := val.(*ast.CompositeLit); !isLit {
						tv := r.fresh("v")
						pre = append(pre, &ast.AssignStmt{Lhs: []ast.Expr{tv}, Tok: token.DEFINE, Rhs: []ast.Expr{val}})
						val = tv
					}
				}
			}
			cases = append(cases, vsCall("CS", ch))
			native = &ast.SendStmt{Chan: ch, Value: val}
			origComm = &ast.SendStmt{Chan: ch, Value: val}
		case *ast.ExprStmt:
			u := unparen(cm.X).(*ast.UnaryExpr)
			ch := r.fresh("c")
			pre = append(pre, &ast.AssignStmt{Lhs: []ast.Expr{ch}, Tok: token.DEFINE, Rhs: []ast.Expr{r.expr(u.X)}})
			cases = append(cases, vsCall("CR", ch))
			native = &ast.ExprStmt{X: &ast.UnaryExpr{Op: token.ARROW, X: ch}}
			origComm = &ast.ExprStmt{X: &ast.UnaryExpr{Op: token.ARROW, X: ch}}
		case *ast.AssignStmt:
			u := unparen(cm.Rhs[0]).(*ast.UnaryExpr)
			ch := r.fresh("c")
			pre = append(pre, &ast.AssignStmt{Lhs: []ast.Expr{ch}, Tok: token.DEFINE, Rhs: []ast.Expr{r.expr(u.X)}})
			cases = append(cases, vsCall("CR", ch))
			native = &ast.AssignStmt{Lhs: cm.Lhs, Tok: cm.Tok, Rhs: []ast.Expr{&ast.UnaryExpr{Op: token.ARROW, X: ch}}}
			origComm = &ast.AssignStmt{Lhs: cm.Lhs, Tok: cm.Tok, Rhs: []ast.Expr{&ast.UnaryExpr{Op: token.ARROW, X: ch}}}
		default:
			die("%s: unsupported comm clause", fset.Position(cc.Pos()))
		}
		body := append([]ast.Stmt{native, &ast.ExprStmt{X: vsCall("Post")}}, cc.Body...)
		clauses = append(clauses, &ast.CaseClause{List: []ast.Expr{&ast.BasicLit{Kind: token.INT, Value: fmt.Sprint(idx)}}, Body: body})
		origClauses = append(origClauses, &ast.CommClause{Comm: origComm, Body: cc.Body})
		idx++
	}
	hd := "false"
	if hasDefault {
		hd = "true"
	}
	// pass-through clause: the original select on the hoisted channels
	if !hasLabels(s) {
		clauses = append(clauses, &ast.CaseClause{
			List: []ast.Expr{&ast.UnaryExpr{Op: token.SUB, X: &ast.BasicLit{Kind: token.INT, Value: "2"}}},
			Body: []ast.Stmt{&ast.SelectStmt{Body: &ast.BlockStmt{List: origClauses}}},
		})
	} else {
		r.warn(s, "select with labels inside: no pass-through clause")
	}
	clauses = append(clauses, &ast.CaseClause{Body: []ast.Stmt{&ast.ExprStmt{X: &ast.CallExpr{Fun: ast.NewIdent("panic"), Args: []ast.Expr{&ast.BasicLit{Kind: token.STRING, Value: `"vs: impossible select result"`}}}}}})
	sw := &ast.SwitchStmt{
		Tag:  vsCall("Select", append([]ast.Expr{ast.NewIdent(hd)}, cases...)...),
		Body: &ast.BlockStmt{List: clauses},
	}
	var swStmt ast.Stmt = sw
	if label != nil {
		swStmt = &ast.LabeledStmt{Label: label, Stmt: sw}
	}
	return &ast.BlockStmt{List: append(pre, swStmt)}
}

func unparen(e ast.Expr) ast.Expr {
	for {
		p, ok := e.(*ast.ParenExpr)
		if !ok {
			return e
		}
		e = p.X
	}
}

func isBlank(e ast.Expr) bool {
	id, ok := e.(*ast.Ident)
	return ok && id.Name == "_"
}

func (r *rewriter) rangeStmt(v *ast.RangeStmt) []ast.Stmt {
	t := r.typeOf(v.X)
	switch {
	case isChan(t):
		r.needVS = true
		v.X = vsCall("RangeCh", r.expr(v.X))
		r.block(v.Body)
		return []ast.Stmt{v}
	case isMap(t):
		r.needVS = true
		mt := t.Underlying().(*types.Map)
		if _, isPtr := mt.Key().Underlying().(*types.Pointer); isPtr {
			r.warn(v, "range over pointer-keyed map: iteration order is by first-seen sequence")
		}
		r.block(v.Body)
		var pre []ast.Stmt
		m := v.X
		field := r.isFieldMap(m)
		m = r.expr(m)
		if !pure(m) {
			tmp := r.fresh("m")
			pre = append(pre, &ast.AssignStmt{Lhs: []ast.Expr{tmp}, Tok: token.DEFINE, Rhs: []ast.Expr{m}})
			m = tmp
		}
		var keysArg ast.Expr = m
		if field {
			keysArg = vsCall("MR", m)
		}
		k := r.fresh("k")
		var head []ast.Stmt
		needVal := v.Value != nil && !isBlank(v.Value)
		needKey := v.Key != nil && !isBlank(v.Key)
		val := r.fresh("e")
		ok := r.fresh("ok")
		var valLhs ast.Expr = ast.NewIdent("_")
		if needVal {
			valLhs = val
		}
		head = append(head, &ast.AssignStmt{Lhs: []ast.Expr{valLhs, ok}, Tok: token.DEFINE, Rhs: []ast.Expr{&ast.IndexExpr{X: m, Index: k}}})
		head = append(head, &ast.IfStmt{Cond: &ast.UnaryExpr{Op: token.NOT, X: ok}, Body: &ast.BlockStmt{List: []ast.Stmt{&ast.BranchStmt{Tok: token.CONTINUE}}}})
		if needKey {
			head = append(head, &ast.AssignStmt{Lhs: []ast.Expr{v.Key}, Tok: v.Tok, Rhs: []ast.Expr{k}})
		}
		if needVal {
			head = append(head, &ast.AssignStmt{Lhs: []ast.Expr{v.Value}, Tok: v.Tok, Rhs: []ast.Expr{val}})
		}
		v.Key = ast.NewIdent("_")
		v.Value = k
		v.Tok = token.DEFINE
		v.X = vsCall("MapKeys", keysArg)
		v.Body.List = append(head, v.Body.List...)
		return append(pre, v)
	}
	v.X = r.expr(v.X)
	r.block(v.Body)
	return []ast.Stmt{v}
}
