// Package quiet silences frp's logger (import for side effect).
package quiet

import (
	"io"

	golog "github.com/fatedier/golib/log"

	"github.com/fatedier/frp/pkg/util/log"
)

func init() {
	log.Logger = log.Logger.WithOptions(golog.WithOutput(io.Discard), golog.WithLevel(golog.ErrorLevel))
}
