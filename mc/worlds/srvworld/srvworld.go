// Package srvworld is the closed E1 world around a real frps: the real
// server.Service running on the virtual network, scripted peers speaking the
// real wire protocol, and canonical dumps of the server's private tables.
//
// This package is itself processed by the rewriter, so plain `go`, channels,
// sync and time here are scheduler-visible.
package srvworld

import (
	"context"
	"fmt"
	"io"
	"net"
	"os"
	"reflect"
	"sort"
	"strings"
	"time"

	golog "github.com/fatedier/golib/log"
	"github.com/samber/lo"

	"github.com/fatedier/frp/pkg/config/types"
	v1 "github.com/fatedier/frp/pkg/config/v1"
	"github.com/fatedier/frp/pkg/msg"
	"github.com/fatedier/frp/pkg/util/log"
	netpkg "github.com/fatedier/frp/pkg/util/net"
	"github.com/fatedier/frp/pkg/util/util"
	"github.com/fatedier/frp/server"

	"verif/mc/peek"
	"verif/mc/vs"
	"verif/mc/vs/vnet"
)

const (
	Token    = "tok-7f3a"
	BindPort = 7000
)

// TestdataDir holds the pre-generated certificate (see tools/gencert).
var TestdataDir = func() string {
	if d := os.Getenv("VERIF_TESTDATA"); d != "" {
		return d
	}
	return "/verif/.build/testdata"
}()

type Opt struct {
	AllowPorts       []types.PortsRange
	MaxPortsPerClient int64
	MaxPoolCount     int64
	HeartbeatTimeout int64 // 0 => default 90; -1 disables
	UserConnTimeout  int64
	Scopes           []v1.AuthScope
	HTTPSPort        int
	HTTPPort         int
	TCPMuxPort       int
	TCPMuxPassthrough bool
	SubDomainHost    string
	Mutate           func(cfg *v1.ServerConfig)
}

type World struct {
	X   *vs.Exec
	H   *vnet.Host
	Svc *server.Service
	Cfg *v1.ServerConfig
	Peers []*Peer
	DumpReserved bool
	Base  string // dump taken right after start-up
	Works []*WorkRec
	nextUser int
}

func init() {
	log.Logger = log.Logger.WithOptions(golog.WithOutput(io.Discard), golog.WithLevel(golog.ErrorLevel))
}

func P(a, b int) []types.PortsRange { return []types.PortsRange{{Start: a, End: b}} }

// New builds the server and starts it; every thread alive when New returns is a daemon.
func New(x *vs.Exec, o Opt) *World {
	cfg := &v1.ServerConfig{}
	cfg.BindAddr = "127.0.0.1"
	cfg.BindPort = BindPort
	cfg.ProxyBindAddr = "127.0.0.1"
	cfg.Auth.Token = Token
	cfg.Auth.AdditionalScopes = o.Scopes
	cfg.AllowPorts = o.AllowPorts
	if len(cfg.AllowPorts) == 0 {
		cfg.AllowPorts = P(20000, 20003)
	}
	cfg.MaxPortsPerClient = o.MaxPortsPerClient
	cfg.Transport.TCPMux = lo.ToPtr(false)
	cfg.Transport.MaxPoolCount = o.MaxPoolCount
	cfg.Transport.HeartbeatTimeout = o.HeartbeatTimeout
	cfg.Transport.TLS.CertFile = TestdataDir + "/server.crt"
	cfg.Transport.TLS.KeyFile = TestdataDir + "/server.key"
	cfg.UserConnTimeout = o.UserConnTimeout
	cfg.VhostHTTPSPort = o.HTTPSPort
	cfg.VhostHTTPPort = o.HTTPPort
	cfg.TCPMuxHTTPConnectPort = o.TCPMuxPort
	cfg.TCPMuxPassthrough = o.TCPMuxPassthrough
	cfg.SubDomainHost = o.SubDomainHost
	cfg.Complete()
	if o.Mutate != nil {
		o.Mutate(cfg)
	}
	svc, err := server.NewService(cfg)
	if err != nil {
		panic(fmt.Sprintf("srvworld: NewService: %v", err))
	}
	w := &World{X: x, H: vnet.HostOf(x), Svc: svc, Cfg: cfg}
	x.Data = w
	go svc.Run(context.Background())
	// let every server thread reach its parking position
	vs.Quiesce("settle")
	w.Base = w.Dump()
	for _, t := range x.Threads() {
		if t != vs.Me() {
			t.Daemon = true
		}
	}
	return w
}

// Quiesce waits until no other thread can make progress.
func (w *World) Quiesce() { vs.Quiesce("quiesce") }

// ---- scripted peers ----

type Peer struct {
	W       *World
	Name    string
	User    string
	RunID   string
	Conn    net.Conn
	rw      io.ReadWriter
	Inbox   []msg.Message
	Reqs    int // ReqWorkConn messages received
	Closed  bool
	ClosedAt time.Duration
	ReadErr error
	OnReq   func(p *Peer) // called (in the reader thread) for every ReqWorkConn
	OnSid   func(p *Peer, sid string)
	SidProxies map[string]bool // names of this peer's xtcp proxies
	WorkWrap func(proxy string, c net.Conn) (io.ReadWriteCloser, error) // client-side enc/comp layer per proxy
	Log     []string
}

type LoginOpt struct {
	User      string
	RunID     string
	PoolCount int
	Key       string // override privilege key ("" => valid)
	BadKey    bool
	Timestamp int64
	ClientSpec msg.ClientSpec
	Metas     map[string]string
}

func (w *World) Dial() (*vnet.StreamConn, error) {
	return w.H.DialFrom("", fmt.Sprintf("127.0.0.1:%d", w.Cfg.BindPort))
}

func (w *World) Now() int64 {
	if w.X == nil {
		return 0
	}
	return vs.Epoch.Add(w.X.Now()).Unix()
}

// Login performs the login exchange. On success the peer's reader thread is started.
func (w *World) Login(name string, o LoginOpt) (*Peer, *msg.LoginResp, error) {
	c, err := w.Dial()
	if err != nil {
		return nil, nil, err
	}
	c.Tag = "ctl:" + name
	ts := o.Timestamp
	if ts == 0 {
		ts = w.Now()
	}
	key := util.GetAuthKey(Token, ts)
	if o.BadKey {
		key = util.GetAuthKey("wrong", ts)
	}
	if o.Key != "" {
		key = o.Key
	}
	lm := &msg.Login{Version: "0.61.0", Os: "linux", Arch: "amd64", User: o.User, PrivilegeKey: key, Timestamp: ts,
		RunID: o.RunID, PoolCount: o.PoolCount, ClientSpec: o.ClientSpec, Metas: o.Metas}
	if err := msg.WriteMsg(c, lm); err != nil {
		return nil, nil, err
	}
	var resp msg.LoginResp
	if err := msg.ReadMsgInto(c, &resp); err != nil {
		c.Close()
		return nil, nil, err
	}
	p := &Peer{W: w, Name: name, User: o.User, RunID: resp.RunID, Conn: c}
	if resp.Error != "" {
		c.Close()
		return p, &resp, fmt.Errorf("login refused: %s", resp.Error)
	}
	rw, err := netpkg.NewCryptoReadWriter(c, []byte(Token))
	if err != nil {
		return nil, nil, err
	}
	p.rw = rw
	w.Peers = append(w.Peers, p)
	go p.readLoop()
	return p, &resp, nil
}

func (p *Peer) readLoop() {
	for {
		m, err := msg.ReadMsg(p.rw)
		if err != nil {
			p.Closed = true
			p.ClosedAt = p.W.X.Now()
			p.ReadErr = err
			p.Conn.Close()
			return
		}
		switch m.(type) {
		case *msg.ReqWorkConn:
			p.Reqs++
			if p.OnReq != nil {
				p.OnReq(p)
			}
		default:
			p.Inbox = append(p.Inbox, m)
		}
	}
}

func (p *Peer) Send(m msg.Message) error { return msg.WriteMsg(p.rw, m) }

// Await blocks until a message of the same type as want (and matching pred, if given) is in the inbox, or the control closed.
func (p *Peer) Await(want msg.Message, pred func(m msg.Message) bool) msg.Message {
	wt := reflect.TypeOf(want)
	find := func() int {
		for i, m := range p.Inbox {
			if reflect.TypeOf(m) == wt && (pred == nil || pred(m)) {
				return i
			}
		}
		return -1
	}
	vs.Block("await "+wt.Elem().Name(), func() bool { return find() >= 0 || p.Closed })
	i := find()
	if i < 0 {
		return nil
	}
	m := p.Inbox[i]
	p.Inbox = append(p.Inbox[:i:i], p.Inbox[i+1:]...)
	return m
}

// NewProxy sends a registration and waits for its response (nil if the control closed first).
func (p *Peer) NewProxy(m *msg.NewProxy) *msg.NewProxyResp {
	if err := p.Send(m); err != nil {
		return nil
	}
	r := p.Await(&msg.NewProxyResp{}, func(x msg.Message) bool { return x.(*msg.NewProxyResp).ProxyName == m.ProxyName })
	if r == nil {
		return nil
	}
	return r.(*msg.NewProxyResp)
}

func (p *Peer) CloseProxy(name string) error { return p.Send(&msg.CloseProxy{ProxyName: name}) }

// Cut closes the control connection from the peer side.
func (p *Peer) Cut() { p.Conn.Close() }

// WorkConn opens a work connection for this peer's run id and returns it after sending NewWorkConn.
func (p *Peer) WorkConn(runID string, mut func(m *msg.NewWorkConn)) (*vnet.StreamConn, error) {
	c, err := p.W.Dial()
	if err != nil {
		return nil, err
	}
	c.Tag = "work:" + p.Name
	m := &msg.NewWorkConn{RunID: runID}
	if lo.Contains(p.W.Cfg.Auth.AdditionalScopes, v1.AuthScopeNewWorkConns) {
		m.Timestamp = p.W.Now()
		m.PrivilegeKey = util.GetAuthKey(Token, m.Timestamp)
	}
	if mut != nil {
		mut(m)
	}
	if err := msg.WriteMsg(c, m); err != nil {
		c.Close()
		return nil, err
	}
	return c, nil
}

// ---- canonical dump of the server's private state ----

// DumpWithout is Dump with the session lines of the named peer removed.
func (w *World) DumpWithout(peer string) string {
	var out []string
	for _, l := range strings.Split(w.Dump(), "\n") {
		if strings.HasPrefix(l, "session run("+peer+")") {
			continue
		}
		out = append(out, l)
	}
	return strings.Join(out, "\n")
}

func (w *World) Dump() string {
	var b strings.Builder
	svc := w.Svc
	// sessions
	peek.Each(peek.F(svc, "ctlManager.ctlsByRunID"), func(key string, _ , ctl reflect.Value) {
		rid := w.symRun(key)
		px := peek.MapKeys(peek.Walk(ctl, "proxies"))
		fmt.Fprintf(&b, "session %s user=%q proxies=%v ports=%d pool=%d\n", rid, peek.Walk(ctl, "loginMsg.User").String(),
			px, peek.Walk(ctl, "portsUsedNum").Int(), peek.Walk(ctl, "workConnCh").Len())
	})
	fmt.Fprintf(&b, "names %v\n", peek.MapKeys(peek.F(svc, "pxyManager.pxys")))
	for _, k := range []string{"TCPPortManager", "UDPPortManager"} {
		pm := peek.F(svc, "rc."+k)
		used := []string{}
		peek.Each(peek.Walk(pm, "usedPorts"), func(key string, _, v reflect.Value) {
			used = append(used, key+":"+peek.Walk(v, "ProxyName").String())
		})
		res := []string{}
		peek.Each(peek.Walk(pm, "reservedPorts"), func(key string, _, v reflect.Value) {
			res = append(res, fmt.Sprintf("%s:%d", key, peek.Walk(v, "Port").Int()))
		})
		fmt.Fprintf(&b, "%s used=%v free=%v\n", k, used, peek.MapKeys(peek.Walk(pm, "freePorts")))
		if w.DumpReserved {
			fmt.Fprintf(&b, "%s reserved=%v\n", k, res)
		}
	}
	fmt.Fprintf(&b, "visitors %v\n", peek.MapKeys(peek.F(svc, "rc.VisitorManager.listeners")))
	fmt.Fprintf(&b, "httpRoutes %v\n", dumpRouters(peek.F(svc, "httpVhostRouter")))
	if m := peek.F(svc, "rc.VhostHTTPSMuxer"); m.IsValid() && !m.IsNil() {
		fmt.Fprintf(&b, "httpsRoutes %v\n", dumpRouters(peek.Walk(m, "Muxer.registryRouter")))
	}
	if m := peek.F(svc, "rc.TCPMuxHTTPConnectMuxer"); m.IsValid() && !m.IsNil() {
		fmt.Fprintf(&b, "tcpmuxRoutes %v\n", dumpRouters(peek.Walk(m, "Muxer.registryRouter")))
	}
	tg := []string{}
	peek.Each(peek.F(svc, "rc.TCPGroupCtl.groups"), func(key string, _, g reflect.Value) {
		if peek.Walk(g, "lns").Len() == 0 {
			return // an empty group record holds no resource and is not observable
		}
		tg = append(tg, fmt.Sprintf("%s:lns=%d:port=%d:real=%d", key, peek.Walk(g, "lns").Len(), peek.Walk(g, "port").Int(), peek.Walk(g, "realPort").Int()))
	})
	fmt.Fprintf(&b, "tcpGroups %v\n", tg)
	hg := []string{}
	peek.Each(peek.F(svc, "rc.HTTPGroupCtl.groups"), func(key string, _, g reflect.Value) {
		if peek.Walk(g, "createFuncs").Len() == 0 {
			return
		}
		hg = append(hg, fmt.Sprintf("%s:n=%d", key, peek.Walk(g, "createFuncs").Len()))
	})
	fmt.Fprintf(&b, "httpGroups %v\n", hg)
	mg := []string{}
	peek.Each(peek.F(svc, "rc.TCPMuxGroupCtl.groups"), func(key string, _, g reflect.Value) {
		if peek.Walk(g, "lns").Len() == 0 {
			return
		}
		mg = append(mg, fmt.Sprintf("%s:lns=%d", key, peek.Walk(g, "lns").Len()))
	})
	fmt.Fprintf(&b, "tcpmuxGroups %v\n", mg)
	fmt.Fprintf(&b, "nathole clients=%v sessions=%d\n", peek.MapKeys(peek.F(svc, "rc.NatHoleController.clientCfgs")), peek.F(svc, "rc.NatHoleController.sessions").Len())
	fmt.Fprintf(&b, "boundTCP %v boundUDP %v\n", w.proxyPorts(w.H.BoundTCP()), w.H.BoundUDP())
	return b.String()
}

func (w *World) proxyPorts(ps []int) []int {
	var out []int
	for _, p := range ps {
		if p == w.Cfg.BindPort || p == w.Cfg.VhostHTTPSPort || p == w.Cfg.TCPMuxHTTPConnectPort || p == w.Cfg.VhostHTTPPort {
			continue
		}
		out = append(out, p)
	}
	return out
}

func dumpRouters(r reflect.Value) []string {
	var out []string
	if !r.IsValid() {
		return out
	}
	peek.Each(peek.Walk(r, "indexByDomain"), func(dom string, _, byUser reflect.Value) {
		peek.Each(byUser, func(user string, _, vrs reflect.Value) {
			for i := 0; i < vrs.Len(); i++ {
				out = append(out, fmt.Sprintf("%s|%s|%s", dom, peek.Walk(peek.Open(vrs.Index(i)), "location").String(), user))
			}
		})
	})
	sort.Strings(out)
	return out
}

// symRun maps run ids to stable symbolic names (run ids come from crypto/rand).
func (w *World) symRun(id string) string {
	for _, p := range w.Peers {
		if p.RunID == id {
			return "run(" + p.Name + ")"
		}
	}
	return "run(?)"
}

// Sessions lists the run ids currently in the session table.
func (w *World) Sessions() []string { return peek.MapKeys(peek.F(w.Svc, "ctlManager.ctlsByRunID")) }

var _ = time.Second

// WorkRec records one work connection handled by an auto-working peer.
type WorkRec struct {
	Peer    string
	Proxy   string
	Src     string
	Err     string
	Got     []byte
	Conn    *vnet.StreamConn
	Started bool
	Sid     string
	Wrap    func(c net.Conn) (io.ReadWriteCloser, error)
}

// AutoWork makes the peer answer every ReqWorkConn with a fresh work connection that
// reads StartWorkConn and then echoes (the backend stand-in).
func (p *Peer) AutoWork() {
	p.OnReq = func(p *Peer) {
		go p.ServeOneWork()
	}
}

func (p *Peer) ServeOneWork() {
	c, err := p.WorkConn(p.RunID, nil)
	if err != nil {
		return
	}
	p.serveWork(c)
}

// ServeWorkOn serves an already opened work connection (StartWorkConn, then echo).
func (p *Peer) ServeWorkOn(c *vnet.StreamConn) { p.serveWork(c) }

func (p *Peer) serveWork(c *vnet.StreamConn) {
	rec := &WorkRec{Peer: p.Name, Conn: c}
	p.W.Works = append(p.W.Works, rec)
	raw, err := msg.ReadMsg(c)
	if err != nil {
		rec.Err = err.Error()
		c.Close()
		return
	}
	if ns, ok := raw.(*msg.NatHoleSid); ok {
		rec.Sid = ns.Sid
		vs.Observe("work peer=%s got NatHoleSid", p.Name)
		if p.OnSid != nil {
			p.OnSid(p, ns.Sid)
		}
		c.Close()
		return
	}
	sw, ok := raw.(*msg.StartWorkConn)
	if !ok {
		rec.Err = fmt.Sprintf("unexpected %T on work connection", raw)
		c.Close()
		return
	}
	if sw.Error != "" {
		rec.Err = sw.Error
		c.Close()
		return
	}
	rec.Started = true
	rec.Proxy = sw.ProxyName
	rec.Src = fmt.Sprintf("%s:%d", sw.SrcAddr, sw.SrcPort)
	vs.Observe("work peer=%s proxy=%s src=%s", p.Name, rec.Proxy, rec.Src)
	if p.SidProxies[rec.Proxy] {
		// xtcp: the work connection only carries the session id of a NAT-hole request
		var ns msg.NatHoleSid
		if err := msg.ReadMsgInto(c, &ns); err != nil {
			rec.Err = err.Error()
		} else {
			rec.Sid = ns.Sid
			if p.OnSid != nil {
				p.OnSid(p, ns.Sid)
			}
		}
		c.Close()
		return
	}
	var rwc io.ReadWriteCloser = c
	if p.WorkWrap != nil {
		var werr error
		if rwc, werr = p.WorkWrap(rec.Proxy, c); werr != nil {
			rec.Err = werr.Error()
			c.Close()
			return
		}
	}
	buf := make([]byte, 4096)
	for {
		n, err := rwc.Read(buf)
		if n > 0 {
			rec.Got = append(rec.Got, buf[:n]...)
			if _, werr := rwc.Write(buf[:n]); werr != nil {
				rwc.Close()
				return
			}
		}
		if err != nil {
			rwc.Close()
			return
		}
	}
}

// UserEcho connects to a public port from src, sends payload and expects the echo.
// It returns the record of the work connection that served it ("" proxy if none) and an error text.
func (w *World) UserEcho(src string, port int, payload string) (served string, errText string) {
	u, err := w.H.DialFrom(src, fmt.Sprintf("127.0.0.1:%d", port))
	if err != nil {
		return "", "dial: " + err.Error()
	}
	u.Tag = "user:" + src
	defer u.Close()
	if _, err := u.Write([]byte(payload)); err != nil {
		return "", "write: " + err.Error()
	}
	buf := make([]byte, len(payload))
	if _, idle, err := u.ReadFullOrIdle(buf); idle {
		return "", "no reply: the system went idle with the user connection still open"
	} else if err != nil {
		return "", "read: " + err.Error()
	}
	if string(buf) != payload {
		return "", fmt.Sprintf("echo mismatch: %q", buf)
	}
	for _, r := range w.Works {
		if r.Src == src {
			return r.Peer + "/" + r.Proxy, ""
		}
	}
	return "", "echo received but no work connection recorded for " + src
}

// Teardown cuts every peer and waits for the server to settle.
func (w *World) Teardown() {
	for _, p := range w.Peers {
		if !p.Conn.(*vnet.StreamConn).IsClosed() {
			p.Cut()
		}
	}
	vs.Quiesce("teardown")
}

// EndReport is the standard end-of-execution oracle text: canonical dump, server-side endpoints still
// open, threads still parked that are not daemons.
func (w *World) EndReport(x *vs.Exec) (state string, problems []string) {
	var b strings.Builder
	d := w.Dump()
	b.WriteString(d)
	for _, c := range w.H.OpenConns() {
		if c.ServerSide {
			problems = append(problems, "server-side connection never closed: "+c.String())
		}
	}
	for _, t := range x.Stuck() {
		problems = append(problems, fmt.Sprintf("thread never finished: %s [%s]", t.Name, t.Pending()))
	}
	sort.Strings(problems)
	return b.String(), problems
}

// Guard swallows the "setup" panic used to abort a scenario after a failed precondition.
func Guard() {
	if r := recover(); r != nil && r != "setup" {
		panic(r)
	}
}

// MustLogin logs in with valid credentials and auto-working backend, or aborts the scenario.
func (w *World) MustLogin(name string, o LoginOpt) *Peer {
	if o.User == "" {
		o.User = "u" + name
	}
	p, _, err := w.Login(name, o)
	if err != nil {
		vs.Fail("setup: login %s: %v", name, err)
		panic("setup")
	}
	p.AutoWork()
	return p
}

// StdEnd is the standard End oracle: dump + leaked server-side endpoints + stuck threads become failures.
func StdEnd(x *vs.Exec) string {
	w, _ := x.Data.(*World)
	if w == nil {
		return "no world"
	}
	st, probs := w.EndReport(x)
	x.Fails = append(x.Fails, probs...)
	return st + strings.Join(x.Obs, "\n")
}

// Reg registers a proxy and renders the outcome: "ok<remoteAddr>", "err:<text>" or "noanswer".
func (p *Peer) Reg(m *msg.NewProxy) string {
	if m.ProxyType == "xtcp" {
		if p.SidProxies == nil {
			p.SidProxies = map[string]bool{}
		}
		p.SidProxies[m.ProxyName] = true
	}
	r := p.NewProxy(m)
	if r == nil {
		return "noanswer"
	}
	if r.Error != "" {
		return "err:" + r.Error
	}
	return "ok" + r.RemoteAddr
}

// NameConsistency checks "at most one live proxy per name": the global name table and the sessions' own tables agree.
func (w *World) NameConsistency(when string) {
	names := map[string]int{}
	peek.Each(peek.F(w.Svc, "ctlManager.ctlsByRunID"), func(key string, _, ctl reflect.Value) {
		for _, n := range peek.MapKeys(peek.Walk(ctl, "proxies")) {
			names[n]++
		}
	})
	global := peek.MapKeys(peek.F(w.Svc, "pxyManager.pxys"))
	var own []string
	for n, c := range names {
		if c > 1 {
			vs.Fail("%s: proxy name %q is live in %d sessions", when, n, c)
		}
		own = append(own, n)
	}
	sort.Strings(own)
	if fmt.Sprint(own) != fmt.Sprint(global) {
		vs.Fail("%s: name table %v differs from the proxies owned by live sessions %v", when, global, own)
	}
}

// ---- user-side helpers for the different accept paths ----

// ReadHTTPHead reads up to the blank line of an HTTP message head (idle-aware).
func ReadHTTPHead(u *vnet.StreamConn) (string, string) {
	var head []byte
	one := make([]byte, 1)
	for !strings.HasSuffix(string(head), "\r\n\r\n") {
		if _, idle, err := u.ReadFullOrIdle(one); idle {
			return string(head), "no reply: system idle with the connection open"
		} else if err != nil {
			return string(head), "read: " + err.Error()
		}
		head = append(head, one[0])
	}
	return string(head), ""
}

// ConnectMux opens a user connection through the tcpmux (HTTP CONNECT) port.
func (w *World) ConnectMux(src, host string, hdr string) (*vnet.StreamConn, string) {
	u, err := w.H.DialFrom(src, fmt.Sprintf("127.0.0.1:%d", w.Cfg.TCPMuxHTTPConnectPort))
	if err != nil {
		return nil, "dial: " + err.Error()
	}
	u.Tag = "user:" + src
	fmt.Fprintf(u, "CONNECT %s:80 HTTP/1.1\r\nHost: %s:80\r\n%s\r\n", host, host, hdr)
	head, e := ReadHTTPHead(u)
	if e != "" {
		return u, "connect reply: " + e
	}
	if !strings.HasPrefix(head, "HTTP/1.1 200") {
		return u, fmt.Sprintf("connect reply %q", head)
	}
	return u, ""
}

// Visitor opens a visitor connection to a secret proxy and returns it after the server's answer.
func (w *World) Visitor(src string, m *msg.NewVisitorConn, sk string) (*vnet.StreamConn, string) {
	c, err := w.H.DialFrom(src, fmt.Sprintf("127.0.0.1:%d", w.Cfg.BindPort))
	if err != nil {
		return nil, "dial: " + err.Error()
	}
	c.Tag = "visitor:" + src
	if m.Timestamp == 0 {
		m.Timestamp = w.Now()
	}
	if m.SignKey == "" {
		m.SignKey = util.GetAuthKey(sk, m.Timestamp)
	}
	if err := msg.WriteMsg(c, m); err != nil {
		return c, "write: " + err.Error()
	}
	var resp msg.NewVisitorConnResp
	done := false
	var rerr error
	go func() { rerr = msg.ReadMsgInto(c, &resp); done = true }()
	if !vs.BlockOrIdle("visitorresp|idle", func() bool { return done }) {
		return c, "no answer to NewVisitorConn: system idle"
	}
	if rerr != nil {
		return c, "read: " + rerr.Error()
	}
	if resp.Error != "" {
		return c, "refused: " + resp.Error
	}
	return c, ""
}

// Echo writes payload on an established user connection and expects it back.
func Echo(u *vnet.StreamConn, payload string) string {
	if _, err := u.Write([]byte(payload)); err != nil {
		return "write: " + err.Error()
	}
	buf := make([]byte, len(payload))
	if _, idle, err := u.ReadFullOrIdle(buf); idle {
		return "no reply: the system went idle with the user connection still open"
	} else if err != nil {
		return "read: " + err.Error()
	}
	if string(buf) != payload {
		return fmt.Sprintf("echo mismatch: %q", buf)
	}
	return ""
}

// ServedBy returns the work records whose StartWorkConn announced src.
func (w *World) ServedBy(src string) []*WorkRec {
	var out []*WorkRec
	for _, r := range w.Works {
		if r.Src == src {
			out = append(out, r)
		}
	}
	return out
}

// Census counts what is alive: managed threads that are not daemons and not finished, open
// stream endpoints, open listeners and UDP sockets. Used for "no growth across cycles".
func (w *World) Census() string {
	th := 0
	for _, t := range w.X.Threads() {
		if !t.Daemon && t.Pending() != "done" && t != vs.Me() && !harnessThread(t.Name) {
			th++
		}
	}
	lns := 0
	for _, l := range w.H.Lns {
		if !l.Closed() {
			lns++
		}
	}
	udps := 0
	for _, u := range w.H.UDPs {
		if !u.IsClosed() {
			udps++
		}
	}
	srv := 0
	for _, c := range w.H.OpenConns() {
		if c.ServerSide {
			srv++
		}
	}
	// pooled work connections belong to live sessions and are bounded by the pool capacity
	peek.Each(peek.F(w.Svc, "ctlManager.ctlsByRunID"), func(_ string, _, ctl reflect.Value) {
		srv -= peek.Walk(ctl, "workConnCh").Len()
	})
	return fmt.Sprintf("serverThreads=%d serverSideOpenConnsNotPooled=%d listeners=%d udp=%d", th, srv, lns, udps)
}

// SendPing sends one heartbeat (valid unless mut says otherwise).
func (p *Peer) SendPing(mut func(m *msg.Ping)) error {
	m := &msg.Ping{}
	if lo.Contains(p.W.Cfg.Auth.AdditionalScopes, v1.AuthScopeHeartBeats) {
		m.Timestamp = p.W.Now()
		m.PrivilegeKey = util.GetAuthKey(Token, m.Timestamp)
	}
	if mut != nil {
		mut(m)
	}
	return p.Send(m)
}

func harnessThread(name string) bool {
	return strings.HasPrefix(name, "srvworld.") || strings.HasPrefix(name, "main.")
}

// CensusDetail lists what Census counts.
func (w *World) CensusDetail() string {
	var out []string
	for _, t := range w.X.Threads() {
		if !t.Daemon && t.Pending() != "done" && t != vs.Me() && !harnessThread(t.Name) {
			out = append(out, fmt.Sprintf("T%d %s [%s]", t.ID, t.Name, t.Pending()))
		}
	}
	for _, c := range w.H.OpenConns() {
		if c.ServerSide {
			out = append(out, c.String())
		}
	}
	return strings.Join(out, "\n")
}

// ServeOneWorkWith is ServeOneWork with a hook to fill in the credentials of the NewWorkConn message.
func (p *Peer) ServeOneWorkWith(mut func(m *msg.NewWorkConn)) {
	c, err := p.WorkConn(p.RunID, mut)
	if err != nil {
		return
	}
	p.serveWork(c)
}
