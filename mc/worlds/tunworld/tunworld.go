// Package tunworld joins the real frps (srvworld) and real frpc instances on one
// virtual network, with scripted users and local backends: complete tunnels under E1.
package tunworld

import (
	"context"
	"fmt"
	"net"
	"time"

	"github.com/samber/lo"

	"github.com/fatedier/frp/client"
	v1 "github.com/fatedier/frp/pkg/config/v1"

	"verif/mc/vs"
	"verif/mc/vs/vnet"
	sw "verif/mc/worlds/srvworld"
)

type World struct {
	*sw.World
	Clients  []*Client
	Backends map[int]*Backend
}

type Client struct {
	Name string
	Svc  *client.Service
	Cfg  *v1.ClientCommonConfig
	// index into Host.Conns at the moment the client was started: the first connection to the bind port
	// created after it is this client's (first) control connection
	connMark int
}

// ControlConn returns the server-side endpoint of the client's first (control) connection.
func (w *World) ControlConn(c *Client) *vnet.StreamConn {
	for _, sc := range w.H.Conns[c.connMark:] {
		if sc.ServerSide && sc.LocalAddr().(*vnet.TCPAddr).Port == sw.BindPort {
			return sc
		}
	}
	return nil
}

// InUseWorkConns returns the open server-side connections on the bind port that are not a client's first
// (control) connection and on which the server has written something (StartWorkConn / visitor answer): the
// work connections currently carrying a tunnel. Idle pooled work connections are not included.
func (w *World) InUseWorkConns() []*vnet.StreamConn {
	ctl := map[*vnet.StreamConn]bool{}
	for _, c := range w.Clients {
		for _, sc := range w.H.Conns[c.connMark:] {
			if sc.ServerSide && sc.LocalAddr().(*vnet.TCPAddr).Port == sw.BindPort {
				ctl[sc] = true
				break
			}
		}
	}
	var out []*vnet.StreamConn
	for _, sc := range w.H.OpenConns() {
		if sc.ServerSide && !ctl[sc] && sc.Out > 0 && sc.LocalAddr().(*vnet.TCPAddr).Port == sw.BindPort {
			out = append(out, sc)
		}
	}
	return out
}

// Backend is a local service: echoes (or sinks) and records everything it receives per connection.
type Backend struct {
	Port  int
	ln    net.Listener
	Conns []*BConn
	Mode  string // "echo" | "sink" | "hold"
}

// ReadRec is one delivery to a backend (virtual time, bytes).
type ReadRec struct {
	At time.Duration
	N  int
}

type BConn struct {
	Reads  []ReadRec
	C      *vnet.StreamConn
	Got    []byte
	EOF    bool
	Err    error
	Closed bool
}

func New(x *vs.Exec, o sw.Opt) *World {
	w := &World{World: sw.New(x, o), Backends: map[int]*Backend{}}
	x.Data = w.World
	return w
}

// StartClient runs a real frpc against the world's frps.
func (w *World) StartClient(name, user string, proxies []v1.ProxyConfigurer, visitors []v1.VisitorConfigurer, mut func(c *v1.ClientCommonConfig)) *Client {
	cfg := &v1.ClientCommonConfig{}
	cfg.ServerAddr = "127.0.0.1"
	cfg.ServerPort = sw.BindPort
	cfg.User = user
	cfg.Auth.Token = sw.Token
	cfg.Transport.TCPMux = lo.ToPtr(false)
	cfg.Transport.TLS.Enable = lo.ToPtr(false)
	cfg.Transport.HeartbeatInterval = -1
	cfg.LoginFailExit = lo.ToPtr(false)
	if mut != nil {
		mut(cfg)
	}
	cfg.Complete()
	for _, p := range proxies {
		p.Complete(cfg.User)
	}
	for _, v := range visitors {
		v.Complete(cfg)
	}
	svc, err := client.NewService(client.ServiceOptions{Common: cfg, ProxyCfgs: proxies, VisitorCfgs: visitors})
	if err != nil {
		panic(fmt.Sprintf("tunworld: NewService: %v", err))
	}
	c := &Client{Name: name, Svc: svc, Cfg: cfg, connMark: len(w.H.Conns)}
	w.Clients = append(w.Clients, c)
	go func() { _ = svc.Run(context.Background()) }()
	return c
}

// AwaitRunning waits (virtual time, bounded) until the named proxies report "running".
func (w *World) AwaitRunning(c *Client, within time.Duration, names ...string) bool {
	t0 := w.X.Now()
	ok := func() bool {
		for _, n := range names {
			full := n
			if c.Cfg.User != "" {
				full = c.Cfg.User + "." + n
			}
			st, found := c.Svc.StatusExporter().GetProxyStatus(full)
			if !found || st.Phase != "running" {
				return false
			}
		}
		return true
	}
	// poll on the virtual clock (the status getters take locks, so they cannot run inside a scheduler predicate)
	for !ok() && w.X.Now() <= t0+within {
		time.Sleep(200 * time.Millisecond)
	}
	return ok()
}

// StartBackend listens on a local port.
func (w *World) StartBackend(port int, mode string) *Backend {
	l, err := vnet.Listen("tcp", fmt.Sprintf("127.0.0.1:%d", port))
	if err != nil {
		panic(err)
	}
	b := &Backend{Port: port, ln: l, Mode: mode}
	w.Backends[port] = b
	go func() {
		vs.SetDaemon()
		for {
			c, err := l.Accept()
			if err != nil {
				return
			}
			bc := &BConn{C: c.(*vnet.StreamConn)}
			b.Conns = append(b.Conns, bc)
			go b.serve(bc)
		}
	}()
	return b
}

func (b *Backend) serve(bc *BConn) {
	buf := make([]byte, 32*1024)
	for {
		n, err := bc.C.Read(buf)
		if n > 0 {
			bc.Reads = append(bc.Reads, ReadRec{At: vs.Cur().Now(), N: n})
			bc.Got = append(bc.Got, buf[:n]...)
			if b.Mode == "echo" {
				if _, werr := bc.C.Write(buf[:n]); werr != nil {
					bc.Err = werr
					bc.C.Close()
					bc.Closed = true
					return
				}
			}
		}
		if err != nil {
			if err.Error() == "EOF" {
				bc.EOF = true
			} else {
				bc.Err = err
			}
			if b.Mode != "hold" {
				bc.C.Close()
				bc.Closed = true
			}
			return
		}
	}
}

// StopAll closes every client and tears the server sessions down.
func (w *World) StopAll() {
	for _, c := range w.Clients {
		c.Svc.Close()
	}
	vs.Quiesce("clients-stopped")
	w.Teardown()
}
