// Package cliworld is the closed E1 world around a real frpc: the real
// client.Service on the virtual network against a scripted model frps
// (harness threads speaking the real wire protocol) and scripted local backends.
// Processed by the rewriter: plain go/chan/sync/time here are scheduler-visible.
package cliworld

import (
	"context"
	"fmt"
	"io"
	"net"
	"sort"
	"strings"
	"time"

	golog "github.com/fatedier/golib/log"
	"github.com/samber/lo"

	"github.com/fatedier/frp/client"
	v1 "github.com/fatedier/frp/pkg/config/v1"
	"github.com/fatedier/frp/pkg/msg"
	"github.com/fatedier/frp/pkg/util/log"
	netpkg "github.com/fatedier/frp/pkg/util/net"

	"verif/mc/vs"
	"verif/mc/vs/vnet"
)

const (
	Token      = "tok-7f3a"
	ServerPort = 7000
)

func init() {
	log.Logger = log.Logger.WithOptions(golog.WithOutput(io.Discard), golog.WithLevel(golog.ErrorLevel))
}

// Event is one thing the model server observed, with its virtual time.
type Event struct {
	At   time.Duration
	Kind string // conn, login, loginrej, newproxy, closeproxy, ping, workconn, sessionend
	Name string
	Sess int
}

type Session struct {
	ID      int
	RunID   string
	Conn    net.Conn
	rw      io.ReadWriter
	Live    bool
	Proxies map[string]*msg.NewProxy // currently registered (acknowledged or pending) proxies
	Work    []*vnet.StreamConn
	Pings   int
	LastPingAt time.Duration
}

// ReplyMode of the model server to a NewProxy message.
type ReplyMode int

const (
	ReplyOK ReplyMode = iota
	ReplyError
	ReplyNever
	ReplyLate // held until ReleaseLate is called
	ReplyLateError // an error answer, held until ReleaseLate is called (answers are released in arrival order)
)

type ModelServer struct {
	W        *World
	ln       net.Listener
	Up       bool
	Events   []Event
	Sessions []*Session
	nextRun  int

	RejectLogins int  // reject the next n logins
	MutePong     bool // never answer pings
	Reply        func(name string, nth int) ReplyMode
	nthReg       map[string]int
	late         []func()
	CutAfterLogin int // cut the next n sessions right after acknowledging the login
	NoPoolRequests bool // do not ask for pooled work connections after login
}

type World struct {
	X    *vs.Exec
	H    *vnet.Host
	Srv  *ModelServer
	Svc  *client.Service
	Cfg  *v1.ClientCommonConfig
	Back map[int]*Backend
}

type Opt struct {
	HeartbeatInterval int64
	HeartbeatTimeout  int64
	PoolCount         int
	Proxies           []v1.ProxyConfigurer
	Visitors          []v1.VisitorConfigurer
	ServerDownAtStart bool
	NoPoolRequests    bool
	LoginFailExit     bool // frpc's default: give up when the FIRST login fails (later logins are retried for ever)
}

func (w *World) ev(kind, name string, sess int) {
	w.Srv.Events = append(w.Srv.Events, Event{At: w.X.Now(), Kind: kind, Name: name, Sess: sess})
}

// New starts the model server and the real client.
func New(x *vs.Exec, o Opt) *World {
	w := &World{X: x, H: vnet.HostOf(x), Back: map[int]*Backend{}}
	x.Data = w
	w.Srv = &ModelServer{W: w, nthReg: map[string]int{}, NoPoolRequests: o.NoPoolRequests}
	if !o.ServerDownAtStart {
		w.Srv.Start()
	}
	cfg := &v1.ClientCommonConfig{}
	cfg.ServerAddr = "127.0.0.1"
	cfg.ServerPort = ServerPort
	cfg.Auth.Token = Token
	cfg.Transport.TCPMux = lo.ToPtr(false)
	cfg.Transport.TLS.Enable = lo.ToPtr(false)
	cfg.Transport.HeartbeatInterval = o.HeartbeatInterval
	cfg.Transport.HeartbeatTimeout = o.HeartbeatTimeout
	cfg.Transport.PoolCount = o.PoolCount
	cfg.LoginFailExit = lo.ToPtr(o.LoginFailExit)
	cfg.Complete()
	w.Cfg = cfg
	for _, p := range o.Proxies {
		p.Complete(cfg.User)
	}
	svc, err := client.NewService(client.ServiceOptions{Common: cfg, ProxyCfgs: o.Proxies, VisitorCfgs: o.Visitors})
	if err != nil {
		panic(fmt.Sprintf("cliworld: NewService: %v", err))
	}
	w.Svc = svc
	go func() { _ = svc.Run(context.Background()) }()
	return w
}

// ---- model server ----

func (s *ModelServer) Start() {
	l, err := vnet.Listen("tcp", fmt.Sprintf("127.0.0.1:%d", ServerPort))
	if err != nil {
		panic(err)
	}
	s.ln = l
	s.Up = true
	go s.acceptLoop(l)
}

// Stop makes the server unreachable (connection refused) and cuts every connection.
func (s *ModelServer) Stop() {
	s.Up = false
	if s.ln != nil {
		s.ln.Close()
	}
	s.CutAll()
}

// Restart forgets all sessions (run ids unknown afterwards) and comes back up.
func (s *ModelServer) Restart() {
	s.Stop()
	s.Start()
}

func (s *ModelServer) CutAll() {
	for _, se := range s.Sessions {
		if se.Live {
			se.Conn.Close()
		}
		for _, wc := range se.Work {
			wc.Close()
		}
	}
}

func (s *ModelServer) acceptLoop(l net.Listener) {
	vs.SetDaemon()
	for {
		c, err := l.Accept()
		if err != nil {
			return
		}
		s.W.ev("conn", "", 0)
		go s.handle(c.(*vnet.StreamConn))
	}
}

func (s *ModelServer) handle(c *vnet.StreamConn) {
	m, err := msg.ReadMsg(c)
	if err != nil {
		c.Close()
		return
	}
	switch v := m.(type) {
	case *msg.Login:
		if s.RejectLogins > 0 {
			s.RejectLogins--
			s.W.ev("loginrej", "", 0)
			msg.WriteMsg(c, &msg.LoginResp{Error: "rejected by the model server"})
			c.Close()
			return
		}
		rid := v.RunID
		if rid == "" {
			s.nextRun++
			rid = fmt.Sprintf("run%012d", s.nextRun)
		}
		// a re-login replaces the previous session with the same run id
		for _, old := range s.Sessions {
			if old.Live && old.RunID == rid {
				old.Conn.Close()
			}
		}
		se := &Session{ID: len(s.Sessions) + 1, RunID: rid, Conn: c, Live: true, Proxies: map[string]*msg.NewProxy{}}
		s.Sessions = append(s.Sessions, se)
		s.W.ev("login", rid, se.ID)
		msg.WriteMsg(c, &msg.LoginResp{RunID: rid, Version: "0.62.0"})
		if s.CutAfterLogin > 0 {
			s.CutAfterLogin--
			c.Close()
			se.Live = false
			s.W.ev("sessionend", "cut-after-login", se.ID)
			return
		}
		rw, err := netpkg.NewCryptoReadWriter(c, []byte(Token))
		if err != nil {
			c.Close()
			return
		}
		se.rw = rw
		if !s.NoPoolRequests {
			for i := 0; i < v.PoolCount; i++ {
				msg.WriteMsg(rw, &msg.ReqWorkConn{})
			}
		}
		s.sessionLoop(se)
	case *msg.NewWorkConn:
		for _, se := range s.Sessions {
			if se.Live && se.RunID == v.RunID {
				se.Work = append(se.Work, c)
				s.W.ev("workconn", "", se.ID)
				return
			}
		}
		msg.WriteMsg(c, &msg.StartWorkConn{Error: "unknown run id"})
		c.Close()
	default:
		c.Close()
	}
}

func (s *ModelServer) sessionLoop(se *Session) {
	for {
		m, err := msg.ReadMsg(se.rw)
		if err != nil {
			se.Live = false
			se.Conn.Close()
			for _, wc := range se.Work {
				wc.Close()
			}
			s.W.ev("sessionend", "", se.ID)
			return
		}
		switch v := m.(type) {
		case *msg.NewProxy:
			s.W.ev("newproxy", v.ProxyName, se.ID)
			s.nthReg[v.ProxyName]++
			mode := ReplyOK
			if s.Reply != nil {
				mode = s.Reply(v.ProxyName, s.nthReg[v.ProxyName])
			}
			se.Proxies[v.ProxyName] = v
			switch mode {
			case ReplyOK:
				msg.WriteMsg(se.rw, &msg.NewProxyResp{ProxyName: v.ProxyName, RemoteAddr: ":9000"})
			case ReplyError:
				delete(se.Proxies, v.ProxyName)
				msg.WriteMsg(se.rw, &msg.NewProxyResp{ProxyName: v.ProxyName, Error: "port already used"})
			case ReplyNever:
			case ReplyLateError:
				delete(se.Proxies, v.ProxyName)
				name := v.ProxyName
				s.late = append(s.late, func() {
					if se.Live {
						msg.WriteMsg(se.rw, &msg.NewProxyResp{ProxyName: name, Error: "port already used"})
					}
				})
			case ReplyLate:
				name := v.ProxyName
				s.late = append(s.late, func() {
					if se.Live {
						msg.WriteMsg(se.rw, &msg.NewProxyResp{ProxyName: name, RemoteAddr: ":9000"})
					}
				})
			}
		case *msg.CloseProxy:
			s.W.ev("closeproxy", v.ProxyName, se.ID)
			delete(se.Proxies, v.ProxyName)
		case *msg.Ping:
			se.Pings++
			se.LastPingAt = s.W.X.Now()
			s.W.ev("ping", "", se.ID)
			if !s.MutePong {
				msg.WriteMsg(se.rw, &msg.Pong{})
			}
		case *msg.NewVisitorConn, *msg.NatHoleVisitor, *msg.NatHoleClient, *msg.NatHoleReport:
		}
	}
}

// SendTo writes a message on the session's control connection.
func (s *ModelServer) SendTo(se *Session, m msg.Message) error { return msg.WriteMsg(se.rw, m) }

// ReleaseLate sends every held NewProxyResp.
func (s *ModelServer) ReleaseLate() {
	l := s.late
	s.late = nil
	for _, f := range l {
		f()
	}
}

// LiveSession returns the single live session (nil if none or several).
func (s *ModelServer) LiveSession() *Session {
	var out *Session
	n := 0
	for _, se := range s.Sessions {
		if se.Live {
			out = se
			n++
		}
	}
	if n != 1 {
		return nil
	}
	return out
}

func (s *ModelServer) LiveCount() int {
	n := 0
	for _, se := range s.Sessions {
		if se.Live {
			n++
		}
	}
	return n
}

// Registered returns the sorted names registered on the live session.
func (s *ModelServer) Registered() []string {
	se := s.LiveSession()
	if se == nil {
		return nil
	}
	var out []string
	for n := range se.Proxies {
		out = append(out, n)
	}
	sort.Strings(out)
	return out
}

// EventsOf filters the event log.
func (s *ModelServer) EventsOf(kind string) []Event {
	var out []Event
	for _, e := range s.Events {
		if e.Kind == kind {
			out = append(out, e)
		}
	}
	return out
}

func (s *ModelServer) Log() string {
	var b strings.Builder
	for _, e := range s.Events {
		fmt.Fprintf(&b, "%v %s %s s%d\n", e.At, e.Kind, e.Name, e.Sess)
	}
	return b.String()
}

// ---- local backends ----

// Backend is a scripted local service on a virtual port.
type Backend struct {
	W      *World
	Port   int
	ln     net.Listener
	Accept int
	Conns  []*vnet.StreamConn
}

// StartBackend listens on the local port (health probes then succeed).
func (w *World) StartBackend(port int) *Backend {
	b := w.Back[port]
	if b == nil {
		b = &Backend{W: w, Port: port}
		w.Back[port] = b
	}
	if b.ln != nil {
		return b
	}
	l, err := vnet.Listen("tcp", fmt.Sprintf("127.0.0.1:%d", port))
	if err != nil {
		panic(err)
	}
	b.ln = l
	go func() {
		vs.SetDaemon()
		for {
			c, err := l.Accept()
			if err != nil {
				return
			}
			b.Accept++
			sc := c.(*vnet.StreamConn)
			b.Conns = append(b.Conns, sc)
			go func() {
				buf := make([]byte, 1024)
				for {
					n, err := sc.Read(buf)
					if n > 0 {
						sc.Write(buf[:n])
					}
					if err != nil {
						sc.Close()
						return
					}
				}
			}()
		}
	}()
	return b
}

// StopBackend closes the listener: probes are refused from now on.
func (w *World) StopBackend(port int) {
	if b := w.Back[port]; b != nil && b.ln != nil {
		b.ln.Close()
		b.ln = nil
	}
}

// TCPProxy builds a tcp proxy config.
func TCPProxy(name string, localPort, remotePort int) *v1.TCPProxyConfig {
	c := &v1.TCPProxyConfig{}
	c.Name = name
	c.Type = "tcp"
	c.LocalIP = "127.0.0.1"
	c.LocalPort = localPort
	c.RemotePort = remotePort
	return c
}

// WithHealth adds a tcp health check.
func WithHealth(c *v1.TCPProxyConfig, interval, timeout, maxFailed int) *v1.TCPProxyConfig {
	c.HealthCheck.Type = "tcp"
	c.HealthCheck.IntervalSeconds = interval
	c.HealthCheck.TimeoutSeconds = timeout
	c.HealthCheck.MaxFailed = maxFailed
	return c
}
