// Package realworld runs the real frps and frpc in-process on loopback with real sockets
// (no instrumentation): used by the E2 parts whose observable does not depend on scheduling.
package realworld

import (
	"context"
	"fmt"
	"io"
	"net"
	"sync"
	"time"
	"verif/mc/peek"

	golog "github.com/fatedier/golib/log"
	"github.com/samber/lo"

	"github.com/fatedier/frp/client"
	v1 "github.com/fatedier/frp/pkg/config/v1"
	"github.com/fatedier/frp/pkg/util/log"
	"github.com/fatedier/frp/server"
)

const Token = "tok-real-5ad1"

func init() {
	log.Logger = log.Logger.WithOptions(golog.WithOutput(io.Discard), golog.WithLevel(golog.ErrorLevel))
}

var (
	portMu   sync.Mutex
	nextPort = 21000
)

// FreePort returns a TCP+UDP port that is free right now (and not handed out before by this process).
func FreePort() int {
	portMu.Lock()
	defer portMu.Unlock()
	for {
		nextPort++
		if nextPort > 60000 {
			nextPort = 21000
		}
		p := nextPort
		l, err := net.Listen("tcp", fmt.Sprintf("127.0.0.1:%d", p))
		if err != nil {
			continue
		}
		u, err := net.ListenPacket("udp", fmt.Sprintf("127.0.0.1:%d", p))
		if err != nil {
			l.Close()
			continue
		}
		l.Close()
		u.Close()
		return p
	}
}

var TestdataDir = "/verif/.build/testdata"

type Server struct {
	Cfg    *v1.ServerConfig
	Svc    *server.Service
	cancel context.CancelFunc
	done   chan struct{}
}

// StartServer starts a real frps on loopback. mut may adjust the configuration before Complete().
func StartServer(mut func(c *v1.ServerConfig)) (*Server, error) {
	cfg := &v1.ServerConfig{}
	cfg.BindAddr = "127.0.0.1"
	cfg.ProxyBindAddr = "127.0.0.1"
	cfg.BindPort = FreePort()
	cfg.Auth.Token = Token
	cfg.Transport.TLS.CertFile = TestdataDir + "/server.crt"
	cfg.Transport.TLS.KeyFile = TestdataDir + "/server.key"
	if mut != nil {
		mut(cfg)
	}
	cfg.Complete()
	svc, err := server.NewService(cfg)
	if err != nil {
		return nil, err
	}
	ctx, cancel := context.WithCancel(context.Background())
	s := &Server{Cfg: cfg, Svc: svc, cancel: cancel, done: make(chan struct{})}
	go func() { svc.Run(ctx); close(s.done) }()
	return s, nil
}

func (s *Server) Close() {
	_ = s.Svc.Close() // closes the listeners, which ends Run's accept loop
	s.cancel()
	select {
	case <-s.done:
	case <-time.After(300 * time.Millisecond):
	}
}

type Client struct {
	Cfg *v1.ClientCommonConfig
	Svc *client.Service
}

// StartClient starts a real frpc connected to s.
func StartClient(s *Server, user string, proxies []v1.ProxyConfigurer, visitors []v1.VisitorConfigurer, mut func(c *v1.ClientCommonConfig)) (*Client, error) {
	cfg := &v1.ClientCommonConfig{}
	cfg.ServerAddr = "127.0.0.1"
	cfg.ServerPort = s.Cfg.BindPort
	cfg.User = user
	cfg.Auth.Token = Token
	cfg.LoginFailExit = lo.ToPtr(true)
	if mut != nil {
		mut(cfg)
	}
	cfg.Complete()
	for _, p := range proxies {
		p.Complete(cfg.User)
	}
	for _, v := range visitors {
		v.Complete(cfg)
	}
	svc, err := client.NewService(client.ServiceOptions{Common: cfg, ProxyCfgs: proxies, VisitorCfgs: visitors})
	if err != nil {
		return nil, err
	}
	c := &Client{Cfg: cfg, Svc: svc}
	go func() { _ = svc.Run(context.Background()) }()
	return c, nil
}

// Close stops the client. Service.Close must not be called before Run has initialised the service (it calls a
// cancel function that Run installs), so wait for that first.
func (c *Client) Close() {
	for i := 0; i < 400 && peek.F(c.Svc, "cancel").IsNil(); i++ {
		time.Sleep(5 * time.Millisecond)
	}
	if peek.F(c.Svc, "cancel").IsNil() {
		return
	}
	c.Svc.Close()
}

// WaitRunning polls until the named proxies are running or the timeout passes.
func (c *Client) WaitRunning(timeout time.Duration, names ...string) bool {
	deadline := time.Now().Add(timeout)
	for {
		ok := true
		for _, n := range names {
			full := n
			if c.Cfg.User != "" {
				full = c.Cfg.User + "." + n
			}
			st, found := c.Svc.StatusExporter().GetProxyStatus(full)
			if !found || st.Phase != "running" {
				ok = false
			}
		}
		if ok {
			return true
		}
		if time.Now().After(deadline) {
			return false
		}
		time.Sleep(20 * time.Millisecond)
	}
}

// EchoBackend is a TCP echo server on a fresh loopback port.
type EchoBackend struct {
	Port int
	ln   net.Listener
	mu   sync.Mutex
	Got  [][]byte
}

func StartEcho() *EchoBackend {
	p := FreePort()
	l, err := net.Listen("tcp", fmt.Sprintf("127.0.0.1:%d", p))
	if err != nil {
		panic(err)
	}
	b := &EchoBackend{Port: p, ln: l}
	go func() {
		for {
			c, err := l.Accept()
			if err != nil {
				return
			}
			b.mu.Lock()
			idx := len(b.Got)
			b.Got = append(b.Got, nil)
			b.mu.Unlock()
			go func() {
				defer c.Close()
				buf := make([]byte, 32*1024)
				for {
					n, err := c.Read(buf)
					if n > 0 {
						b.mu.Lock()
						b.Got[idx] = append(b.Got[idx], buf[:n]...)
						b.mu.Unlock()
						if _, werr := c.Write(buf[:n]); werr != nil {
							return
						}
					}
					if err != nil {
						return
					}
				}
			}()
		}
	}()
	return b
}

func (b *EchoBackend) Close() { b.ln.Close() }

// Count returns the number of connections accepted so far.
func (b *EchoBackend) Count() int {
	b.mu.Lock()
	defer b.mu.Unlock()
	return len(b.Got)
}

// Received returns a copy of what connection i received.
func (b *EchoBackend) Received(i int) []byte {
	b.mu.Lock()
	defer b.mu.Unlock()
	if i >= len(b.Got) {
		return nil
	}
	return append([]byte(nil), b.Got[i]...)
}

// WaitPort waits until something listens on the TCP port.
func WaitPort(port int, timeout time.Duration) bool {
	deadline := time.Now().Add(timeout)
	for time.Now().Before(deadline) {
		c, err := net.DialTimeout("tcp", fmt.Sprintf("127.0.0.1:%d", port), 200*time.Millisecond)
		if err == nil {
			c.Close()
			return true
		}
		time.Sleep(20 * time.Millisecond)
	}
	return false
}
