// Package covrt is the run-time half of the side tool bin/covcheck: block counters for frp code executed by the checks.
// It is only linked into the coverage builds (.build/covbin), never into the registered checks.
package covrt

import (
	"fmt"
	"os"
	"path/filepath"
	"time"
)

var hits [1 << 17]uint8

func Hit(i int) { hits[i] = 1 }

var name string

// Flush writes the counters of this process (no-op outside coverage runs).
func Flush() {
	if name == "" {
		return
	}
	b := make([]byte, len(hits))
	copy(b, hits[:])
	if os.WriteFile(name+".tmp", b, 0o644) == nil {
		_ = os.Rename(name+".tmp", name)
	}
}

func init() {
	dir := os.Getenv("VERIF_COVDIR")
	if dir == "" {
		return
	}
	name = filepath.Join(dir, fmt.Sprintf("%d-%d.bin", os.Getpid(), time.Now().UnixNano()))
	go func() {
		for {
			time.Sleep(700 * time.Millisecond)
			Flush()
		}
	}()
}
